"""AST helpers: normalised text, pattern queries, literal constant folding."""
import ast
import copy

from .core import AnalysisError


class _Canon(ast.NodeTransformer):
    """Order-insensitive canonical form used only for *comparing* texts: operands of commutative operators on
    non-literal-sequence operands sorted, `a > b` as `b < a`, `x += e` as `x = x + e`."""

    COMM = (ast.Add, ast.Mult, ast.BitAnd, ast.BitOr, ast.BitXor)

    @staticmethod
    def _seq_literal(n):
        return isinstance(n, (ast.List, ast.Tuple, ast.JoinedStr)) or (isinstance(n, ast.Constant) and isinstance(n.value, (str, bytes)))

    def visit_BinOp(self, node):
        self.generic_visit(node)
        if isinstance(node.op, self.COMM):
            ops = []

            def flat(n):
                if isinstance(n, ast.BinOp) and type(n.op) is type(node.op):
                    flat(n.left)
                    flat(n.right)
                else:
                    ops.append(n)

            flat(node)
            if not any(self._seq_literal(o) for o in ops):
                ops.sort(key=lambda o: ast.unparse(o))
                out = ops[0]
                for o in ops[1:]:
                    out = ast.BinOp(left=out, op=node.op, right=o)
                return out
        return node

    def visit_Compare(self, node):
        self.generic_visit(node)
        if len(node.ops) == 1:
            op, a, b = node.ops[0], node.left, node.comparators[0]
            if isinstance(op, (ast.Gt, ast.GtE)):
                return ast.Compare(left=b, ops=[ast.Lt() if isinstance(op, ast.Gt) else ast.LtE()], comparators=[a])
            if isinstance(op, (ast.Eq, ast.NotEq)) and ast.unparse(b) < ast.unparse(a):
                return ast.Compare(left=b, ops=[op], comparators=[a])
        return node

    def visit_AugAssign(self, node):
        self.generic_visit(node)
        tgt_load = copy.deepcopy(node.target)
        for x in ast.walk(tgt_load):
            if hasattr(x, "ctx"):
                x.ctx = ast.Load()
        return self.visit(ast.Assign(targets=[node.target], value=ast.BinOp(left=tgt_load, op=node.op, right=node.value), lineno=getattr(node, "lineno", 0)))


def _canon_text(node):
    try:
        t = _Canon().visit(copy.deepcopy(node))
        return " ".join(ast.unparse(ast.fix_missing_locations(t)).split())
    except Exception:
        return None


_literal_canon = {}


def _canon_of_literal(text):
    if text not in _literal_canon:
        c = None
        for mode in ("eval", "exec"):
            try:
                tree = ast.parse(text, mode=mode)
                body = tree.body if mode == "eval" else (tree.body[0] if len(tree.body) == 1 else None)
                if body is not None:
                    c = _canon_text(body)
                    break
            except SyntaxError:
                continue
        _literal_canon[text] = c if c is not None else text
    return _literal_canon[text]


class NormStr(str):
    """Normalised source text of an AST node. Prints / slices / searches / hashes like the plain text; *equality* (==,
    `in` a tuple or list) is decided on the order-insensitive canonical form (computed lazily, only when the plain
    texts differ), so a rule that expects `a + b` also accepts `b + a`, `x > 0` also `0 < x`, `i += 1` also `i = i + 1`."""

    __slots__ = ("_node", "_canon")

    def __new__(cls, text, node=None):
        o = super().__new__(cls, text)
        o._node = node
        o._canon = None
        return o

    @property
    def canon(self):
        if self._canon is None:
            c = _canon_text(self._node) if self._node is not None else None
            self._canon = c if c is not None else str(self)
        return self._canon

    def __eq__(self, other):
        if isinstance(other, str):
            if str.__eq__(self, other):
                return True
            if isinstance(other, NormStr):
                return self.canon == other.canon
            return self.canon == _canon_of_literal(other)
        return NotImplemented

    def __ne__(self, other):
        r = self.__eq__(other)
        return r if r is NotImplemented else not r

    def __hash__(self):
        # hashing stays on the plain text: set / dict lookups against literal strings behave exactly as for str
        return str.__hash__(self)


def norm(node):
    """Canonical single-line text of an AST node (whitespace/quotes/parens free); see NormStr for how it compares."""
    if node is None:
        return "None"
    if isinstance(node, list):
        return "; ".join(norm(n) for n in node)
    return NormStr(" ".join(ast.unparse(node).split()), node)


def same_texts(got, wanted):
    """Set equality of normalised texts decided with NormStr's canonical equality (a plain set() would hash the raw text)."""
    got, wanted = list(got), list(wanted)
    return len(got) == len(wanted) and all(any(g == w for g in got) for w in wanted) and all(any(g == w for w in wanted) for g in got)


def dotted(node):
    """a.b.c -> 'a.b.c' for Name/Attribute chains, else None."""
    parts = []
    while isinstance(node, ast.Attribute):
        parts.append(node.attr)
        node = node.value
    if isinstance(node, ast.Name):
        parts.append(node.id)
        return ".".join(reversed(parts))
    return None


def call_name(call):
    """Dotted name of the callee of a Call node (or None)."""
    if not isinstance(call, ast.Call):
        return None
    return dotted(call.func)


def walk_no_nested(node):
    """ast.walk that does not descend into nested function/class/lambda bodies
    (the root itself may be a FunctionDef)."""
    todo = list(ast.iter_child_nodes(node))
    while todo:
        n = todo.pop()
        yield n
        if isinstance(n, (ast.FunctionDef, ast.AsyncFunctionDef, ast.ClassDef, ast.Lambda)):
            continue
        todo.extend(ast.iter_child_nodes(n))


def calls_in(node, name=None, nested=True):
    """All Call nodes under node, optionally filtered by dotted callee name or
    by last attribute (name starting with '.')."""
    it = ast.walk(node) if nested else walk_no_nested(node)
    out = []
    for n in it:
        if isinstance(n, ast.Call):
            cn = call_name(n)
            if name is None:
                out.append(n)
            elif name.startswith("."):
                if isinstance(n.func, ast.Attribute) and n.func.attr == name[1:]:
                    out.append(n)
            elif cn == name or (cn and cn.endswith("." + name)):
                out.append(n)
    out.sort(key=lambda c: (c.lineno, c.col_offset))
    return out


def names_in(node):
    return {n.id for n in ast.walk(node) if isinstance(n, ast.Name)}


def attrs_in(node):
    """Set of dotted attribute chains (maximal) under node."""
    out = set()
    for n in ast.walk(node):
        if isinstance(n, ast.Attribute):
            d = dotted(n)
            if d:
                out.add(d)
    return out


def stmts_in(body):
    """All statements (recursively) in a list of statements, not entering nested defs."""
    for st in body:
        yield st
        if isinstance(st, (ast.FunctionDef, ast.AsyncFunctionDef, ast.ClassDef)):
            continue
        for fld in ("body", "orelse", "finalbody"):
            sub = getattr(st, fld, None)
            if sub:
                yield from stmts_in(sub)
        for h in getattr(st, "handlers", []) or []:
            yield from stmts_in(h.body)


def assigned_targets(st):
    """(target node, value node|None) pairs of a statement."""
    out = []
    if isinstance(st, ast.Assign):
        for t in st.targets:
            out.append((t, st.value))
    elif isinstance(st, ast.AugAssign):
        out.append((st.target, st.value))
    elif isinstance(st, ast.AnnAssign) and st.value is not None:
        out.append((st.target, st.value))
    return out


def get_kwarg(call, name, pos=None):
    for k in call.keywords:
        if k.arg == name:
            return k.value
    if pos is not None and len(call.args) > pos:
        a = call.args[pos]
        if not isinstance(a, ast.Starred):
            return a
    return None


def is_const(node, value=None):
    if not isinstance(node, ast.Constant):
        return False
    return value is None or (node.value == value and type(node.value) is type(value))


# ---------------------------------------------------------------- folding


class NoFold(Exception):
    pass


def fold(node, env=None):
    """Evaluate a *literal* expression. env: name -> python value (for
    resolved module constants / enum members 'Cls.member'). Raises NoFold."""
    env = env or {}
    if isinstance(node, ast.Constant):
        return node.value
    if isinstance(node, ast.Name):
        if node.id in env:
            return env[node.id]
        raise NoFold(node.id)
    if isinstance(node, ast.Attribute):
        d = dotted(node)
        if d and d in env:
            return env[d]
        raise NoFold(d or ast.dump(node))
    if isinstance(node, (ast.Tuple, ast.List)):
        vals = [fold(e, env) for e in node.elts]
        return tuple(vals) if isinstance(node, ast.Tuple) else vals
    if isinstance(node, ast.Set):
        return set(fold(e, env) for e in node.elts)
    if isinstance(node, ast.Dict):
        return {fold(k, env): fold(v, env) for k, v in zip(node.keys, node.values)}
    if isinstance(node, ast.UnaryOp):
        v = fold(node.operand, env)
        if isinstance(node.op, ast.USub):
            return -v
        if isinstance(node.op, ast.UAdd):
            return +v
        if isinstance(node.op, ast.Invert):
            return ~v
        if isinstance(node.op, ast.Not):
            return not v
    if isinstance(node, ast.BinOp):
        a = fold(node.left, env)
        b = fold(node.right, env)
        op = node.op
        try:
            if isinstance(op, ast.Add):
                return a + b
            if isinstance(op, ast.Sub):
                return a - b
            if isinstance(op, ast.Mult):
                return a * b
            if isinstance(op, ast.FloorDiv):
                return a // b
            if isinstance(op, ast.Div):
                return a / b
            if isinstance(op, ast.Mod):
                return a % b
            if isinstance(op, ast.LShift):
                return a << b
            if isinstance(op, ast.RShift):
                return a >> b
            if isinstance(op, ast.BitOr):
                return a | b
            if isinstance(op, ast.BitAnd):
                return a & b
            if isinstance(op, ast.BitXor):
                return a ^ b
            if isinstance(op, ast.Pow):
                return a**b
        except Exception as e:  # noqa
            raise NoFold(str(e))
    if isinstance(node, ast.Compare):
        import operator as _op

        ops = {ast.Lt: _op.lt, ast.LtE: _op.le, ast.Gt: _op.gt, ast.GtE: _op.ge, ast.Eq: _op.eq, ast.NotEq: _op.ne}
        left = fold(node.left, env)
        for o, r in zip(node.ops, node.comparators):
            if type(o) not in ops:
                raise NoFold(norm(node))
            right = fold(r, env)
            if not ops[type(o)](left, right):
                return False
            left = right
        return True
    if isinstance(node, ast.BoolOp):
        vals = [fold(v, env) for v in node.values]
        return all(vals) if isinstance(node.op, ast.And) else any(vals)
    if isinstance(node, ast.IfExp):
        return fold(node.body, env) if fold(node.test, env) else fold(node.orelse, env)
    if isinstance(node, ast.Call):
        cn = call_name(node)
        if cn in ("set", "frozenset", "tuple", "list") and len(node.args) <= 1 and not node.keywords:
            if not node.args:
                return {"set": set, "frozenset": frozenset, "tuple": tuple, "list": list}[cn]()
            v = fold(node.args[0], env)
            return {"set": set, "frozenset": frozenset, "tuple": tuple, "list": list}[cn](v)
        if cn in ("int", "float", "len", "max", "min", "abs") and not node.keywords:
            vals = [fold(a, env) for a in node.args]
            return {"int": int, "float": float, "len": len, "max": max, "min": min, "abs": abs}[cn](*vals)
    raise NoFold(norm(node))


def try_fold(node, env=None, default=None):
    try:
        return fold(node, env)
    except NoFold:
        return default


# ---------------------------------------------------------------- enums


def enum_members(clsnode, env=None):
    """Ordered dict member name -> folded value for an Enum-like class whose
    body is NAME = literal / auto() assignments."""
    out = {}
    auto = 0
    for st in clsnode.body:
        if isinstance(st, ast.Assign) and len(st.targets) == 1 and isinstance(st.targets[0], ast.Name):
            name = st.targets[0].id
            if name.startswith("_"):
                continue
            v = st.value
            if isinstance(v, ast.Call) and call_name(v) in ("auto", "enum.auto"):
                auto += 1
                out[name] = auto
            else:
                local = dict(env or {})
                local.update(out)
                val = try_fold(v, local, default=("<expr>", norm(v)))
                out[name] = val
                if isinstance(val, int) and not isinstance(val, bool):
                    auto = val
    return out


def class_bases(clsnode):
    return [dotted(b) or norm(b) for b in clsnode.bases]


# ---------------------------------------------------------------- substitute


class _Subst(ast.NodeTransformer):
    def __init__(self, mapping):
        self.mapping = mapping

    def visit_Name(self, node):
        if isinstance(node.ctx, ast.Load) and node.id in self.mapping:
            return copy.deepcopy(self.mapping[node.id])
        return node


def substitute(node, mapping):
    """Replace Name loads by the expression mapped to them (deep copy)."""
    return ast.fix_missing_locations(_Subst(mapping).visit(copy.deepcopy(node)))


def _in_subscript_index(target, name):
    """True if `name` occurs only inside the index / slice of a subscript in the assignment target (it is read, not written)."""
    for sub in ast.walk(target):
        if isinstance(sub, ast.Subscript) and any(x is name for x in ast.walk(sub.slice)):
            return True
    return False


def single_assignments(func):
    """name -> value for locals assigned exactly once by a plain `name = expr`
    (and never augmented / used as loop target / deleted)."""
    counts = {}
    vals = {}
    for n in walk_no_nested(func):
        if isinstance(n, ast.Assign):
            for t in n.targets:
                for nm in ast.walk(t):
                    if isinstance(nm, ast.Name) and (isinstance(nm.ctx, ast.Store) or not _in_subscript_index(t, nm)):
                        counts[nm.id] = counts.get(nm.id, 0) + 1
                if isinstance(t, ast.Name) and len(n.targets) == 1:
                    vals[t.id] = n.value
        elif isinstance(n, (ast.AugAssign, ast.AnnAssign)):
            for nm in ast.walk(n.target):
                if isinstance(nm, ast.Name):
                    counts[nm.id] = counts.get(nm.id, 0) + 2
        elif isinstance(n, (ast.For, ast.comprehension)):
            for nm in ast.walk(n.target):
                if isinstance(nm, ast.Name):
                    counts[nm.id] = counts.get(nm.id, 0) + 2
        elif isinstance(n, ast.With):
            for it in n.items:
                if it.optional_vars is not None:
                    for nm in ast.walk(it.optional_vars):
                        if isinstance(nm, ast.Name):
                            counts[nm.id] = counts.get(nm.id, 0) + 2
        elif isinstance(n, ast.NamedExpr):
            counts[n.target.id] = counts.get(n.target.id, 0) + 2
    if isinstance(func, (ast.FunctionDef, ast.AsyncFunctionDef)):
        a = func.args
        for arg in a.posonlyargs + a.args + a.kwonlyargs + ([a.vararg] if a.vararg else []) + ([a.kwarg] if a.kwarg else []):
            counts[arg.arg] = counts.get(arg.arg, 0) + 2
    return {k: v for k, v in vals.items() if counts.get(k) == 1}


def inline(node, func, depth=4):
    """Alias inlining: substitute single-assignment locals of func into node,
    repeatedly (bounded)."""
    sa = single_assignments(func)
    cur = node
    for _ in range(depth):
        used = names_in(cur) & set(sa)
        if not used:
            break
        cur = substitute(cur, {k: sa[k] for k in used})
    return cur


def find_assign(func, target_text, nested=False):
    """All statements in func assigning to the target whose normalised text is
    target_text (e.g. 'lr.address', 'total_sz')."""
    out = []
    it = ast.walk(func) if nested else walk_no_nested(func)
    for n in it:
        for t, v in assigned_targets(n) if isinstance(n, ast.stmt) else []:
            if norm(t) == target_text:
                out.append(n)
            elif isinstance(t, (ast.Tuple, ast.List)):
                for e in t.elts:
                    if norm(e) == target_text:
                        out.append(n)
    out.sort(key=lambda s: (s.lineno, s.col_offset))
    return out


def require(cond, msg):
    if not cond:
        raise AnalysisError(msg)

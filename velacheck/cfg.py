"""Statement-level control-flow graph for one function, with dominators,
post-dominators, path queries and reaching definitions.

Nodes are integers. Node 0 is ENTRY, node 1 is EXIT (normal return / fall-off),
node 2 is RAISE (exceptional exit: raise, failed `assert <false const>`).
Each simple statement is one node; `if`/`while` tests and `for` heads are one
node each (payload = the If/While/For statement, kind 'test' / 'iter').
Implicit exceptions are modelled only inside `try` bodies (every node of the
body has an edge to each handler)."""
import ast

from .core import AnalysisError

ENTRY, EXIT, RAISE = 0, 1, 2


class Node:
    __slots__ = ("id", "kind", "stmt", "expr")

    def __init__(self, id, kind, stmt=None, expr=None):
        self.id = id
        self.kind = kind  # entry exit raise stmt test iter with except
        self.stmt = stmt
        self.expr = expr  # the expression evaluated at this node (test / iter / stmt)


def _is_false_const(e):
    return isinstance(e, ast.Constant) and not e.value


class CFG:
    def __init__(self, func):
        self.func = func
        self.nodes = [Node(0, "entry"), Node(1, "exit"), Node(2, "raise")]
        self.succ = {0: [], 1: [], 2: []}  # id -> list of (id, label)
        self.stmt_node = {}  # id(ast stmt) -> node id
        self._loop_stack = []
        self._try_stack = []  # list of handler-entry node id lists
        self._finally_stack = []
        body = func.body if hasattr(func, "body") else func
        ends = self._seq(body, [(ENTRY, None)])
        for n, lab in ends:
            self._edge(n, EXIT, lab)
        self._finish()

    # ---- construction
    def _new(self, kind, stmt=None, expr=None):
        n = Node(len(self.nodes), kind, stmt, expr)
        self.nodes.append(n)
        self.succ[n.id] = []
        if stmt is not None and id(stmt) not in self.stmt_node:
            self.stmt_node[id(stmt)] = n.id
        if self._try_stack:
            for h in self._try_stack[-1]:
                self.succ[n.id].append((h, "exc"))
        return n.id

    def _edge(self, a, b, label=None):
        self.succ[a].append((b, label))

    def _connect(self, preds, n):
        for p, lab in preds:
            self._edge(p, n, lab)

    def _seq(self, body, preds):
        for st in body:
            preds = self._stmt(st, preds)
        return preds

    def _stmt(self, st, preds):
        if isinstance(st, ast.If):
            t = self._new("test", st, st.test)
            self._connect(preds, t)
            a = self._seq(st.body, [(t, True)])
            b = self._seq(st.orelse, [(t, False)]) if st.orelse else [(t, False)]
            return a + b
        if isinstance(st, ast.While):
            t = self._new("test", st, st.test)
            self._connect(preds, t)
            self._loop_stack.append({"head": t, "breaks": []})
            ends = self._seq(st.body, [(t, True)])
            self._connect(ends, t)
            info = self._loop_stack.pop()
            const_true = isinstance(st.test, ast.Constant) and bool(st.test.value)
            out = [] if const_true else [(t, False)]
            if st.orelse:
                out = self._seq(st.orelse, out)
            return out + info["breaks"]
        if isinstance(st, (ast.For, ast.AsyncFor)):
            t = self._new("iter", st, st.iter)
            self._connect(preds, t)
            self._loop_stack.append({"head": t, "breaks": []})
            ends = self._seq(st.body, [(t, True)])
            self._connect(ends, t)
            info = self._loop_stack.pop()
            out = [(t, False)]
            if st.orelse:
                out = self._seq(st.orelse, out)
            return out + info["breaks"]
        if isinstance(st, (ast.With, ast.AsyncWith)):
            w = self._new("with", st, st)
            self._connect(preds, w)
            return self._seq(st.body, [(w, None)])
        if isinstance(st, ast.Try) or st.__class__.__name__ == "TryStar":
            handler_entries = []
            hnodes = []
            for h in st.handlers:
                hn = Node(len(self.nodes), "except", h, h.type)
                self.nodes.append(hn)
                self.succ[hn.id] = []
                self.stmt_node[id(h)] = hn.id
                handler_entries.append(hn.id)
                hnodes.append((hn.id, h))
            self._try_stack.append(handler_entries)
            body_ends = self._seq(st.body, preds)
            self._try_stack.pop()
            # the handlers themselves are covered by outer try blocks
            if self._try_stack:
                for hid in handler_entries:
                    for h in self._try_stack[-1]:
                        self.succ[hid].append((h, "exc"))
            if st.orelse:
                body_ends = self._seq(st.orelse, body_ends)
            ends = list(body_ends)
            for hid, h in hnodes:
                ends += self._seq(h.body, [(hid, None)])
            if st.finalbody:
                ends = self._seq(st.finalbody, ends)
            return ends
        if isinstance(st, ast.Return):
            n = self._new("stmt", st, st.value)
            self._connect(preds, n)
            self._edge(n, EXIT)
            return []
        if isinstance(st, ast.Raise):
            n = self._new("stmt", st, st.exc)
            self._connect(preds, n)
            if self._try_stack:
                pass  # edge to handlers already added by _new
            self._edge(n, RAISE)
            return []
        if isinstance(st, ast.Assert):
            n = self._new("stmt", st, st.test)
            self._connect(preds, n)
            if _is_false_const(st.test):
                self._edge(n, RAISE)
                return []
            return [(n, None)]
        if isinstance(st, ast.Break):
            n = self._new("stmt", st)
            self._connect(preds, n)
            if not self._loop_stack:
                raise AnalysisError("break outside loop")
            self._loop_stack[-1]["breaks"].append((n, None))
            return []
        if isinstance(st, ast.Continue):
            n = self._new("stmt", st)
            self._connect(preds, n)
            self._edge(n, self._loop_stack[-1]["head"])
            return []
        if isinstance(st, ast.Match):
            t = self._new("test", st, st.subject)
            self._connect(preds, t)
            out = []
            for c in st.cases:
                out += self._seq(c.body, [(t, None)])
            return out + [(t, None)]
        # simple statement (incl. nested def/class: one node)
        n = self._new("stmt", st, st if not isinstance(st, (ast.FunctionDef, ast.ClassDef, ast.AsyncFunctionDef)) else None)
        self._connect(preds, n)
        if isinstance(st, ast.Expr) and isinstance(st.value, ast.Call):
            f = st.value.func
            nm = f.attr if isinstance(f, ast.Attribute) else getattr(f, "id", None)
            if nm in ("exit", "_exit") :
                self._edge(n, RAISE)
                return []
        return [(n, None)]

    def _finish(self):
        self.pred = {i: [] for i in self.succ}
        for a, outs in self.succ.items():
            seen = set()
            uniq = []
            for b, lab in outs:
                if (b, lab) in seen:
                    continue
                seen.add((b, lab))
                uniq.append((b, lab))
            self.succ[a] = uniq
            for b, lab in uniq:
                self.pred[b].append(a)
        self._dom = None
        self._pdom = None
        self.reachable = self._reach_from(ENTRY)

    # ---- basic queries
    def _reach_from(self, start, blocked=()):
        seen = set()
        todo = [start]
        blocked = set(blocked)
        while todo:
            n = todo.pop()
            if n in seen:
                continue
            seen.add(n)
            for b, _ in self.succ[n]:
                if b not in blocked and b not in seen:
                    todo.append(b)
        return seen

    def node_of(self, astnode, mod=None):
        """CFG node id containing the given AST node (a statement, or any
        expression inside one; for expressions inside an If/While test or For
        iter the test/iter node)."""
        if id(astnode) in self.stmt_node:
            return self.stmt_node[id(astnode)]
        # search: which node's stmt/expr contains it
        best = None
        for n in self.nodes[3:]:
            root = None
            if n.kind in ("test", "iter"):
                root = n.expr
                extra = [n.stmt.target] if n.kind == "iter" else []
            elif n.kind == "with":
                root = None
                extra = [it.context_expr for it in n.stmt.items] + [it.optional_vars for it in n.stmt.items if it.optional_vars]
            elif n.kind == "except":
                root = n.expr
                extra = []
            else:
                root = n.stmt
                extra = []
                if isinstance(root, (ast.FunctionDef, ast.ClassDef, ast.AsyncFunctionDef)):
                    continue
            for r in [root] + extra:
                if r is None:
                    continue
                for sub in ast.walk(r):
                    if sub is astnode:
                        best = n.id
                        break
                if best is not None:
                    break
            if best is not None:
                break
        if best is None:
            raise AnalysisError(f"AST node at line {getattr(astnode, 'lineno', '?')} not in CFG of {getattr(self.func, 'name', '?')}")
        return best

    def _compute_dom(self, succ, pred, root):
        nodes = [n for n in self._reach_generic(succ, root)]
        allset = set(nodes)
        dom = {n: set(allset) for n in nodes}
        dom[root] = {root}
        changed = True
        order = nodes
        while changed:
            changed = False
            for n in order:
                if n == root:
                    continue
                ps = [p for p in pred[n] if p in allset]
                if not ps:
                    new = {n}
                else:
                    new = set.intersection(*(dom[p] for p in ps)) | {n}
                if new != dom[n]:
                    dom[n] = new
                    changed = True
        return dom

    def _reach_generic(self, succ, root):
        seen = []
        s = set()
        todo = [root]
        while todo:
            n = todo.pop()
            if n in s:
                continue
            s.add(n)
            seen.append(n)
            for b in succ[n]:
                if b not in s:
                    todo.append(b)
        return seen

    def dominators(self):
        if self._dom is None:
            succ = {a: [b for b, _ in outs] for a, outs in self.succ.items()}
            self._dom = self._compute_dom(succ, self.pred, ENTRY)
        return self._dom

    def postdominators(self):
        """Post-dominators with respect to the normal EXIT only."""
        if self._pdom is None:
            succ = {a: [b for b, _ in outs] for a, outs in self.succ.items()}
            self._pdom = self._compute_dom(self.pred, succ, EXIT)
        return self._pdom

    def dominates(self, a, b):
        """Every path ENTRY -> b goes through a."""
        d = self.dominators()
        if b not in d:
            return True  # b unreachable
        return a in d[b]

    def postdominates(self, a, b):
        """Every path b -> normal EXIT goes through a (vacuous if b cannot
        reach EXIT)."""
        d = self.postdominators()
        if b not in d:
            return True
        return a in d[b]

    def path_avoiding(self, src, dst, avoid):
        """Is there a path src -> dst (length >= 1) that touches none of `avoid`
        strictly between?"""
        avoid = set(avoid) - {src, dst}
        seen = set()
        todo = [b for b, _ in self.succ[src]]
        while todo:
            n = todo.pop()
            if n == dst:
                return True
            if n in seen or n in avoid:
                continue
            seen.add(n)
            todo.extend(b for b, _ in self.succ[n])
        return False

    def reaches(self, src, dst):
        return self.path_avoiding(src, dst, ())

    def branch_succ(self, test_node, label):
        return [b for b, lab in self.succ[test_node] if lab == label]

    def nodes_where(self, pred):
        out = []
        for n in self.nodes[3:]:
            try:
                if pred(n):
                    out.append(n.id)
            except Exception:
                pass
        return out

    def nodes_with_call(self, name):
        from .astutil import calls_in

        out = []
        for n in self.nodes[3:]:
            roots = []
            if n.kind in ("test", "iter", "except"):
                roots = [n.expr]
            elif n.kind == "with":
                roots = [it.context_expr for it in n.stmt.items]
            elif n.kind == "stmt" and not isinstance(n.stmt, (ast.FunctionDef, ast.ClassDef, ast.AsyncFunctionDef)):
                roots = [n.stmt]
            for r in roots:
                if r is not None and calls_in(r, name):
                    out.append(n.id)
                    break
        return out

    # ---- loop helpers
    def loop_body_nodes(self, loop_stmt):
        """Node ids belonging to the body of a For/While statement."""
        from .astutil import stmts_in

        out = set()
        for st in stmts_in(loop_stmt.body):
            if id(st) in self.stmt_node:
                out.add(self.stmt_node[id(st)])
        return out

    # ---- reaching definitions
    def reaching_defs(self):
        """node id -> {name: set(def node ids)} at node entry. Definitions:
        Assign/AugAssign/AnnAssign targets that are plain names (also inside
        tuple targets), for-loop targets, with-as, except-as, import, nested
        def/class, function parameters (def node = ENTRY)."""
        defs_at = {}
        for n in self.nodes:
            defs_at[n.id] = self._defs_of(n)
        IN = {n.id: {} for n in self.nodes}
        OUT = {n.id: {} for n in self.nodes}
        work = list(self.succ)
        while work:
            n = work.pop(0)
            merged = {}
            for p in self.pred[n]:
                for k, v in OUT[p].items():
                    merged.setdefault(k, set()).update(v)
            IN[n] = merged
            new = {k: set(v) for k, v in merged.items()}
            for name in defs_at[n]:
                new[name] = {n}
            if new != OUT[n]:
                OUT[n] = new
                for b, _ in self.succ[n]:
                    if b not in work:
                        work.append(b)
        return IN

    def _defs_of(self, n):
        names = set()
        if n.kind == "entry":
            f = self.func
            if isinstance(f, (ast.FunctionDef, ast.AsyncFunctionDef)):
                a = f.args
                for arg in a.posonlyargs + a.args + a.kwonlyargs:
                    names.add(arg.arg)
                if a.vararg:
                    names.add(a.vararg.arg)
                if a.kwarg:
                    names.add(a.kwarg.arg)
            return names
        st = n.stmt
        if n.kind == "iter":
            for x in ast.walk(st.target):
                if isinstance(x, ast.Name):
                    names.add(x.id)
        elif n.kind == "with":
            for it in st.items:
                if it.optional_vars is not None:
                    for x in ast.walk(it.optional_vars):
                        if isinstance(x, ast.Name):
                            names.add(x.id)
        elif n.kind == "except":
            if st.name:
                names.add(st.name)
        elif n.kind == "stmt":
            if isinstance(st, (ast.Assign, ast.AugAssign, ast.AnnAssign)):
                tgts = st.targets if isinstance(st, ast.Assign) else [st.target]
                for t in tgts:
                    for x in ast.walk(t):
                        if isinstance(x, ast.Name) and isinstance(x.ctx, ast.Store):
                            names.add(x.id)
            elif isinstance(st, (ast.FunctionDef, ast.ClassDef, ast.AsyncFunctionDef)):
                names.add(st.name)
            elif isinstance(st, (ast.Import, ast.ImportFrom)):
                for a in st.names:
                    names.add((a.asname or a.name).split(".")[0])
        # walrus
        root = n.expr if n.kind in ("test", "iter") else (st if n.kind == "stmt" else None)
        if root is not None and not isinstance(root, (ast.FunctionDef, ast.ClassDef, ast.AsyncFunctionDef)):
            for x in ast.walk(root):
                if isinstance(x, ast.NamedExpr):
                    names.add(x.target.id)
        return names


_cache = {}


def cfg_of(func):
    k = id(func)
    if k not in _cache:
        _cache[k] = (func, CFG(func))
    return _cache[k][1]

"""C front end: clang's JSON AST of one translation unit, built with the flags
the extension is shipped with (CPython's CFLAGS contain -DNDEBUG). Nothing is
compiled or run; clang only parses (-fsyntax-only)."""
import json
import os
import re
import shutil
import subprocess
import sysconfig

from .core import AnalysisError


def shipped_defines(repo):
    """Macro definitions of the shipped build: setup.py define_macros plus NDEBUG unless setup.py undefines it."""
    sp = repo.read_text("setup.py")
    defs = ["-DNPY_NO_DEPRECATED_API=NPY_1_9_API_VERSION"] if "NPY_NO_DEPRECATED_API" in sp else []
    undef = re.search(r"undef_macros\s*=\s*\[[^\]]*NDEBUG", sp) is not None
    ndebug = not undef
    if ndebug:
        defs.append("-DNDEBUG")
    return defs, ndebug


def include_flags():
    flags = []
    for py in ("/venv/bin/python",):
        if os.path.exists(py):
            try:
                out = subprocess.run([py, "-c", "import sysconfig,numpy;print(sysconfig.get_paths()['include']);print(numpy.get_include())"], capture_output=True, text=True, timeout=30)
                for ln in out.stdout.split():
                    if os.path.isdir(ln):
                        flags.append("-I" + ln)
            except Exception:
                pass
    if not flags:
        inc = sysconfig.get_paths().get("include")
        if inc and os.path.isdir(inc):
            flags.append("-I" + inc)
    return flags


class CUnit:
    def __init__(self, repo, rel, need_python=False):
        self.rel = rel
        self.path = os.path.join(repo.root, rel)
        self.src = repo.read_text(rel)
        clang = shutil.which("clang")
        if not clang:
            raise AnalysisError("clang not found")
        defs, self.ndebug = shipped_defines(repo)
        cmd = [clang, "-fsyntax-only", "-w", "-Xclang", "-ast-dump=json"] + defs + (include_flags() if need_python else []) + [self.path]
        r = subprocess.run(cmd, capture_output=True, text=True, timeout=300)
        if r.returncode != 0 or not r.stdout.startswith("{"):
            raise AnalysisError(f"clang failed on {rel}: {r.stderr[-300:]}")
        self.ast = json.loads(r.stdout)
        self.functions = {}
        cur_file = None
        for d in self.ast.get("inner", []):
            loc = d.get("loc", {})
            f = loc.get("file") or loc.get("spellingLoc", {}).get("file") or loc.get("expansionLoc", {}).get("file")
            if f:
                cur_file = f
            if d.get("kind") == "FunctionDecl" and any(x.get("kind") == "CompoundStmt" for x in d.get("inner", [])):
                if cur_file and os.path.abspath(cur_file) == os.path.abspath(self.path) and "includedFrom" not in loc:
                    self.functions[d["name"]] = d

    # ---- helpers
    @staticmethod
    def walk(node):
        todo = [node]
        while todo:
            n = todo.pop()
            if not isinstance(n, dict):
                continue
            yield n
            todo.extend(reversed(n.get("inner", []) or []))

    @staticmethod
    def _off(loc):
        if "offset" in loc:
            return loc["offset"], loc.get("tokLen", 0)
        for k in ("expansionLoc", "spellingLoc"):
            if k in loc and "offset" in loc[k]:
                return loc[k]["offset"], loc[k].get("tokLen", 0)
        return None, 0

    def text(self, node):
        r = node.get("range", {})
        b, _ = self._off(r.get("begin", {}))
        e, tl = self._off(r.get("end", {}))
        if b is None or e is None:
            return ""
        return " ".join(self.src[b : e + tl].split())

    def offset(self, node):
        b, _ = self._off(node.get("range", {}).get("begin", {}))
        return b if b is not None else -1

    def body(self, fname):
        d = self.functions[fname]
        return next(x for x in d["inner"] if x.get("kind") == "CompoundStmt")

    def func_text(self, fname):
        return self.text(self.functions[fname])

    def calls(self, node):
        """[(callee name, CallExpr node)] under node."""
        out = []
        for n in self.walk(node):
            if n.get("kind") == "CallExpr":
                callee = None
                for x in self.walk(n["inner"][0]):
                    if x.get("kind") == "DeclRefExpr" and x.get("referencedDecl", {}).get("kind") == "FunctionDecl":
                        callee = x["referencedDecl"]["name"]
                        break
                out.append((callee, n))
        return out

    def string_arg(self, call, idx):
        args = call["inner"][1:]
        if idx < len(args):
            for x in self.walk(args[idx]):
                if x.get("kind") == "StringLiteral":
                    return x.get("value", "").strip('"')
        return None

    def arg_text(self, call, idx):
        args = call["inner"][1:]
        return self.text(args[idx]) if idx < len(args) else None


class CEvalError(Exception):
    pass


def c_free_vars(node):
    """Names of the variables / struct members an integer C expression reads (member access p->x is named `x`)."""
    out = set()
    todo = [node]
    while todo:
        n = todo.pop()
        k = n.get("kind")
        if k == "MemberExpr":
            out.add(n.get("name"))
            continue
        if k == "DeclRefExpr":
            out.add(n.get("referencedDecl", {}).get("name"))
            continue
        todo.extend(n.get("inner", []) or [])
    return out


C_SIZEOF = {"char": 1, "unsigned char": 1, "uint8_t": 1, "int8_t": 1, "short": 2, "int16_t": 2, "uint16_t": 2, "int": 4, "unsigned int": 4, "int32_t": 4, "uint32_t": 4,
            "long": 8, "int64_t": 8, "uint64_t": 8, "size_t": 8}


def c_eval(node, env, cu=None, depth=0):
    """Value of a side-effect-free integer C expression from the clang AST under `env` (name -> int). Comparison and
    logical operators give 0 / 1 and && || ?: short-circuit; division truncates. With `cu` (the translation unit) calls of
    functions whose body is a single `return <expr>;` are inlined and sizeof(<scalar type>) is evaluated (LP64).
    Anything else raises CEvalError."""
    k = node.get("kind")
    inner = node.get("inner", []) or []
    if cu is not None:
        sub = lambda n_, e_=env: c_eval(n_, e_, cu, depth)  # noqa: E731
        if k == "UnaryExprOrTypeTraitExpr" and node.get("name") == "sizeof":
            t = (node.get("argType") or {}).get("qualType")
            if t is None and inner:
                t = (inner[0].get("type") or {}).get("qualType")
            if t and t.endswith("*"):
                return 8
            if t in C_SIZEOF:
                return C_SIZEOF[t]
            raise CEvalError(f"sizeof({t})")
        if k == "CallExpr" and depth < 4:
            callee = None
            for x in cu.walk(inner[0]):
                if x.get("kind") == "DeclRefExpr" and x.get("referencedDecl", {}).get("kind") == "FunctionDecl":
                    callee = x["referencedDecl"]["name"]
            fn = cu.functions.get(callee)
            if fn is None and callee in ("abs", "labs", "llabs") and len(inner) == 2:
                # <stdlib.h>: the argument has already been converted to the parameter type by the cast around it; the most negative value
                # has no positive counterpart and is returned unchanged (what every two's complement implementation does)
                a_ = sub(inner[1])
                lo = -(1 << 31) if callee == "abs" else -(1 << 63)
                return a_ if a_ == lo else abs(a_)
            if fn is None:
                raise CEvalError(f"call of {callee}")
            params = [p_.get("name") for p_ in fn.get("inner", []) if p_.get("kind") == "ParmVarDecl"]
            body = [x for x in fn.get("inner", []) if x.get("kind") == "CompoundStmt"]
            if len(body) != 1 or len(body[0].get("inner", [])) != 1 or body[0]["inner"][0].get("kind") != "ReturnStmt" or len(params) != len(inner) - 1:
                raise CEvalError(f"call of {callee}: not a single-return helper")
            args = [sub(a_) for a_ in inner[1:]]
            return c_eval(body[0]["inner"][0]["inner"][0], dict(zip(params, args)), cu, depth + 1)
        if k in ("ImplicitCastExpr", "CStyleCastExpr") and node.get("castKind") == "IntegralCast":
            # conversion to a narrower (or differently signed) integer type wraps (LP64, two's complement)
            v_ = sub(inner[-1])
            t = ((node.get("type") or {}).get("qualType") or "").replace("const ", "")
            if t in C_SIZEOF:
                bits = 8 * C_SIZEOF[t]
                v_ &= (1 << bits) - 1
                if not (t.startswith("unsigned") or t.startswith("uint") or t == "size_t") and v_ >= 1 << (bits - 1):
                    v_ -= 1 << bits
            return v_
        if k in ("ImplicitCastExpr", "ParenExpr", "CStyleCastExpr", "ConstantExpr"):
            return sub(inner[-1])
        if k == "ConditionalOperator":
            return sub(inner[1]) if sub(inner[0]) else sub(inner[2])
        if k == "UnaryOperator":
            return c_eval({**node, "inner": [{"kind": "IntegerLiteral", "value": str(sub(inner[0]))}]}, env)
        if k == "BinaryOperator" and node.get("opcode") not in ("&&", "||"):
            lit = lambda v_: {"kind": "IntegerLiteral", "value": str(v_)}  # noqa: E731
            return c_eval({**node, "inner": [lit(sub(inner[0])), lit(sub(inner[1]))]}, env)
        if k == "BinaryOperator":
            a_ = sub(inner[0])
            if node.get("opcode") == "&&":
                return 1 if (a_ and sub(inner[1])) else 0
            return 1 if (a_ or sub(inner[1])) else 0
    if k in ("ImplicitCastExpr", "ParenExpr", "CStyleCastExpr", "ConstantExpr"):
        return c_eval(inner[-1], env)
    if k == "IntegerLiteral":
        return int(node["value"])
    if k == "ArraySubscriptExpr":
        base = _c_array(inner[0], env)
        idx = c_eval(inner[1], env, cu, depth)
        if not isinstance(base, list) or not isinstance(idx, int) or not 0 <= idx < len(base):
            raise CEvalError(f"subscript {idx} of {'array of ' + str(len(base)) if isinstance(base, list) else 'non-array'}")
        return base[idx]
    if k == "DeclRefExpr":
        nm = node.get("referencedDecl", {}).get("name")
        if nm not in env:
            raise CEvalError(f"unbound {nm}")
        return env[nm]
    if k == "MemberExpr":
        nm = node.get("name")
        if nm not in env:
            raise CEvalError(f"unbound {nm}")
        return env[nm]
    if k == "ConditionalOperator":
        return c_eval(inner[1], env) if c_eval(inner[0], env) else c_eval(inner[2], env)
    if k == "UnaryOperator":
        v = c_eval(inner[0], env)
        op = node.get("opcode")
        if op == "!":
            return 0 if v else 1
        if op == "-":
            return -v
        if op == "+":
            return v
        if op == "~":
            return ~v
        raise CEvalError(f"unary {op}")
    if k == "BinaryOperator":
        op = node.get("opcode")
        if op == "&&":
            return 1 if (c_eval(inner[0], env) and c_eval(inner[1], env)) else 0
        if op == "||":
            return 1 if (c_eval(inner[0], env) or c_eval(inner[1], env)) else 0
        a, b = c_eval(inner[0], env), c_eval(inner[1], env)
        if op in ("<", "<=", ">", ">=", "==", "!="):
            return 1 if {"<": a < b, "<=": a <= b, ">": a > b, ">=": a >= b, "==": a == b, "!=": a != b}[op] else 0
        if op == "+":
            return a + b
        if op == "-":
            return a - b
        if op == "*":
            return a * b
        if op in ("/", "%"):
            if b == 0:
                raise CEvalError("division by zero")
            q = abs(a) // abs(b)
            q = q if (a >= 0) == (b >= 0) else -q
            return q if op == "/" else a - q * b
        if op == "<<":
            return a << b
        if op == ">>":
            return a >> b
        if op == "&":
            return a & b
        if op == "|":
            return a | b
        if op == "^":
            return a ^ b
        raise CEvalError(f"binary {op}")
    raise CEvalError(f"node kind {k}")


def _c_array(node, env):
    """the Python list bound to the array expression `name` / `p->name` (casts and parentheses removed)"""
    while node.get("kind") in ("ImplicitCastExpr", "ParenExpr", "CStyleCastExpr"):
        node = node["inner"][-1]
    if node.get("kind") == "DeclRefExpr":
        return env.get(node.get("referencedDecl", {}).get("name"))
    if node.get("kind") == "MemberExpr":
        return env.get(node.get("name"))
    return None


class _CBreak(Exception):
    pass


class _CContinue(Exception):
    pass


def c_exec(stmt, env, cu):
    """Executes a side-effect-simple statement (compound statement, if / else, assignments `name = expr` / `name op= expr` to plain variables)
    on `env` (name -> int) in place. Anything else raises CEvalError."""
    k = stmt.get("kind")
    inner = stmt.get("inner", []) or []
    if k == "CompoundStmt":
        for s_ in inner:
            c_exec(s_, env, cu)
        return env
    if k == "IfStmt":
        if c_eval(inner[0], env, cu):
            c_exec(inner[1], env, cu)
        elif len(inner) > 2:
            c_exec(inner[2], env, cu)
        return env
    if k == "BinaryOperator" and stmt.get("opcode") == "=" and inner[0].get("kind") == "DeclRefExpr":
        env[inner[0]["referencedDecl"]["name"]] = c_eval(inner[1], env, cu)
        return env
    if k == "NullStmt":
        return env
    if k == "DeclStmt":
        for d in inner:
            if d.get("kind") != "VarDecl":
                raise CEvalError(f"declaration {d.get('kind')}")
            init = [x for x in d.get("inner", []) or [] if x.get("kind") not in ("FullComment",)]
            qt = (d.get("type") or {}).get("qualType", "")
            import re as _re

            m_ = _re.search(r"\[(\d+)\]$", qt)
            if m_ and not init:
                env[d["name"]] = [0] * int(m_.group(1))
            else:
                env[d["name"]] = c_eval(init[0], env, cu) if init else 0
        return env
    if k == "ForStmt":
        init, _condvar, cond, inc, body = (inner + [None] * 5)[:5]
        if init and init.get("kind"):
            c_exec(init, env, cu)
        steps = 0
        while not (cond and cond.get("kind")) or c_eval(cond, env, cu):
            steps += 1
            if steps > 100000:
                raise CEvalError("loop does not terminate within 100000 steps")
            try:
                c_exec(body, env, cu)
            except _CBreak:
                break
            except _CContinue:
                pass
            if inc and inc.get("kind"):
                c_exec(inc, env, cu)
        return env
    if k in ("ParenExpr", "CStyleCastExpr") and not any(x.get("kind") in ("CallExpr", "CompoundAssignOperator") or (x.get("kind") in ("BinaryOperator", "UnaryOperator") and x.get("opcode") in ("=", "++", "--"))
                                                        for x in cu.walk(stmt)):
        return env  # an expression statement without side effects: `((void)0)` of a compiled-out assert
    if k == "BreakStmt":
        raise _CBreak()
    if k == "ContinueStmt":
        raise _CContinue()
    if k == "UnaryOperator" and stmt.get("opcode") in ("++", "--") and inner[0].get("kind") == "DeclRefExpr":
        nm = inner[0]["referencedDecl"]["name"]
        env[nm] = env[nm] + (1 if stmt["opcode"] == "++" else -1)
        return env
    if k == "BinaryOperator" and stmt.get("opcode") == "=":
        tgt = inner[0]
        while tgt.get("kind") in ("ParenExpr",):
            tgt = tgt["inner"][-1]
        if tgt.get("kind") == "MemberExpr":
            env[tgt["name"]] = c_eval(inner[1], env, cu)
            return env
        if tgt.get("kind") == "ArraySubscriptExpr":
            base = _c_array(tgt["inner"][0], env)
            idx = c_eval(tgt["inner"][1], env, cu)
            if not isinstance(base, list) or not 0 <= idx < len(base):
                raise CEvalError(f"store to subscript {idx} of {'array of ' + str(len(base)) if isinstance(base, list) else 'non-array'}")
            base[idx] = c_eval(inner[1], env, cu)
            return env
    if k == "CompoundAssignOperator":
        op_ = (stmt.get("opcode") or "").rstrip("=")
        py = {"+": lambda a, b: a + b, "-": lambda a, b: a - b, "*": lambda a, b: a * b, "|": lambda a, b: a | b, "&": lambda a, b: a & b, "^": lambda a, b: a ^ b,
              "<<": lambda a, b: a << b, ">>": lambda a, b: a >> b}.get(op_)
        if py is None:
            raise CEvalError(f"compound assignment {stmt.get('opcode')}")
        tgt = inner[0]
        while tgt.get("kind") in ("ParenExpr",):
            tgt = tgt["inner"][-1]
        rhs = c_eval(inner[1], env, cu)
        if tgt.get("kind") == "DeclRefExpr":
            nm = tgt["referencedDecl"]["name"]
            env[nm] = py(env[nm], rhs)
            return env
        if tgt.get("kind") == "MemberExpr":
            env[tgt["name"]] = py(env[tgt["name"]], rhs)
            return env
        if tgt.get("kind") == "ArraySubscriptExpr":
            base = _c_array(tgt["inner"][0], env)
            idx = c_eval(tgt["inner"][1], env, cu)
            if not isinstance(base, list) or not 0 <= idx < len(base):
                raise CEvalError(f"compound store to subscript {idx}")
            base[idx] = py(base[idx], rhs)
            return env
        raise CEvalError("compound assignment target")
    if k == "WhileStmt":
        cond, body = inner[-2], inner[-1]
        steps = 0
        while c_eval(cond, env, cu):
            steps += 1
            if steps > 100000:
                raise CEvalError("loop does not terminate within 100000 steps")
            try:
                c_exec(body, env, cu)
            except _CBreak:
                break
            except _CContinue:
                pass
        return env
    if k == "CallExpr":
        callee = [x.get("referencedDecl", {}).get("name") for x in cu.walk(inner[0]) if x.get("kind") == "DeclRefExpr"]
        if callee and callee[0] == "qsort" and len(inner) == 5:
            # qsort(base, n, size, cmp): the comparator is one of this unit's functions of the shape `T aa = *(T*)a; T bb = *(T*)b; return <expr>;`
            # - its return expression is evaluated on the two element values
            import functools as _ft

            base = _c_array(inner[1], env)
            n_ = c_eval(inner[2], env, cu)
            cmp_name = [x["referencedDecl"]["name"] for x in cu.walk(inner[4]) if x.get("kind") == "DeclRefExpr" and x.get("referencedDecl", {}).get("kind") == "FunctionDecl"]
            fn = cu.functions.get(cmp_name[0]) if cmp_name else None
            if not isinstance(base, list) or fn is None or n_ != len(base):
                raise CEvalError("qsort: array / comparator not resolvable")
            cbody = [x for x in fn.get("inner", []) if x.get("kind") == "CompoundStmt"][0]
            locs = [d_["name"] for s_ in cbody.get("inner", []) if s_.get("kind") == "DeclStmt" for d_ in s_.get("inner", []) if d_.get("kind") == "VarDecl"]
            rets = [s_ for s_ in cbody.get("inner", []) if s_.get("kind") == "ReturnStmt"]
            if len(locs) != 2 or len(rets) != 1:
                raise CEvalError("qsort: comparator shape not recognised")
            base.sort(key=_ft.cmp_to_key(lambda x_, y_: c_eval(rets[0]["inner"][0], {locs[0]: x_, locs[1]: y_}, cu)))
            return env
        if callee and callee[0] == "memset" and len(inner) == 4:
            base = _c_array(inner[1], env)
            if isinstance(base, list):
                v = c_eval(inner[2], env, cu)
                base[:] = [v] * len(base) if v == 0 else base
                if v != 0:
                    raise CEvalError("memset with a non-zero value")
                return env
        raise CEvalError(f"call statement {callee}")
    raise CEvalError(f"statement {k}")

"""Source index for the Vela tree: parses every module once (ast only, nothing
is imported or executed), exposes functions / classes / module-level
assignments by qualified name and resolves intra-package imports."""
import ast
import hashlib
import json
import os

REPO = os.environ.get("VELA_REPO", "/repo")
PKG = "ethosu/vela"


class AnalysisError(Exception):
    """An anchor vanished or an idiom is not recognised: exit 2, never a pass,
    never a violation."""


BASELINE_NAMES = os.path.join(os.path.dirname(os.path.abspath(__file__)), "baseline_names.json")
_baseline_cache = None


def _baseline():
    global _baseline_cache
    if _baseline_cache is None:
        try:
            with open(BASELINE_NAMES) as f:
                _baseline_cache = json.load(f)
        except (OSError, ValueError):
            _baseline_cache = {}
    return _baseline_cache


def _own_locals(fn):
    """Names bound in the scope of `fn` itself (parameters, assigned / bound names, names of directly nested
    functions and classes), not those of nested function / lambda scopes. global / nonlocal names are excluded."""
    local, declared = set(), set()
    a = fn.args
    for x in a.posonlyargs + a.args + a.kwonlyargs + ([a.vararg] if a.vararg else []) + ([a.kwarg] if a.kwarg else []):
        local.add(x.arg)

    def scan(n):
        for ch in ast.iter_child_nodes(n):
            if isinstance(ch, (ast.FunctionDef, ast.AsyncFunctionDef, ast.ClassDef)):
                local.add(ch.name)
                for d in ch.decorator_list:
                    scan(d)
                continue
            if isinstance(ch, ast.Lambda):
                continue
            if isinstance(ch, (ast.Global, ast.Nonlocal)):
                declared.update(ch.names)
            elif isinstance(ch, ast.Name) and isinstance(ch.ctx, (ast.Store, ast.Del)):
                local.add(ch.id)
            elif isinstance(ch, ast.ExceptHandler) and ch.name:
                local.add(ch.name)
            scan(ch)

    if isinstance(fn, ast.Lambda):
        scan(fn.body) if False else None
        for ch in ast.walk(fn.body):
            if isinstance(ch, ast.NamedExpr) and isinstance(ch.target, ast.Name):
                pass
    else:
        for st in fn.body:
            if isinstance(st, (ast.FunctionDef, ast.AsyncFunctionDef, ast.ClassDef)):
                local.add(st.name)
                continue
            if isinstance(st, (ast.Global, ast.Nonlocal)):
                declared.update(st.names)
            scan_root = ast.Module(body=[st], type_ignores=[])
            scan(scan_root)
    local -= declared
    local.discard("self")
    local.discard("cls")
    return local


def function_shape(fn):
    """(shape digest, spellings, refs, orientation flags, commutative nodes) of an outermost function: the AST with every function-local name replaced by a
    positional placeholder, scope by scope (a nested function or lambda has its own locals; its free variables resolve
    to the enclosing function's placeholders). Two functions with equal digests differ only in how locals are spelled.
    spellings[i] is the current spelling of placeholder i, refs[i] the (node, field) pairs that carry it."""
    spellings, refs, parts = [], [], []
    flags, comm = [], []  # orientation of every commutative node (source order vs canonical order), in canonical traversal order
    skeys = {}

    def skey(n):
        """Name-free structural key of a subtree (used only to order the operands of commutative nodes canonically)."""
        i = id(n)
        if i not in skeys:
            if isinstance(n, ast.Name):
                k = "$"
            elif isinstance(n, ast.AST):
                k = type(n).__name__ + "(" + ",".join(f_ + "=" + skey(v) for f_, v in ast.iter_fields(n) if f_ not in ("lineno", "col_offset", "end_lineno", "end_col_offset", "type_comment", "ctx")) + ")"
            elif isinstance(n, list):
                k = "[" + ",".join(skey(x) for x in n) + "]"
            else:
                k = repr(n)
            skeys[i] = k
        return skeys[i]

    def peek(name, scopes):
        for sc in reversed(scopes):
            if name in sc:
                return sc[name]
        return "g"

    def pkey(n, scopes):
        """Like skey, with local names that are already numbered replaced by their placeholder (ties between operands that
        differ only in which already-seen locals they mention are then ordered canonically as well)."""
        if isinstance(n, ast.Name):
            k = peek(n.id, scopes)
            return "$?" if k is None else (n.id if k == "g" else f"${k:04d}")
        if isinstance(n, ast.AST):
            return type(n).__name__ + "(" + ",".join(pkey(v, scopes) for f_, v in ast.iter_fields(n) if f_ not in ("lineno", "col_offset", "end_lineno", "end_col_offset", "type_comment", "ctx")) + ")"
        if isinstance(n, list):
            return "[" + ",".join(pkey(x, scopes) for x in n) + "]"
        return repr(n)

    def before(b, a, scopes):
        """Should operand b be emitted before operand a in the canonical order?"""
        kb, ka = skey(b), skey(a)
        if kb != ka:
            return kb < ka
        pb, pa = pkey(b, scopes), pkey(a, scopes)
        if "$?" in pb or "$?" in pa:
            return False
        return pb < pa

    SEQ = ("List(", "Tuple(", "JoinedStr(", "ListComp(", "attr='inputs'", "attr='outputs'", "attr='intermediates'", "attr='ranges'", "attr='ops'", "attr='passes'")

    def commutative(n):
        if isinstance(n, ast.BinOp) and isinstance(n.op, (ast.Add, ast.Mult, ast.BitAnd, ast.BitOr, ast.BitXor)):
            if isinstance(n.op, ast.Add):
                for side in (n.left, n.right):
                    k = skey(side)
                    if any(t in k for t in SEQ) or (isinstance(side, ast.Constant) and isinstance(side.value, (str, bytes))):
                        return None
            return "bin"
        if isinstance(n, ast.Compare) and len(n.ops) == 1:
            if isinstance(n.ops[0], (ast.Eq, ast.NotEq)):
                return "eq"
            if isinstance(n.ops[0], (ast.Lt, ast.LtE, ast.Gt, ast.GtE)):
                return "ord"
        return None

    def new_ph(name):
        spellings.append(name)
        refs.append([])
        return len(spellings) - 1

    def resolve(name, scopes):
        for sc in reversed(scopes):
            if name in sc:
                if sc[name] is None:
                    sc[name] = new_ph(name)
                return sc[name]
        return None

    def dump(n, scopes):
        if isinstance(n, (ast.FunctionDef, ast.AsyncFunctionDef, ast.Lambda)):
            if n is not fn and not isinstance(n, ast.Lambda):
                k = resolve(n.name, scopes)
                if k is not None:
                    refs[k].append((n, "name"))
                parts.append(f"F({'$' + str(k) if k is not None else n.name})")
                for d in n.decorator_list:
                    dump(d, scopes)
            else:
                parts.append(type(n).__name__)
            inner = scopes + [dict.fromkeys(_own_locals(n))]
            a = n.args
            # defaults and annotations are evaluated in the enclosing scope
            for d in list(a.defaults) + [x for x in a.kw_defaults if x is not None]:
                dump(d, scopes)
            for x in a.posonlyargs + a.args + a.kwonlyargs + ([a.vararg] if a.vararg else []) + ([a.kwarg] if a.kwarg else []):
                k = resolve(x.arg, inner)
                if k is not None:
                    refs[k].append((x, "arg"))
                parts.append(f"A({'$' + str(k) if k is not None else x.arg})")
                if x.annotation is not None:
                    dump(x.annotation, scopes)
            parts.append(f"|{len(a.posonlyargs)},{len(a.args)},{len(a.kwonlyargs)},{bool(a.vararg)},{bool(a.kwarg)}|")
            if isinstance(n, ast.Lambda):
                dump(n.body, inner)
            else:
                if n.returns is not None:
                    dump(n.returns, scopes)
                for st in n.body:
                    dump(st, inner)
            parts.append(")")
            return
        if isinstance(n, ast.AST):
            if isinstance(n, ast.Name):
                k = resolve(n.id, scopes)
                if k is not None:
                    refs[k].append((n, "id"))
                    parts.append(f"N(${k},{type(n.ctx).__name__})")
                    return
            if isinstance(n, (ast.ListComp, ast.SetComp, ast.GeneratorExp, ast.DictComp)):
                # bind the comprehension variables before the element expression is looked at
                parts.append(type(n).__name__ + "(")
                dump(n.generators, scopes)
                if isinstance(n, ast.DictComp):
                    dump(n.key, scopes)
                    dump(n.value, scopes)
                else:
                    dump(n.elt, scopes)
                parts.append(")")
                return
            kind = commutative(n)
            if kind == "bin":
                a, b = n.left, n.right
                fl = 1 if before(b, a, scopes) else 0
                flags.append(fl)
                comm.append(n)
                parts.append(f"BinOp({type(n.op).__name__},")
                dump(b if fl else a, scopes)
                parts.append(",")
                dump(a if fl else b, scopes)
                parts.append(")")
                return
            if kind in ("eq", "ord"):
                a, b = n.left, n.comparators[0]
                op = type(n.ops[0]).__name__
                if kind == "eq":
                    fl = 1 if before(b, a, scopes) else 0
                else:
                    fl = 1 if op in ("Gt", "GtE") else 0
                    op = {"Gt": "Lt", "GtE": "LtE"}.get(op, op)
                flags.append(fl)
                comm.append(n)
                parts.append(f"Compare({op},")
                dump(b if fl else a, scopes)
                parts.append(",")
                dump(a if fl else b, scopes)
                parts.append(")")
                return
            parts.append(type(n).__name__ + "(")
            for f_, v in ast.iter_fields(n):
                if f_ in ("lineno", "col_offset", "end_lineno", "end_col_offset", "type_comment", "ctx"):
                    continue
                if isinstance(n, ast.ExceptHandler) and f_ == "name" and v:
                    k = resolve(v, scopes)
                    if k is not None:
                        refs[k].append((n, "name"))
                        parts.append(f"E(${k})")
                        continue
                parts.append(f_ + "=")
                dump(v, scopes)
            parts.append(")")
        elif isinstance(n, list):
            parts.append("[")
            for x in n:
                dump(x, scopes)
                parts.append(",")
            parts.append("]")
        else:
            parts.append(repr(n))

    dump(fn, [])
    return hashlib.sha256("".join(parts).encode()).hexdigest()[:20], spellings, refs, "".join(map(str, flags)), comm


def outer_functions(tree):
    """(qualified name, node) of every function that is not nested inside another function."""
    out = []

    def visit(body, prefix):
        for st in body:
            if isinstance(st, (ast.FunctionDef, ast.AsyncFunctionDef)):
                out.append((prefix + st.name, st))
            elif isinstance(st, ast.ClassDef):
                visit(st.body, prefix + st.name + ".")
            elif isinstance(st, (ast.If, ast.Try, ast.With, ast.For, ast.While)):
                for fld in ("body", "orelse", "finalbody"):
                    visit(getattr(st, fld, []) or [], prefix)
                for h in getattr(st, "handlers", []) or []:
                    visit(h.body, prefix)

    visit(tree.body, "")
    return out


def align_local_names(modname, tree):
    """Undo pure renamings of function-local names and pure re-orientations of commutative operators / comparisons
    (`a + b` / `b + a`, `x == y` / `y == x`, `a < b` / `b > a`): when a function has exactly the shape recorded for it
    in baseline_names.json (generated from the tree the rules were confirmed on; the shape is insensitive to both) but is
    spelled / oriented differently, it is brought back to the recorded form before any rule looks at it. `+` on operands
    that look like sequences is not treated as commutative. A function whose shape differs from the baseline is left as
    it is. Returns the number of functions re-formed."""
    base = _baseline().get(modname)
    if not base:
        return 0
    n = 0
    for q, fn in outer_functions(tree):
        b = base.get(q)
        if not b:
            continue
        digest, names, refs, flags, comm = function_shape(fn)
        if digest != b["shape"] or len(names) != len(b["names"]) or len(flags) != len(b.get("flags", flags)):
            continue
        if names == b["names"] and flags == b.get("flags", flags):
            continue
        for cur, old, rf in zip(names, b["names"], refs):
            if cur != old:
                for node, field in rf:
                    setattr(node, field, old)
        for cur, old, node in zip(flags, b.get("flags", flags), comm):
            if cur != old:
                _swap_operands(node)
        n += 1
    return n


_FLIP = {ast.Lt: ast.Gt, ast.Gt: ast.Lt, ast.LtE: ast.GtE, ast.GtE: ast.LtE}


def _swap_operands(node):
    if isinstance(node, ast.BinOp):
        node.left, node.right = node.right, node.left
    elif isinstance(node, ast.Compare):
        node.left, node.comparators[0] = node.comparators[0], node.left
        t = type(node.ops[0])
        if t in _FLIP:
            node.ops[0] = _FLIP[t]()


class _Aug(ast.NodeTransformer):
    """`x = x op e` (target repeated as the left operand) is read as `x op= e`: the rules were written against the
    augmented form the code base uses throughout, and the two spellings do not differ for any analysed quantity."""

    def visit_Assign(self, node):
        self.generic_visit(node)
        # plain names only: for an attribute / subscript target the two forms differ when the object is a shared array
        # (`t.zero_point *= 0` edits the array every alias sees, `t.zero_point = t.zero_point * 0` binds a new one)
        if len(node.targets) == 1 and isinstance(node.value, ast.BinOp) and isinstance(node.targets[0], ast.Name) \
                and isinstance(node.value.op, (ast.Add, ast.Sub, ast.Mult, ast.FloorDiv, ast.BitOr, ast.BitAnd, ast.LShift, ast.RShift)):
            t = node.targets[0]
            if ast.dump(t).replace("Store()", "Load()") == ast.dump(node.value.left):
                return ast.copy_location(ast.AugAssign(target=t, op=node.value.op, value=node.value.right), node)
        return node


def _augment(tree):
    _Aug().visit(tree)
    ast.fix_missing_locations(tree)


class Module:
    def __init__(self, name, path):
        self.name = name
        self.path = path
        self.rel = os.path.relpath(path, REPO)
        with open(path, "rb") as f:
            raw = f.read()
        self.digest = hashlib.sha256(raw).hexdigest()[:16]
        self.src = raw.decode("utf-8")
        self.lines = self.src.splitlines()
        self.tree = ast.parse(self.src, filename=path)
        _augment(self.tree)
        self.respelled = align_local_names(name, self.tree)
        self.functions = {}
        self.classes = {}
        self.assigns = {}
        self.imports = {}
        self.parents = {}
        self._index()

    def _index(self):
        for node in ast.walk(self.tree):
            for ch in ast.iter_child_nodes(node):
                self.parents[ch] = node

        def visit(body, prefix, in_class):
            for st in body:
                if isinstance(st, (ast.FunctionDef, ast.AsyncFunctionDef)):
                    q = prefix + st.name
                    self.functions[q] = st
                    visit(st.body, q + ".", False)
                elif isinstance(st, ast.ClassDef):
                    q = prefix + st.name
                    self.classes[q] = st
                    visit(st.body, q + ".", True)
                elif isinstance(st, (ast.If, ast.Try, ast.With, ast.For, ast.While)):
                    for fld in ("body", "orelse", "finalbody"):
                        visit(getattr(st, fld, []) or [], prefix, in_class)
                    for h in getattr(st, "handlers", []) or []:
                        visit(h.body, prefix, in_class)
                elif isinstance(st, ast.Assign) and prefix == "":
                    for t in st.targets:
                        if isinstance(t, ast.Name):
                            self.assigns[t.id] = st.value
                elif isinstance(st, ast.AnnAssign) and prefix == "" and isinstance(st.target, ast.Name) and st.value:
                    self.assigns[st.target.id] = st.value
                elif isinstance(st, ast.ImportFrom) and prefix == "":
                    for a in st.names:
                        self.imports[a.asname or a.name] = ("from", st.level, st.module, a.name)
                elif isinstance(st, ast.Import) and prefix == "":
                    for a in st.names:
                        self.imports[a.asname or a.name.split(".")[0]] = ("import", 0, a.name, None)

        visit(self.tree.body, "", False)

    def func(self, qual):
        if qual not in self.functions:
            raise AnalysisError(f"anchor vanished: function {self.rel}:{qual}")
        return self.functions[qual]

    def cls(self, qual):
        if qual not in self.classes:
            raise AnalysisError(f"anchor vanished: class {self.rel}:{qual}")
        return self.classes[qual]

    def assign(self, name):
        if name not in self.assigns:
            raise AnalysisError(f"anchor vanished: module-level assignment {self.rel}:{name}")
        return self.assigns[name]

    def class_assigns(self, clsname):
        out = {}
        for st in self.cls(clsname).body:
            if isinstance(st, ast.Assign):
                for t in st.targets:
                    if isinstance(t, ast.Name):
                        out[t.id] = st.value
            elif isinstance(st, ast.AnnAssign) and isinstance(st.target, ast.Name):
                out[st.target.id] = st.value
        return out

    def enclosing_function(self, node):
        n = node
        while n in self.parents:
            n = self.parents[n]
            if isinstance(n, (ast.FunctionDef, ast.AsyncFunctionDef)):
                return n
        return None

    def qualname_of(self, fnode):
        for q, f in self.functions.items():
            if f is fnode:
                return q
        return None

    def seg(self, node):
        return ast.get_source_segment(self.src, node)


class Repo:
    def __init__(self, root=None):
        self.root = root or REPO
        self.modules = {}
        self.files_read = {}
        base = os.path.join(self.root, PKG)
        if not os.path.isdir(base):
            raise AnalysisError(f"package directory missing: {base}")
        for dirpath, dirnames, filenames in os.walk(base):
            dirnames[:] = [d for d in dirnames if d not in ("test", "__pycache__")]
            for fn in sorted(filenames):
                if not fn.endswith(".py"):
                    continue
                p = os.path.join(dirpath, fn)
                rel = os.path.relpath(p, base)[:-3].replace(os.sep, ".")
                try:
                    m = Module(rel, p)
                except SyntaxError as e:
                    raise AnalysisError(f"cannot parse {p}: {e}")
                self.modules[rel] = m
                self.files_read[m.rel] = m.digest

    def mod(self, name):
        if name not in self.modules:
            raise AnalysisError(f"anchor vanished: module {name}")
        return self.modules[name]

    def func(self, mod, qual):
        return self.mod(mod).func(qual)

    def read_text(self, rel):
        p = os.path.join(self.root, rel)
        if not os.path.isfile(p):
            raise AnalysisError(f"anchor vanished: file {rel}")
        with open(p, "rb") as f:
            raw = f.read()
        self.files_read[rel] = hashlib.sha256(raw).hexdigest()[:16]
        return raw.decode("utf-8", "replace")

    def core_modules(self):
        """Top-level modules of ethosu.vela (not the generated schema packages)."""
        return [m for n, m in self.modules.items() if "." not in n]

    def resolve_import(self, mod, local):
        """local name in module -> (module name, attr name | None) if it refers
        to something in the package."""
        imp = mod.imports.get(local)
        if not imp:
            return None
        kind, level, target, name = imp
        if kind == "from" and level >= 1:
            base = mod.name.split(".")[:-1]
            if level > 1:
                base = base[: len(base) - (level - 1)]
            tgt = ".".join(base + ([target] if target else []))
            if target is None:
                # from . import m
                cand = ".".join(base + [name])
                if cand in self.modules:
                    return (cand, None)
                return None
            if tgt in self.modules:
                return (tgt, name)
            cand = tgt + "." + name
            if cand in self.modules:
                return (cand, None)
            if tgt + ".__init__" in self.modules:
                return (tgt + ".__init__", name)
        if kind == "from" and level == 0 and target and target.startswith("ethosu.vela"):
            tgt = target[len("ethosu.vela") :].lstrip(".")
            if tgt in self.modules:
                return (tgt, name)
        return None

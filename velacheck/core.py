"""Source index for the Vela tree: parses every module once (ast only, nothing
is imported or executed), exposes functions / classes / module-level
assignments by qualified name and resolves intra-package imports."""
import ast
import hashlib
import os

REPO = os.environ.get("VELA_REPO", "/repo")
PKG = "ethosu/vela"


class AnalysisError(Exception):
    """An anchor vanished or an idiom is not recognised: exit 2, never a pass,
    never a violation."""


class Module:
    def __init__(self, name, path):
        self.name = name
        self.path = path
        self.rel = os.path.relpath(path, REPO)
        with open(path, "rb") as f:
            raw = f.read()
        self.digest = hashlib.sha256(raw).hexdigest()[:16]
        self.src = raw.decode("utf-8")
        self.lines = self.src.splitlines()
        self.tree = ast.parse(self.src, filename=path)
        self.functions = {}
        self.classes = {}
        self.assigns = {}
        self.imports = {}
        self.parents = {}
        self._index()

    def _index(self):
        for node in ast.walk(self.tree):
            for ch in ast.iter_child_nodes(node):
                self.parents[ch] = node

        def visit(body, prefix, in_class):
            for st in body:
                if isinstance(st, (ast.FunctionDef, ast.AsyncFunctionDef)):
                    q = prefix + st.name
                    self.functions[q] = st
                    visit(st.body, q + ".", False)
                elif isinstance(st, ast.ClassDef):
                    q = prefix + st.name
                    self.classes[q] = st
                    visit(st.body, q + ".", True)
                elif isinstance(st, (ast.If, ast.Try, ast.With, ast.For, ast.While)):
                    for fld in ("body", "orelse", "finalbody"):
                        visit(getattr(st, fld, []) or [], prefix, in_class)
                    for h in getattr(st, "handlers", []) or []:
                        visit(h.body, prefix, in_class)
                elif isinstance(st, ast.Assign) and prefix == "":
                    for t in st.targets:
                        if isinstance(t, ast.Name):
                            self.assigns[t.id] = st.value
                elif isinstance(st, ast.AnnAssign) and prefix == "" and isinstance(st.target, ast.Name) and st.value:
                    self.assigns[st.target.id] = st.value
                elif isinstance(st, ast.ImportFrom) and prefix == "":
                    for a in st.names:
                        self.imports[a.asname or a.name] = ("from", st.level, st.module, a.name)
                elif isinstance(st, ast.Import) and prefix == "":
                    for a in st.names:
                        self.imports[a.asname or a.name.split(".")[0]] = ("import", 0, a.name, None)

        visit(self.tree.body, "", False)

    def func(self, qual):
        if qual not in self.functions:
            raise AnalysisError(f"anchor vanished: function {self.rel}:{qual}")
        return self.functions[qual]

    def cls(self, qual):
        if qual not in self.classes:
            raise AnalysisError(f"anchor vanished: class {self.rel}:{qual}")
        return self.classes[qual]

    def assign(self, name):
        if name not in self.assigns:
            raise AnalysisError(f"anchor vanished: module-level assignment {self.rel}:{name}")
        return self.assigns[name]

    def class_assigns(self, clsname):
        out = {}
        for st in self.cls(clsname).body:
            if isinstance(st, ast.Assign):
                for t in st.targets:
                    if isinstance(t, ast.Name):
                        out[t.id] = st.value
            elif isinstance(st, ast.AnnAssign) and isinstance(st.target, ast.Name):
                out[st.target.id] = st.value
        return out

    def enclosing_function(self, node):
        n = node
        while n in self.parents:
            n = self.parents[n]
            if isinstance(n, (ast.FunctionDef, ast.AsyncFunctionDef)):
                return n
        return None

    def qualname_of(self, fnode):
        for q, f in self.functions.items():
            if f is fnode:
                return q
        return None

    def seg(self, node):
        return ast.get_source_segment(self.src, node)


class Repo:
    def __init__(self, root=None):
        self.root = root or REPO
        self.modules = {}
        self.files_read = {}
        base = os.path.join(self.root, PKG)
        if not os.path.isdir(base):
            raise AnalysisError(f"package directory missing: {base}")
        for dirpath, dirnames, filenames in os.walk(base):
            dirnames[:] = [d for d in dirnames if d not in ("test", "__pycache__")]
            for fn in sorted(filenames):
                if not fn.endswith(".py"):
                    continue
                p = os.path.join(dirpath, fn)
                rel = os.path.relpath(p, base)[:-3].replace(os.sep, ".")
                try:
                    m = Module(rel, p)
                except SyntaxError as e:
                    raise AnalysisError(f"cannot parse {p}: {e}")
                self.modules[rel] = m
                self.files_read[m.rel] = m.digest

    def mod(self, name):
        if name not in self.modules:
            raise AnalysisError(f"anchor vanished: module {name}")
        return self.modules[name]

    def func(self, mod, qual):
        return self.mod(mod).func(qual)

    def read_text(self, rel):
        p = os.path.join(self.root, rel)
        if not os.path.isfile(p):
            raise AnalysisError(f"anchor vanished: file {rel}")
        with open(p, "rb") as f:
            raw = f.read()
        self.files_read[rel] = hashlib.sha256(raw).hexdigest()[:16]
        return raw.decode("utf-8", "replace")

    def core_modules(self):
        """Top-level modules of ethosu.vela (not the generated schema packages)."""
        return [m for n, m in self.modules.items() if "." not in n]

    def resolve_import(self, mod, local):
        """local name in module -> (module name, attr name | None) if it refers
        to something in the package."""
        imp = mod.imports.get(local)
        if not imp:
            return None
        kind, level, target, name = imp
        if kind == "from" and level >= 1:
            base = mod.name.split(".")[:-1]
            if level > 1:
                base = base[: len(base) - (level - 1)]
            tgt = ".".join(base + ([target] if target else []))
            if target is None:
                # from . import m
                cand = ".".join(base + [name])
                if cand in self.modules:
                    return (cand, None)
                return None
            if tgt in self.modules:
                return (tgt, name)
            cand = tgt + "." + name
            if cand in self.modules:
                return (cand, None)
            if tgt + ".__init__" in self.modules:
                return (tgt + ".__init__", name)
        if kind == "from" and level == 0 and target and target.startswith("ethosu.vela"):
            tgt = target[len("ethosu.vela") :].lstrip(".")
            if tgt in self.modules:
                return (tgt, name)
        return None

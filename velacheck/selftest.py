"""python3 -m velacheck selftest : runs the kill table (velacheck/mutants.py) and the confirmed seeded changes
(/verif/seeded/*/patch.diff) against the checks on scratch copies (16 workers). Writes evidence/selftest.json.
Exit 0 iff every variant gives the expected verdict. Never used by a property check."""
import glob
import json
import os
import time
from concurrent.futures import ThreadPoolExecutor

from .mutate import run_variant
from .mutants import MUTANTS
from .patchtest import run_patch

VERIF = os.path.dirname(os.path.dirname(os.path.abspath(__file__)))


def main(args=None):
    t0 = time.time()
    rows = []

    def one(m):
        prop, rel, old, new, want = m
        rc, out = run_variant(prop, rel, old, new)
        first = next((l.strip() for l in (out or "").splitlines() if l.startswith("  rule=") or "ERROR" in l), "")
        return {"kind": "mutant", "property": prop, "file": rel, "old": old[:80], "new": new[:80], "expected": want, "exit": rc, "ok": rc == want, "report": first[:240]}

    def seed(d):
        own = os.path.basename(d).split("-")[0]
        res = run_patch(os.path.join(d, "patch.diff"), [own])
        rc = res.get(own, (None, []))[0] if "_error" not in res else None
        rep = res.get(own, (None, [""]))[1][:1] if "_error" not in res else [res["_error"][:200]]
        want = 1
        try:
            # a confirmed change that no rule reports yet is recorded as open in its meta.json (DESIGN.md 7.2): expected silent, so that
            # the table shows when a later rule starts to report it
            if json.load(open(os.path.join(d, "meta.json"))).get("open_miss"):
                want = 0
        except (OSError, ValueError):
            pass
        return {"kind": "seeded" if want else "seeded-open", "property": own, "seed": os.path.basename(d), "expected": want, "exit": rc, "ok": rc == want, "report": (rep[0] if rep else "")[:240]}

    with ThreadPoolExecutor(max_workers=16) as ex:
        rows += list(ex.map(one, MUTANTS))
        rows += list(ex.map(seed, sorted(d for d in glob.glob(os.path.join(VERIF, "seeded", "C*-*")) if os.path.isdir(d))))
    bad = [r for r in rows if not r["ok"]]
    out = {"variants": len(rows), "as_expected": len(rows) - len(bad), "killed": len([r for r in rows if r["expected"] == 1 and r["exit"] == 1]),
           "silent_on_equivalent": len([r for r in rows if r["expected"] == 0 and r["exit"] == 0]), "wall_s": round(time.time() - t0, 1), "rows": rows}
    with open(os.path.join(VERIF, "evidence", "selftest.json"), "w") as f:
        json.dump(out, f, indent=1)
    print(f"selftest: {out['as_expected']}/{out['variants']} variants as expected ({out['killed']} killed, {out['silent_on_equivalent']} equivalent variants silent), {out['wall_s']}s")
    for r in bad:
        print("  UNEXPECTED:", r["property"], r.get("seed") or (r["file"] + ": " + r["new"][:60]), "exit", r["exit"], "expected", r["expected"], "|", r["report"][:150])
    return 0 if not bad else 1

"""Scratch-copy mutation helper (development / self-test only).

python3 -m velacheck.mutate <PROP> <relpath> <old> <new> [--count N]

Copies the analysed part of /repo to a temporary directory outside /repo and
/verif, replaces `old` by `new` (must occur exactly once unless --count),
checks that the result still compiles, runs the property check against the
copy and removes the copy."""
import os
import shutil
import subprocess
import sys
import tempfile

SRC = os.environ.get("VELA_REPO", "/repo")
KEEP = ("ethosu", "OPTIONS.md", "SUPPORTED_OPS.md", "setup.py", "pyproject.toml", "API.md", "README.md")


def make_copy():
    d = tempfile.mkdtemp(prefix="velamut_")
    for k in KEEP:
        s = os.path.join(SRC, k)
        if os.path.isdir(s):
            shutil.copytree(s, os.path.join(d, k), ignore=shutil.ignore_patterns("__pycache__", "*.so", "*.pyc"))
        elif os.path.exists(s):
            shutil.copy(s, os.path.join(d, k))
    return d


def run_variant(prop, rel, old, new, count=1, tier="quick"):
    d = make_copy()
    try:
        p = os.path.join(d, rel)
        with open(p) as f:
            s = f.read()
        n = s.count(old)
        if n != count:
            return None, f"MUTATE-ERROR: {old!r} occurs {n} times in {rel}, expected {count}"
        with open(p, "w") as f:
            f.write(s.replace(old, new))
        if rel.endswith(".py"):
            try:
                compile(s.replace(old, new), p, "exec")
            except SyntaxError as e:
                return None, f"MUTATE-ERROR: variant does not compile: {e}"
        r = subprocess.run(
            [sys.executable, "-m", "velacheck", prop, "--tier", tier, "--repo", d],
            capture_output=True,
            text=True,
            cwd=os.path.dirname(os.path.dirname(os.path.abspath(__file__))),
            env={**os.environ, "VELACHECK_NO_EVIDENCE": "1"},
        )
        return r.returncode, r.stdout + r.stderr
    finally:
        shutil.rmtree(d, ignore_errors=True)


def main():
    a = sys.argv[1:]
    count = 1
    if "--count" in a:
        i = a.index("--count")
        count = int(a[i + 1])
        del a[i : i + 2]
    prop, rel, old, new = a
    old = old.encode().decode("unicode_escape")
    new = new.encode().decode("unicode_escape")
    rc, out = run_variant(prop, rel, old, new, count)
    print(out.rstrip())
    print("exit", rc)


if __name__ == "__main__":
    main()

"""Whole-package call graph over statically resolved callees.

Resolution (name based; no type checker is available): `f(...)` to a
function / class of the same module or an imported one; `mod.f(...)`;
`Class.method(...)`; `self.method(...)` / `cls.method(...)` inside a class
(searching package-declared bases); `Class(...)` to `Class.__init__`.
Function values placed in list literals (pass lists) that flow into
rewrite_graph_pre_order / visit_graph_post_order are added as edges from the
function that builds the list."""
import ast

from .astutil import call_name, dotted, walk_no_nested


class FuncInfo:
    __slots__ = ("mod", "qual", "node", "cls")

    def __init__(self, mod, qual, node):
        self.mod = mod
        self.qual = qual
        self.node = node
        self.cls = qual.rsplit(".", 1)[0] if "." in qual and qual.rsplit(".", 1)[0] in mod.classes else None

    @property
    def key(self):
        return (self.mod.name, self.qual)

    def __repr__(self):
        return f"{self.mod.name}:{self.qual}"


class CallGraph:
    def __init__(self, repo):
        self.repo = repo
        self.funcs = {}
        for m in repo.core_modules():
            for q, n in m.functions.items():
                self.funcs[(m.name, q)] = FuncInfo(m, q, n)
        self.by_method = {}
        for (mn, q), fi in self.funcs.items():
            if fi.cls is not None:
                self.by_method.setdefault(q.rsplit(".", 1)[1], []).append(fi)
        self.loose_calls = {}  # key -> [(ast.Call, FuncInfo)] : obj.method(...) resolved by a package-unique method name
        self.calls = {}  # key -> [(ast.Call, FuncInfo | None)]
        self.edges = {}
        self.unresolved = 0
        self.resolved = 0
        for k, fi in self.funcs.items():
            out = []
            for c in walk_no_nested(fi.node):
                if isinstance(c, ast.Call):
                    t = self.resolve(fi, c)
                    out.append((c, t))
                    if t is None:
                        self.unresolved += 1
                    else:
                        self.resolved += 1
            self.calls[k] = out
            self.edges[k] = {t.key for _, t in out if t is not None}
            loose = []
            for c, t in out:
                if t is None and isinstance(c.func, ast.Attribute):
                    cands = self.by_method.get(c.func.attr, [])
                    if len(cands) == 1:
                        loose.append((c, cands[0]))
                        self.edges[k].add(cands[0].key)
            self.loose_calls[k] = loose
            # function values in list literals / bare names passed as arguments
            for n in walk_no_nested(fi.node):
                if isinstance(n, ast.List) or isinstance(n, ast.Call):
                    elts = n.elts if isinstance(n, ast.List) else list(n.args) + [kw.value for kw in n.keywords]
                    for e in elts:
                        if isinstance(e, (ast.Name, ast.Attribute)):
                            t = self.resolve_name(fi, e)
                            if t is not None:
                                self.edges[k].add(t.key)
            # nested functions are reachable from their parent
            for q2 in fi.mod.functions:
                if q2.startswith(fi.qual + ".") and q2.count(".") == fi.qual.count(".") + 1:
                    self.edges[k].add((fi.mod.name, q2))

    def class_method(self, mod, cls, name, seen=None):
        seen = seen or set()
        if (mod.name, cls) in seen:
            return None
        seen.add((mod.name, cls))
        if f"{cls}.{name}" in mod.functions:
            return self.funcs.get((mod.name, f"{cls}.{name}"))
        c = mod.classes.get(cls)
        if c is None:
            return None
        for b in c.bases:
            bn = dotted(b)
            if not bn:
                continue
            last = bn.split(".")[-1]
            if last in mod.classes:
                r = self.class_method(mod, last, name, seen)
                if r:
                    return r
            r0 = self.repo.resolve_import(mod, bn.split(".")[0])
            if r0:
                m2 = self.repo.mod(r0[0])
                target = r0[1] if r0[1] else last
                if target in m2.classes:
                    r = self.class_method(m2, target, name, seen)
                    if r:
                        return r
        return None

    def resolve_name(self, fi, node):
        """Function referred to by a Name / Attribute expression (not a call)."""
        mod = fi.mod
        d = dotted(node)
        if not d:
            return None
        parts = d.split(".")
        if len(parts) == 1:
            nm = parts[0]
            # nested function of the enclosing function chain
            q = fi.qual
            while True:
                if f"{q}.{nm}" in mod.functions:
                    return self.funcs[(mod.name, f"{q}.{nm}")]
                if "." not in q:
                    break
                q = q.rsplit(".", 1)[0]
            if nm in mod.functions:
                return self.funcs[(mod.name, nm)]
            if nm in mod.classes:
                return self.class_method(mod, nm, "__init__")
            r = self.repo.resolve_import(mod, nm)
            if r and r[1]:
                m2 = self.repo.mod(r[0])
                if r[1] in m2.functions:
                    return self.funcs.get((m2.name, r[1]))
                if r[1] in m2.classes:
                    return self.class_method(m2, r[1], "__init__")
            return None
        head, rest = parts[0], parts[1:]
        if head in ("self", "cls") and fi.cls and len(rest) == 1:
            return self.class_method(mod, fi.cls.split(".")[-1], rest[0])
        if head in mod.classes and len(rest) == 1:
            return self.class_method(mod, head, rest[0])
        r = self.repo.resolve_import(mod, head)
        if r:
            m2 = self.repo.mod(r[0])
            if r[1] is None:
                if len(rest) == 1:
                    if rest[0] in m2.functions:
                        return self.funcs.get((m2.name, rest[0]))
                    if rest[0] in m2.classes:
                        return self.class_method(m2, rest[0], "__init__")
                if len(rest) == 2 and rest[0] in m2.classes:
                    return self.class_method(m2, rest[0], rest[1])
            elif r[1] in m2.classes and len(rest) == 1:
                return self.class_method(m2, r[1], rest[0])
        return None

    def resolve(self, fi, call):
        return self.resolve_name(fi, call.func)

    def reachable(self, roots):
        seen = set()
        todo = [r for r in roots if r in self.funcs]
        while todo:
            k = todo.pop()
            if k in seen:
                continue
            seen.add(k)
            todo.extend(self.edges.get(k, ()))
        return seen

    def callers_of(self, key, loose=False):
        out = []
        for k, lst in self.calls.items():
            for c, t in lst:
                if t is not None and t.key == key:
                    out.append((self.funcs[k], c))
        if loose:
            for k, lst in self.loose_calls.items():
                for c, t in lst:
                    if t.key == key:
                        out.append((self.funcs[k], c))
        return out


def bind_args(func_node, call, is_method_call):
    """Map parameter name -> argument expr for a call to func_node; returns
    (binding, error|None). `is_method_call`: first parameter (self/cls) is implicit."""
    a = func_node.args
    params = [p.arg for p in a.posonlyargs + a.args]
    if is_method_call and params:
        params = params[1:]
    n_def = len(a.defaults)
    required = params[: len(params) - n_def] if n_def <= len(params) else []
    binding = {}
    pos = [x for x in call.args if not isinstance(x, ast.Starred)]
    has_star = any(isinstance(x, ast.Starred) for x in call.args) or any(k.arg is None for k in call.keywords)
    if len(pos) > len(params) and not a.vararg:
        return binding, f"{len(pos)} positional arguments for {len(params)} parameters"
    for p, x in zip(params, pos):
        binding[p] = x
    kwonly = [p.arg for p in a.kwonlyargs]
    for k in call.keywords:
        if k.arg is None:
            continue
        if k.arg in binding:
            return binding, f"parameter {k.arg} given twice"
        if k.arg not in params and k.arg not in kwonly and not a.kwarg:
            return binding, f"unknown keyword {k.arg}"
        binding[k.arg] = k.value
    if not has_star:
        missing = [p for p in required if p not in binding]
        missing += [p.arg for p, d in zip(a.kwonlyargs, a.kw_defaults) if d is None and p.arg not in binding]
        if missing:
            return binding, f"missing arguments {missing}"
    return binding, None

"""Rule-instance bookkeeping, floors, known findings, evidence and exit codes."""
import json

from .core import AnalysisError
import os
import time

VERIF = os.path.dirname(os.path.dirname(os.path.abspath(__file__)))
EVIDENCE_DIR = os.path.join(VERIF, "evidence")
REPLAY_DIR = os.path.join(EVIDENCE_DIR, "replay")
KNOWN = os.path.join(VERIF, "known_findings.json")


def load_known():
    if not os.path.isfile(KNOWN):
        return {"findings": [], "fixed": []}
    with open(KNOWN) as f:
        return json.load(f)


class Report:
    def __init__(self, prop, tier, seed=0, only=None):
        self.prop = prop
        self.tier = tier
        self.seed = seed
        self.only = only  # replay filter: dict(rule, site, construct)
        self.instances = []
        self.floors = {}
        self.notes = []
        self.clauses = {}
        self.not_decided = []
        self.assumptions = []
        self.t0 = time.time()
        self.extra = {}
        self._borrow = None

    def borrow(self, mapping):
        """Context manager: run another property's rules and keep only the instances of the rules in `mapping`,
        re-labelled as this property's own rule ids (a clause shared by two properties is checked once, reported by both)."""
        rep = self

        class _B:
            def __enter__(self_):
                rep._saved = (rep._borrow, dict(rep.extra))
                rep._borrow = mapping

            def __exit__(self_, *a):
                rep._borrow, extra = rep._saved
                rep.extra = extra
                return False

        return _B()

    def run_borrowed(self, module, mapping, repo, only_sites=None):
        """Run another property's rules and keep only the instances of the rules in `mapping`, re-labelled as this
        property's own rule ids. A borrow requested while already borrowing is skipped: shared clauses are one level
        deep (this also breaks cycles such as C06 <-> C09)."""
        if self._borrow is not None:
            return
        cache = self.__dict__.setdefault("_lender_cache", {})
        key = module.__name__
        if key not in cache:
            # run the lender once, capturing everything it records; later borrows from the same lender replay the capture
            captured, floors = [], {}
            self._capture = (captured, floors)
            lender_error = None
            try:
                with self.borrow({}):
                    module.run(repo, self)
            except AnalysisError as ex:
                # the lender could not finish (one of ITS anchors is gone on this tree): what it recorded up to that point is kept; a borrow
                # that finds none of its rules among it fails as analysis-broken, any other borrow is decided on what was recorded
                lender_error = ex
            finally:
                self._capture = None
            cache[key] = (captured, floors, lender_error)
        captured, floors, lender_error = cache[key]
        if lender_error is not None and not any(rule in mapping for _, rule, _, _, _ in captured):
            raise lender_error
        sites = tuple(only_sites) if only_sites else None
        for status, rule, site, construct, detail in captured:
            if rule in mapping and (not sites or any((site == x[1:]) if x.startswith("=") else (x in site) for x in sites)):
                self.instances.append({"rule": mapping[rule], "site": site, "construct": construct, "status": status, "detail": detail})
        if not sites:
            for rule, n in floors.items():
                if rule in mapping:
                    self.floors.setdefault(mapping[rule], n)

    # ---- declaring
    def clause(self, rule, text):
        if self._borrow is None:
            self.clauses[rule] = text

    def undecided(self, text):
        if self._borrow is None:
            self.not_decided.append(text)

    def assume(self, text):
        if self._borrow is None:
            self.assumptions.append(text)

    def floor(self, rule, n):
        if self._borrow is not None:
            cap = getattr(self, "_capture", None)
            if cap is not None:
                cap[1][rule] = n
            return
        self.floors[rule] = n

    # ---- recording
    def _add(self, status, rule, site, construct, detail):
        if self._borrow is not None:
            cap = getattr(self, "_capture", None)
            if cap is not None:
                cap[0].append((status, rule, site, " ".join(str(construct).split()), detail))
            return
        construct = " ".join(str(construct).split())
        self.instances.append(
            {"rule": rule, "site": site, "construct": construct, "status": status, "detail": detail}
        )

    def ok(self, rule, site, construct, detail=""):
        self._add("ok", rule, site, construct, detail)

    def bad(self, rule, site, construct, detail=""):
        self._add("violation", rule, site, construct, detail)

    def info(self, rule, site, construct, detail=""):
        self._add("info", rule, site, construct, detail)

    def check(self, cond, rule, site, construct, detail_bad="", detail_ok=""):
        if cond:
            self.ok(rule, site, construct, detail_ok)
        else:
            self.bad(rule, site, construct, detail_bad)
        return cond

    # ---- finishing
    def has_new_violations(self):
        known = load_known()
        kf = [k for k in known.get("findings", []) if k.get("property") == self.prop]
        for i in self.instances:
            if i["status"] == "violation" and not any(k["rule"] == i["rule"] and k["site"] == i["site"] and k["construct"] == i["construct"] for k in kf):
                return True
        return False

    def finish(self, repo=None, partial=None):
        from .core import AnalysisError

        known = load_known()
        kf = [k for k in known.get("findings", []) if k.get("property") == self.prop]
        per_rule = {}
        for i in self.instances:
            if i["status"] in ("ok", "violation"):
                per_rule[i["rule"]] = per_rule.get(i["rule"], 0) + 1
        violations = []
        known_hit = []
        for i in self.instances:
            if i["status"] != "violation":
                continue
            if self.only and not (
                i["rule"] == self.only.get("rule")
                and i["site"] == self.only.get("site")
                and i["construct"] == self.only.get("construct")
            ):
                continue
            m = None
            for k in kf:
                if k["rule"] == i["rule"] and k["site"] == i["site"] and k["construct"] == i["construct"]:
                    m = k
                    break
            if m:
                i["status"] = "known"
                known_hit.append((i, m))
            else:
                violations.append(i)
        if not violations:
            # a floor is a non-vacuity guard: it turns a *silent* pass into exit 2; it never hides a violation
            for rule, n in self.floors.items():
                if per_rule.get(rule, 0) < n:
                    raise AnalysisError(
                        f"rule {rule}: {per_rule.get(rule, 0)} instances matched, floor is {n} "
                        "(the recognised idiom no longer matches the code; extend the idiom table)"
                    )
        lines = []
        for i, m in known_hit:
            lines.append(
                f"KNOWN-FINDING: property={self.prop} [{m.get('id','')}] rule={i['rule']} at {i['site']}: "
                f"{i['construct']} -- {m.get('what', i['detail'])}"
            )
        rdir = REPLAY_DIR if not os.environ.get("VELACHECK_NO_EVIDENCE") else os.path.join(REPLAY_DIR, "scratch")
        os.makedirs(rdir, exist_ok=True)
        for old in os.listdir(rdir):
            if old.startswith(self.prop + "-") and old.endswith(".json"):
                os.remove(os.path.join(rdir, old))
        for n, i in enumerate(violations):
            path = os.path.join(rdir, f"{self.prop}-{n}.json")
            with open(path, "w") as f:
                json.dump({"property": self.prop, **i}, f, indent=1)
            lines.append(f"  rule={i['rule']} at {i['site']}: {i['construct']} -- {i['detail']}")
            lines.append(f"VIOLATION property={self.prop} replay={path}")
        wall = time.time() - self.t0
        nontrivial = {(i["rule"], i["site"], i["construct"]) for i in self.instances if i["status"] in ("ok", "violation", "known")}
        samples = []
        seen_rules = set()
        for i in self.instances:
            if i["status"] == "ok" and i["rule"] not in seen_rules:
                seen_rules.add(i["rule"])
                samples.append({k: i[k] for k in ("rule", "site", "construct", "detail")})
        if partial:
            self.extra["analysis_error"] = "the analysis stopped early (only the rules evaluated before are reported): " + partial
        expl = "Static analysis of /repo source (ast; no repository code imported or run). Decided clauses: " + "; ".join(
            f"[{r}] {t}" for r, t in sorted(self.clauses.items())
        )
        if self.not_decided:
            expl += " NOT decided (run-time quantities): " + "; ".join(self.not_decided)
        ev = {
            "property_id": self.prop,
            "tier": self.tier,
            "seed": self.seed,
            "level": "other",
            "coverage": {
                "explanation": expl,
                "evaluations": len([i for i in self.instances if i["status"] != "info"]),
                "distinct_nontrivial": len(nontrivial),
                "rule": "one evaluation = one rule instance (rule id, file:function, normalised construct) whose premise "
                "matched a construct of the current tree; distinct = distinct (rule, site, construct) triples; rules "
                "whose premise matched nothing are not counted and trip the floor (exit 2)",
                "samples": samples[:40],
                "instances_per_rule": per_rule,
                "floors": self.floors,
                "informational": [
                    {k: i[k] for k in ("rule", "site", "construct", "detail")} for i in self.instances if i["status"] == "info"
                ][:60],
                "known_findings_matched": [m.get("id", "") for _, m in known_hit],
                "violation_list": [{k: i[k] for k in ("rule", "site", "construct", "detail")} for i in violations],
                "modules_parsed": len(repo.modules) if repo else 0,
                "files_consulted": dict(sorted(repo.files_read.items())) if repo else {},
                **self.extra,
            },
            "assumptions": self.assumptions,
            "wall_s": round(wall, 3),
            "violations": len(violations),
        }
        os.makedirs(EVIDENCE_DIR, exist_ok=True)
        if not self.only and not os.environ.get("VELACHECK_NO_EVIDENCE"):
            with open(os.path.join(EVIDENCE_DIR, f"{self.prop}.json"), "w") as f:
                json.dump(ev, f, indent=1, sort_keys=False)
                f.write("\n")
        print(
            f"{self.prop} [{self.tier}] rule instances: {ev['coverage']['evaluations']} "
            f"(distinct {len(nontrivial)}), known findings: {len(known_hit)}, violations: {len(violations)}, "
            f"{wall:.2f}s"
        )
        for ln in lines:
            print(ln)
        return 1 if violations else 0

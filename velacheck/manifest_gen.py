"""Regenerates /verif/MANIFEST.json from the CLAIMS table below (development
helper; the manifest itself is the committed artefact)."""
import json
import os

VERIF = os.path.dirname(os.path.dirname(os.path.abspath(__file__)))

# id -> (technique, level text, level note, design ref)
CLAIMS = {}
NOT_APPLICABLE = {
    "C01": "numerical equivalence of the compiled artefact with the TFLite reference over all networks and inputs is a "
    "statement about run-time values of an interpreter that is not in the repository; no clause is a shape-of-code fact "
    "that is not already owned by a narrower property (C06, C09, C10, C19, C07/C08); static analysis cannot decide it",
}


def claim(pid, technique, text, note, ref):
    CLAIMS[pid] = (technique, text, note, ref)


claim(
    "C17",
    "abstract interpretation (bit-provenance domain) of driver_actions.py, all paths; const-fold of accelerator table vs config_r spec",
    "Decides the framing in full up to library semantics: every path of create_driver_payload for a symbolic stream and "
    "architecture is enumerated; the abstract word list must be COP1, config action (+config_r/id_r words, all non-reserved "
    "fields set), NOPs, header, words; header bits must carry length[0..23] exactly and the path must know length < 2^24; "
    "words start at a multiple of 4 words for every residue; values of the six accelerator rows fit the register fields.",
    "Trusted: struct.pack/list semantics; driver action ids, magic and length decoding frozen from the Ethos-U core driver ABI; "
    "the analyser's own transfer functions for & | << >> + on bit vectors.",
    "DESIGN.md section 4, C17",
)


def build():
    checks = []
    for pid in sorted(CLAIMS):
        tech, text, note, ref = CLAIMS[pid]
        checks.append(
            {
                "property_id": pid,
                "quick_cmd": f"python3 -m velacheck {pid} --tier quick",
                "thorough_cmd": f"python3 -m velacheck {pid} --tier thorough",
                "evidence_file": f"/verif/evidence/{pid}.json",
                "replay_cmd_template": f"python3 -m velacheck {pid} --replay {{path}}",
                "engine": "velacheck",
                "level_claimed": {"category": "other", "text": text, "design_ref": ref},
                "level_note": note,
                "technique": "static analysis: " + tech,
            }
        )
    na = [{"property_id": p, "reason": r} for p, r in sorted(NOT_APPLICABLE.items())]
    man = {
        "version": 1,
        "setup_cmd": "true",
        "hooks": {
            "guard": "ETHOS_U_VELA_VERIF",
            "enable": "none needed: the checks parse /repo's working tree; no instrumentation exists",
            "baseline_off_cmd": "cd /repo && /venv/bin/python -m pytest -ra -q -p no:cacheprovider --timeout=900 --continue-on-collection-errors",
            "source_commits": [],
            "add_only": True,
        },
        "engines": [
            {
                "name": "velacheck",
                "path": "/verif/velacheck",
                "serves_properties": sorted(CLAIMS),
                "kind_free_text": "repository-specific static analyser (stdlib ast; statement CFG with dominators and reaching "
                "definitions; literal const-folding; bit-provenance / residue / order abstract interpreters over extracted ASTs; "
                "clang JSON AST for the C codec); nothing from /repo is imported or executed",
            }
        ],
        "checks": checks,
        "not_applicable": na,
        "notes": "Each check decides only the clauses named in its level text (see DESIGN.md 1.6); value-level clauses are listed "
        "as not decided in the evidence. exit 2 + ANALYSIS-ERROR = analyser cannot recognise the code (never a verdict).",
    }
    with open(os.path.join(VERIF, "MANIFEST.json"), "w") as f:
        json.dump(man, f, indent=1)
        f.write("\n")
    return man


if __name__ == "__main__":
    import sys

    sys.path.insert(0, VERIF)
    pending = os.path.join(VERIF, "velacheck", "pending.json")
    if os.path.isfile(pending):
        for p, r in json.load(open(pending)).items():
            if p not in CLAIMS:
                NOT_APPLICABLE[p] = r
    m = build()
    print("claimed:", [c["property_id"] for c in m["checks"]], "n/a:", [x["property_id"] for x in m["not_applicable"]])

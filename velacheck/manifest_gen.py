"""Regenerates /verif/MANIFEST.json from the CLAIMS table below (development
helper; the manifest itself is the committed artefact)."""
import json
import os

VERIF = os.path.dirname(os.path.dirname(os.path.abspath(__file__)))

# id -> (technique, level text, level note, design ref)
CLAIMS = {}
NOT_APPLICABLE = {
    "C01": "numerical equivalence of the compiled artefact with the TFLite reference over all networks and inputs is a "
    "statement about run-time values of an interpreter that is not in the repository; no clause is a shape-of-code fact "
    "that is not already owned by a narrower property (C06, C09, C10, C19, C07/C08); static analysis cannot decide it",
}


def claim(pid, technique, text, note, ref):
    CLAIMS[pid] = (technique, text, note, ref)


claim(
    "C17",
    "abstract interpretation (bit-provenance domain) of driver_actions.py, all paths; const-fold of accelerator table vs config_r spec",
    "Decides the framing in full up to library semantics: every path of create_driver_payload for a symbolic stream and "
    "architecture is enumerated; the abstract word list must be COP1, config action (+config_r/id_r words, all non-reserved "
    "fields set), NOPs, header, words; header bits must carry length[0..23] exactly and the path must know length < 2^24; "
    "words start at a multiple of 4 words for every residue; values of the six accelerator rows fit the register fields.",
    "Trusted: struct.pack/list semantics; driver action ids, magic and length decoding frozen from the Ethos-U core driver ABI; "
    "the analyser's own transfer functions for & | << >> + on bit vectors.",
    "DESIGN.md section 4, C17",
)

claim(
    "C04",
    "symbolic path enumeration of get_wait_dependency over all queue configurations vs a queue model; all-path hazard-kind check of conflicts(); "
    "access-set field coverage from api.py; CFG dominance for wait/BLOCKDEP emission order; axis-role homogeneity; comparison polarity",
    "Decides clauses a-f' of DESIGN.md 4/C04: RAW/WAR/WAW all tested, every address-bearing API field in the access set with the right direction, "
    "access sets frozen once memoised, queue bounds / scanned queue / wait kind and count / retirement equal the hardware queue model for every "
    "configuration and conflict pattern (U55 and U65 limits), waits and BLOCKDEP emitted before every NPU_OP, block-dependency geometry axis-consistent, "
    "overlap predicates no weaker than half-open overlap. Does NOT decide that the BLOCKDEP value is sufficient under the hardware timing model.",
    "Trusted: the queue model written in the checker (oldest-first retirement, per-kind capacity); Python asserts enabled; name-based axis roles.",
    "DESIGN.md section 4, C04",
)
claim(
    "C05",
    "reaching-definitions provenance in a multiple-of-alignment domain; linear-form normalisation of comparisons over a finite ordering domain; "
    "loop ranking check on the CFG; closed-interval convention table",
    "Decides clauses a-d' of DESIGN.md 4/C05: every address reaching an assignment sink is 0 / a copied address / round_up(., the range's alignment) and "
    "alignment requests only grow; end_time is inclusive at every interval expansion; totals are the max-end fold; HillClimb's loops have a ranking; "
    "overlap/fit/liveness comparisons are no weaker than canonical, the gap that is tested is the offset that is taken, and an aborted partial "
    "allocation can never pass search()'s acceptance test. Does NOT decide non-overlap for all range sets (an inductive argument over three search algorithms).",
    "Trusted: numeric_util.round_up returns a multiple of its second argument (its body is ((a+b-1)//b)*b); recognised idiom tables of the three allocators.",
    "DESIGN.md section 4, C05",
)
claim(
    "C06",
    "abstract interpretation (bit-provenance domain, all paths) of the emitter and the register generators against the ethos_u55_regs bit-field spec "
    "and api.py; table totality / name agreement; role agreement of register names and values; CFG dominance of alignment checks; stop placement",
    "Decides clauses a-h of DESIGN.md 4/C06: every operation class and enum member has the right encoding; precision / broadcast / activation / "
    "kernel-stride parameters are packed at the spec's bit positions for every enum combination; each register gets the operand/axis/side/tile its name "
    "says and every API field reaches an emission; elision keys contain everything that is emitted and NPU_OP/waits bypass elision; word layout of "
    "cmd0/cmd1; alignment checks dominate emissions; exactly one stop, last; shared rules: waits follow the queue model and precede their operation (C04-d/e), the access set they "
    "are computed from is complete (C04-b), scale registers get their own role's pair (C09-c), emitted SHRAM layout is derived like the selected one (C15-d). Does NOT decide truncation of run-time magnitudes or decoded==input per history.",
    "Trusted: ethos_u55_regs.py as hardware spec; the frozen TRM bit table of NPU_SET_KERNEL_STRIDE; name-based roles; asserts enabled.",
    "DESIGN.md section 4, C06",
)

claim(
    "C18",
    "symbolic evaluation of _read_config over every section shape up to depth 3; CFG check-after-last-write and unconditional-validation rules; "
    "provenance of the resolved config list; doc/code table agreement (OPTIONS.md vs argparse, internal-default vs vela.ini); ini consumability",
    "Decides clauses a-f of DESIGN.md 4/C18: resolved config paths reach the reader; child overrides parent transitively and self/unknown parents are "
    "rejected for all chain shapes; CLI arena cache size overrides the file whenever given; every memory-area / size validation is unconditional, after "
    "the last write and against the documented legal set; unknown sections raise; documented defaults/choices equal the coded ones; the bundled ini is "
    "consumable. Known findings F15, F16a-d are genuine deviations of this fork. Does NOT decide numeric validity of arbitrary .ini values or OS path handling.",
    "Trusted: ConfigParser has_section/has_option/get semantics (modelled); OPTIONS.md block format; legal memory areas frozen from the documentation.",
    "DESIGN.md section 4, C18",
)

claim(
    "C15",
    "symbolic path enumeration of _try_block_config with a linear-inequality derivation of the layout order from the path guards; must-pass-through "
    "of the validity test; argument-by-argument sibling agreement of the public query and the generator over an enumerated operation table; axis roles",
    "Decides clauses a-e of DESIGN.md 4/C15: the validity test (positive, <= max, multiple of micro-block, three axes) guards every used/offered block; "
    "on every returning path ib_start <= ib_end <= ab_start <= lut_start <= total and the IFM2 partition ends below the accumulators (derived from the "
    "guards, shape independent); partitions are per-element rounded, doubled and granule-rounded; search / validator / query / generator agree on every "
    "quantity handed to the SHRAM arithmetic. Does NOT decide the numeric bank arithmetic for all shapes.",
    "Trusted: positivity of bank counts, granules and extents; round_up / round_up_divide as opaque non-negative functions.",
    "DESIGN.md section 4, C15",
)

claim(
    "C16",
    "doc/code table agreement: constraint registrations of both checkers (set algebra and Op predicates folded from source) vs SUPPORTED_OPS.md bullets "
    "matched by docstring templates; dead-constraint detection; report-generator list coverage; who-writes run_on_npu; per-rewrite guard",
    "Decides clauses a-d of DESIGN.md 4/C16: the published report lists, per operator, exactly the registered constraints and exemptions; every defined "
    "constraint is registered and uses the quantity its text names; the generator reads every enforced list with the right exemption table; the verdict "
    "reaches run_on_npu, rewrites are guarded per rewrite, and run_on_npu has only reviewed writers. Known findings F14, F20 are genuine report/code "
    "disagreements of this fork. Does NOT decide end-to-end NPU placement of a conforming operator.",
    "Trusted: docstring-template matching ({} as wildcard); Op predicate forms recognised by the folder; the reviewed writer table of run_on_npu.",
    "DESIGN.md section 4, C16",
)

claim(
    "C11",
    "exhaustive table agreement between the option serializers and the generated flatbuffer schema classes; totality / injectivity of the type and "
    "operator maps; provenance of the written interface lists; reader/writer pairing rules; (thorough) effect-before-guard listing for rewrites",
    "Decides clauses a-d of DESIGN.md 4/C11 (e informational in the thorough tier): every field of every builtin options table is read and written back; "
    "operator / tensor-type / options maps are total and invertible; written inputs and outputs come from the source-order lists; the writer undoes the "
    "reader's operand reordering and constant cloning by identity, and the reader copies constant data out of the model buffer. Known findings F6, F6b, "
    "F11 are genuine. Does NOT decide per-network operator preservation or flatbuffer well-formedness of the output.",
    "Trusted: the generated schema classes under ethosu/vela/tflite as the schema oracle; str.title() camel-casing as in underscore_to_camel_case.",
    "DESIGN.md section 4, C11",
)

claim(
    "C13",
    "call-graph-wide definite-error checker (symtable undefined names, import existence, call arity on resolved callees, control-dependence "
    "classification); NEP-50 narrow-integer taint with inter-procedural constant propagation; schema-enum totality; raise-class discipline; "
    "path-enumerated assert discharge for the tensor-purpose pass",
    "Decides clauses a, a', b, c, d, e of DESIGN.md 4/C13 over every function reachable from vela.main/process/convert/convert_bytes and the public "
    "api: no unconditional undefined name / bad import / impossible arity; no fixed-width NumPy integer meets an out-of-range Python int constant "
    "(F19, F21 found and fixed); reader-indexed enum maps total or guarded (known finding F11); only VelaError subclasses raised deliberately and "
    "main() converts them; checkers return False rather than raise; the purpose-conflict assertion is undischargeable from the per-operator pass. "
    "Does NOT decide totality over all models (data-dependent index errors, asserts valid inputs can trip).",
    "Trusted: name-based callee resolution (unresolved calls are counted in the evidence, not analysed); flow-insensitive narrow-int taint; "
    "NumPy >= 2 semantics (NEP 50) as admitted by the unpinned dependency.",
    "DESIGN.md section 4, C13",
)

claim(
    "C02",
    "CFG dominance of the bounds check over every emission; all-path symbolic enumeration of check_mem_limits; path-enumerated region / limit tables "
    "for both spilling modes; who-assigns rules for permanent memory types and DMA destinations; single-writer rule for published extents",
    "Decides clauses a-e of DESIGN.md 4/C02: every operation is bounds-checked on its own access set before anything is emitted; the check rejects an "
    "unknown region, negative and too-large offsets for both ends of every range of every direction; limits come from the architecture with the arena "
    "cache size as the fast-scratch limit exactly when spilling; nothing can be placed in / DMA'd to the constants region outside the reviewed producers; "
    "published scratch extents are the root subgraph's allocator totals. Does NOT decide that addresses stay inside the *published* tensor sizes.",
    "Trusted: asserts enabled; the reviewed producer tables (one line of reason each in the checker).",
    "DESIGN.md section 4, C02",
)
claim(
    "C12",
    "single-writer / single-reader rule for reported and published sizes; option plumbing check of --cpu-tensor-alignment hop by hop; structural check "
    "of the OfflineMemoryAllocation layout against the tensor-table order; in-place reuse precondition",
    "Decides clauses a-d of DESIGN.md 4/C12: console / CSV figures and scratch tensor shapes come from the same allocator total of the root subgraph; the "
    "requested CPU alignment reaches live-range creation, all three allocators and the verifier, and illegal values are rejected; metadata header, "
    "per-subgraph offsets, -1 default and arena-only offsets follow the tensor-table order; a tensor leaving the subgraph is never overwritten in place. "
    "Does NOT decide overlap of arena tensors under the output operator order (needs concrete addresses).",
    "Trusted: recognised idioms of tflite_writer.serialise_model; keyword plumbing resolved by name.",
    "DESIGN.md section 4, C12",
)

claim(
    "C03",
    "collection-coverage and ordering rules on the live-range extraction (CFG); closed-interval convention table; finite-domain comparison of the three "
    "double-buffer parity expressions; structural rules for pre-buffering, rolling-buffer shape, LUT residency reset and write protection",
    "Decides clauses a-f of DESIGN.md 4/C03: every touched tensor is marked live at its operation's step; end_time is inclusive at every expansion; "
    "scheduler / live ranges / command generator agree on the buffer of the last depth slice for 1-2 buffers and 1-7 slices; pre-buffering only extends; "
    "rolling buffers are round_up(prod+cons, cons) tall, max(prod, cons) wide and rebuilt per cascade proposal; LUT residency is dropped after any non-LUT "
    "stripe; in-place reuse is decided before consumers are rewired. Does NOT decide per-byte definedness or rolling-buffer sufficiency for concrete stripes.",
    "Trusted: recognised idioms of live_range.py / cascade_builder.py / lut.py; expression folding with len() substituted by small integers.",
    "DESIGN.md section 4, C03",
)
claim(
    "C10",
    "tiling-idiom check of the stripe loops (linear-form comparison of range / min bounds); flag and padding-override rules; axis / side role "
    "homogeneity with index conventions for coordinates, strides and skirt; sibling agreement of the receptive-field formula",
    "Decides clauses a-d of DESIGN.md 4/C10: stripe loops have the canonical partition form with identical bounds in range() and min(); depth slices are "
    "consecutive entries clamped by the same bounds; the OFM box is built from exactly these values; first/last flags and the per-stripe pad override follow "
    "from the same bounds; geometry never mixes axes or sides; bottom padding is the last kernel row minus the IFM height. Does NOT decide the "
    "receptive-field arithmetic for all shapes nor the scheduler's stripe choices.",
    "Trusted: positive steps and ascending depth slices; name / index based axis roles (strides[1]=H, [2]=W; skirt[0,2]=H, [1,3]=W; coord[-3,-2,-1]=H,W,C).",
    "DESIGN.md section 4, C10",
)

claim(
    "C08",
    "residue enumeration of the 16-byte padding; bit-provenance interpretation of encode_bias; finite-domain partition check of the per-core channel "
    "slices; CFG placement rules for range bookkeeping and double-buffer sizes; sibling agreement of the consumers' rounding; dependency-set check of the cache key",
    "Decides clauses a-g of DESIGN.md 4/C08: every range starts at residue 0 mod 16 for all 16 residues; the 10-byte record carries bias[0..39], "
    "scale[0..31], shift[0..5]; for 1-2 cores and slice lengths 1-8 the per-core scale/bias index sets partition the slice (F22 found and fixed) and "
    "weights are dealt the same way; ranges are recorded per (core, slice) with offsets taken at the right points; double-buffer sizes span all cores of a "
    "slice; create_weights and create_dma_op round identically; every input of the weight stream is determined by the cache key or frozen with a reason "
    "(known finding F4: IFM bit depth and operator kind are not). Does NOT decide the decoded contents.",
    "Trusted: encoder output length is a multiple of 16 (C07-c); the frozen table of derived / constant encoding inputs.",
    "DESIGN.md section 4, C08",
)

claim(
    "C14",
    "inventory of process-wide mutable stores (module / class level containers, memoised functions) with a must-reset-at-entry rule on the CFG of every "
    "entry point; call-graph rule that every random draw follows a literal re-seed inside the allocation; order-taint rules for sets feeding the serialiser",
    "Decides clauses a-c of DESIGN.md 4/C14: every store written during compilation is reset before the work on every path of process(), convert() and "
    "convert_bytes(), or is in the reviewed history-safe table; the hill-climb generator is re-seeded with a literal before any draw of an allocation and "
    "nothing else is random; sets that reach written output are sorted with a total key and never contribute their iteration index (F12, F13 found and "
    "fixed). Does NOT decide byte-identical outputs.",
    "Trusted: the history-safe table (four entries, one reason each); name-based detection of container mutation; dict insertion order (language guarantee).",
    "DESIGN.md section 4, C14",
)

claim(
    "C09",
    "symbolic path enumeration of quantise_scale with a power-of-two bookkeeping domain (frexp model); finite-domain evaluation of the pooling divisor "
    "expressions over every window size; widen-before-arithmetic rule on float32 scale expressions; sibling agreement of the add/sub derivations",
    "Decides clauses a-c of DESIGN.md 4/C09: on every path of quantise_scale the 2^a carried by the multiplier equals the constant of the shift "
    "(the pair denotes the input scale), the shift is guarded to [0, 64) and out-of-range scales give (0, 16); the reduced form divides multiplier and "
    "shift by the same 2^16 and saturates; the pooling reciprocal is rounded up for all window sizes (1..2048 quick, 1..65536 thorough, three rescale "
    "settings); doubles are taken of each float32 scale before dividing; advanced / simplified add-sub derivations and the operand swap agree. Does NOT "
    "decide relative error or equality with TFLite for all real scales.",
    "Trusted: math.frexp model (significand in [0.5, 1)); one deliberate float32 product frozen with the TFLite line it mirrors.",
    "DESIGN.md section 4, C09",
)

claim(
    "C19",
    "structural / CFG rules on the table generators (index range, one append per code, clamp and rounding provenance); caller-type taint in fp_math "
    "(growing multiplications only on widened operands); table agreement of the exponential's barrel stages and constants with gemmlowp",
    "Decides clauses a-c of DESIGN.md 4/C19: each 8-bit table loop covers exactly the 256 codes of its input type with one append per code; the stored "
    "value is rounded by round_away_zero or produced by the integer helpers and clamped to the same loop's quantised range; in fp_math no growing "
    "multiply / shift is applied to a caller-typed operand before widening (F18 found and fixed) and never inside the widening call; the exponential has "
    "the seven gemmlowp stages and constants; rounding divide and doubling high multiply have the reference shape. Does NOT decide table values or "
    "bit-exact equality with gemmlowp.",
    "Trusted: gemmlowp's barrel-shifter table and Taylor constants (frozen from fixedpoint.h); float-domain helpers exempted by name with a reason.",
    "DESIGN.md section 4, C19",
)

claim(
    "C07",
    "clang JSON AST of the codec under the shipped build flags (-DNDEBUG): inter-procedural must-pass-through of the range guard before table-index "
    "sinks; encoder/decoder bit-field table agreement; loop-exit => length postcondition; allocation-size obligations; axis roles for the kernel decomposition",
    "Decides clauses a-f of DESIGN.md 4/C07 on the program that ships: every path from the exported encode entries to a `x[value + 256]` table index "
    "passes a rejecting -255..255 check (F2 found and fixed); encoder and decoder agree on the 14 field names, widths, header order and inverse biases and "
    "DIROFS cannot overflow its 5 bits; the returned length is the bit cursor / 8 after padding to 128 bits; the zero-run buffer holds size + 1 entries "
    "(F3 found and fixed), the reorder buffer grows before it overflows, allocations are tested; sub-kernel decomposition uses the dilation of its own "
    "axis. Does NOT decide round-trip equality, traversal order, output-buffer sufficiency or general UB.",
    "Trusted: clang's parse; CPython CFLAGS contain -DNDEBUG unless setup.py undefines it; recognised source idioms of mlw_encode.c (macro arguments are matched on source text).",
    "DESIGN.md section 4, C07",
)


# clauses added after the second round of seeded changes: (technique suffix, level-text suffix)
ADDENDA = {
    "C02": ("; layout-order rule on shape unpackings; configuration inheritance (shared with C18-b)",
            " Also: the memory mode / arena cache size bounding the regions come from the selected section (h = C18-b); 4-element shape unpackings of the rewrites name dimensions in layout order (i)."),
    "C03": ("; buffer-index agreement; producer-identity guard of the cascade interleaving",
            " Also: weight buffer k is sized double_buffer_sizes[k]; the rows-present box of a cascade consumer grows only on stripes of its own producer's pass."),
    "C04": ("; interpretation of RangeSet.intersects over all endpoint order types of short start-sorted lists; normalised SHRAM range extents; linear-form check of the first-job sub-kernel limit",
            " Also: intersects() never answers False for an overlapping pair of lists of <= 2 (thorough <= 3) ranges, for every order type of the endpoints; the SHRAM write range covers every bank the path may use and the LUT read range is the LUT slot; the first job's input volume covers the whole dilated kernel."),
    "C07": ("; encoder / decoder chunk-geometry expressions evaluated from the clang AST and compared as functions; conversion-flag rule; cache-key clause shared with C08-h",
            " Also: max_symbols / z_unary_len / balance / z_enable agree as functions on both codec sides; the exported entry converts without FORCECAST; a cached stream is keyed by the block depth it was reordered for (g = C08-h)."),
    "C08": ("; key-component provenance; slice-list / tensor pairing per block; empty stream for a core without range",
            " Also (h-j): block_depth = min(requested, OFM depth read like the encoder reads it); every (re)definition of the chosen weight tensor is paired with the slice list it was encoded with; a present core without a range is programmed with length 0."),
    "C09": ("; interpretation of round_away_zero on ties; guard of the simplified add/sub scaling; accessor agreement of the scale-record key",
            " Also (d, e): rounding is half away from zero; the 8-bit equal-scale add/sub leaves the reference derivation only when (multiplier & 0xFFF) == 0; the scale-record cache key reads ifm / ofm scale with the accessors the derivation uses."),
    "C10": ("; inferred local axes in create_padding; scan domain of the even-stripe decision",
            " Also: create_padding compares width-axis quantities only; the even-stripe decision scans every op of the cascade (e)."),
    "C11": ("; option-table naming against BuiltinOptions; slot-wise clone; CFG gate-per-rewrite",
            " Also: an operator with a same-named option table is written with exactly that table; QuantizationParameters.clone copies slot for slot; the run_on_npu / rewrite_unsupported gate is re-evaluated before every single rewrite (f)."),
    "C12": ("; variable-tensor live range; whole-list marker test; operand order vs the driver ABI",
            " Also (e, f): variable tensors live from 0 to the end of the inference; outputs are never moved to fast storage; fixed operands are [command stream, flash, scratch, fast scratch]."),
    "C13": ("; CFG-discriminated guards for optional dereferences in rewrites exposed to rejected operators and for single-argument max()/min(); None-tolerant report code; shift guard shared with C09-a",
            " Also (g-j): rewrites that visit rejected operators never dereference an optional attribute unguarded; empty-sequence reductions are reached only under a discriminating test; the report tolerates absent operands; the shift handed to the packer is inside its asserted range."),
    "C14": ("; NumPy arrays and attribute aliases in the state inventory; read-before-write analysis of module-level instances",
            " Also: class-level arrays aliased into instances count as stores; module-level serializer objects carry no attribute from one use to the next (e)."),
    "C15": ("; call-argument axis agreement over all modules; enum-key / index mirror in granule tables",
            " Also: axis-named parameters receive values of their axis at every uniquely resolved call; granule tables read table[<their own key>]."),
    "C16": ("; helper-semantics rules named by the constraint texts",
            " Also (e): axis-indexed constraints normalise a negative axis; 'must match' is exact equality; an activation is folded only into an operator that runs on the NPU."),
    "C17": ("; payload-to-tensor identity in npu_serialisation; statelessness of the module",
            " Also (f, g): the command-stream tensor is exactly the payload (size and bytes); driver_actions keeps no state between calls."),
    "C19": ("; probe interpretation of the integer helpers against the C definitions; table-function identity by name or by interpretation; injective LUT identity",
            " Also: the doubling multiplies / rounding divide equal gemmlowp on sign x remainder-class probe grids (not over the whole domain); sigmoid / tanh / exp / sqrt tables are generated from the real function (1e-9 on probes); round_away_zero is half away from zero; the LUT equivalence id is keyed by the whole table."),
}
# clauses added after the third round (generic lints with reviewed exemption tables, shared clauses, derived rules)
ADDENDA3 = {
    "C02": "; IFM2 broadcast independence, aligned arena total and Transpose strides (j, partly shared with C06-c / C05-c)",
    "C03": "; derived comparison of the rows a stripe's IFM box claims with the rows reserved for it; unique identity of input clones written by decomposed operators; unrestricted write protection of multi-consumer inputs; clauses shared with C15-e and C12-d",
    "C04": "; None-skip loops; no memoisation of access-set builders (shared with C14-a)",
    "C05": "; duplicate-branch lint",
    "C06": "; truth tests of optional numeric fields; member-for-member copy families; module-wide axis homogeneity; independent IFM2 broadcast comparisons; zero-point register provenance by interpretation",
    "C07": "; output buffer bound and zero-run cursor contiguity evaluated from the clang AST; per-core encoder arguments (shared with C08-c); _xy / _hw unpack order",
    "C08": "; per-core encoder arguments; unconditional value_id refresh after an in-place filter rewrite; clauses shared with C07-f and C09-b",
    "C09": "; reduced form and rounding by interpretation; scale quotient direction over all modules; original-type selection of the float32 product; elision of scale registers (shared with C06-e)",
    "C10": "; required conjuncts of the cascadability guard; rolling-buffer storage shape; member families and module-wide axis homogeneity",
    "C11": "; element-type bit widths; quantifier and conjuncts of the slice-read fold; truth tests of optional numeric fields; None-skip loops; activation fusing (shared with C16-e)",
    "C12": "; duplicate-branch lint; aligned arena total (shared with C05-c)",
    "C13": "; tensor dimensions as np.int32 in the NEP-50 taint; guarded per-core range lookups; index-space agreement of cascade bounds; mutated-iteration and None-skip lints",
    "C14": "; grow-only compression cache; inline set iteration handed to other functions; graph / file name must not reach written names",
    "C15": "; exhaustive interpretation of the accumulator-type function over block type x IFM bits x scaling; recorded block provenance; traversal heuristic agreement with the weight compressor",
    "C16": "; module-wide axis homogeneity of the graph optimiser (NHWC index conventions); positional option order of optimise_graph; verdict accumulation inside looping constraints",
    "C17": "; stream size by interpretation; accelerator map rows (shared with C15-c); CLI option plumbing (shared with C18-c)",
    "C18": "; literal in place of a CLI option inside main(); cwd-independent configuration directory; default round trip of enum-valued keys (shared with C13-b)",
    "C19": "; polynomial pairing of quantised codes with their zero points; shift guard / use agreement",
}
ADDENDA4 = {
    "C02": "; weight-buffer reservation vs the slices copied into each buffer (single-buffer case: largest slice of all)",
    "C03": "; write-protection test on every reuse branch of _get_ifm_to_fuse; skirt as polynomials; convert_pad tiling",
    "C04": "; argument / parameter role stems at call sites; LUT guard dominance",
    "C05": "; dominance of get_or_create_range",
    "C06": "; rescale precedence; clauses shared with C15-e, C04-a, C10-d",
    "C07": "; malloc element count (helpers inlined, sizeof evaluated from the clang AST) vs unconditional constant-index stores, with early-return guards and caller reachability up to exported functions",
    "C08": "; value_id refresh after every attribute-dependent in-place rewrite of an existing weight tensor; per-core DMA source under core == 0",
    "C09": "; ExplicitScaling index pairing of the squared-difference lowering",
    "C10": "; minimal-schedule even stripes from the op's own resampling; producer / consumer stems at rolling_buffer_shape",
    "C11": "; positional operands, reversed Prepend loops, order-preserving output list; operator-code key components in registration and lookup; mutation-free rewrites before the supported-operator check; hoisting test quantified over all pass inputs",
    "C12": "; clauses shared with C03-f and C11-b",
    "C13": "; typestate of non-constant operands over the interpreted constraint registration order (paths explored under values = None); array-valued quantisation fields as truth values; absent flatbuffer vectors; element types admitted by constraints vs the LUT dispatch; restricted-domain functions; reshape element counts as polynomials; stale cached extents by reaching definitions; Python int constants outside int32 meeting tensor dimensions",
    "C14": "; cache keys unique to one compilation or reset at every entry point (memoised value ids enumerated); uninitialised allocations; ordering methods and sort keys over identity-ordered values",
    "C15": "; scheduler / generator scalar predicate; freshness of the public query's result (no process-wide memo); clause shared with C10-d",
    "C16": "; attributes read by constraints are delivered by the option table of the operators they are registered for; exact-equality recogniser; clause shared with C11-d",
    "C17": "; parameter purity of create_driver_payload; per-core SHRAM size as a polynomial",
    "C18": "; by-value enum defaults under the current numbering; construction sites of the i.MX93 architecture subclass",
    "C19": "; tie probes of the 16-bit multiplier; softmax table boundary; log(0) stand-in value; nested table helpers interpreted",
}
ADDENDA5 = {
    "C02": "; typestate over the pass pipeline (operator OFM shape vs the tensor of a bypassed Reshape, followed through calls); must-pass-through comparison of the published allocator total with the memory type's hard limit; slice folding only into consumers with the slice's view; tile-padding grid evaluation; flag / stem lints",
    "C03": "; clauses shared with C02-m and C02-k (operator view after the Reshape bypass, slice folding); LUT index unit agreement",
    "C04": "; tile selection conditions as canonical comparisons; fast-path premise of intersects() against the field set read by the address functions",
    "C05": "; per-range alignment of LinearAlloc addresses; exact-total rule; None tests on optional ranges",
    "C06": "; sibling flag consistency; pooling scale register fit (shared with C09-h)",
    "C07": "; unconditional end-of-stream emission; swapped-argument lint at the C / Python boundary",
    "C08": "; value_id refresh expressions contain the shape when the memo key is a value tuple",
    "C09": "; interpretation of generate_ofm_scaling_for_pooling on a window x ratio grid (register fit and denoted value); NEP 50 float32 taint of the add / sub derivation and of products with the 31-bit pooling divisor, per branch",
    "C10": "; whole-function interpretation of Box.transform_with_strides_and_skirt on a slice-window grid; proposed stripe heights vs the last operator's own upscaling factor; call-argument axis agreement",
    "C11": "; shared-array discipline for quantisation vectors; no renaming of source tensors; restore of reader-overwritten option members for every written operator; emptiness test of the quantisation record over all members read; READ_VARIABLE hoisting vs ASSIGN_VARIABLE",
    "C12": "; metadata records rebuilt on every write; subgraph references resolved for every control-flow operator; re-entered subgraphs marked live at each call site",
    "C13": "; conditionally assigned locals read outside their condition; int() of possibly 1-D operand values; PACK / UNPACK axis normalisation by rank algebra; cross-indexed operand loops; subscripts of scalar quantisation fields; None passed to dereferencing wiring methods; constness constraint for every operand role the encoder reads; clause shared with C02-m",
    "C14": "; mutation of shared module-level tables; total order of sorted sets of tuples; list(set) materialisation",
    "C15": "; hardware constant table; binding stems; query freshness",
    "C16": "; conditional constraints consult their condition and say so in their text; (w, h) getter unpacking; fusion requires the absorbed operator to be on the NPU",
    "C17": "; size check after the last emission; wrapper delegation; chunk range",
    "C18": "; faithful model of os.path.normpath in the configuration path interpretation; a selection reads its own default",
    "C19": "; rounding mode of QUANTIZE folding; zero constants under zero point 0; x_real polynomials",
}
ADDENDA6 = {
    "C02": "; interpretation of generate_weights for one and two cores (idle core windows); H x W = batch for every row of the batched fully-connected table; per-parity maxima of the weight double buffers",
    "C03": "; memcpy elision requires agreement in every field the DMA reads",
    "C04": "; SHRAM bank constants (shared with C15-c); wait commands carry their own counter",
    "C05": "; HillClimb abort / acceptance consistency and sentinel start value",
    "C06": "; structural model of the RegisterMachine (elision test, one bank); shift range of quantise_scale; stride multiples per layout",
    "C07": "; integral-conversion aware evaluation of the list-interface range check; statement execution (c_exec) of the sub-kernel padding; zero-run search space constant",
    "C08": "; forced / fused output quantisation precedence; argument order of the public encode wrapper by parameter names",
    "C09": "; concrete interpretation of quantise_scale on significands that round up (multiplier below 2^31, value kept); clones shared across loop iterations; exact scaling equality; feature map / quantisation pairing",
    "C10": "; rolling-buffer addressing from the tensor's own storage shape; effect order of the statements that create a rolling buffer; side agreement of tile base offsets",
    "C11": "; rewrites ahead of placement act only on placed operators (default rewrite_unsupported, run_on_npu guards, trial clones); element type of folded constants; quantifier binding stems",
    "C12": "; address maps cleared by every entry point; CPU passes list every output",
    "C13": "; propositional facts of enclosing tests for `<dim> - 1` divisors; stale OFM aliases across a call that replaces the OFM; agreement of the bias range a constraint accepts with the range the encoder packs",
    "C14": "; interpreter settings set unconditionally by every entry point",
    "C15": "; SHRAM constants and available_shram_banks evaluated for 16 / 24 / 48 banks",
    "C16": "; placement side of the pre-placement rewrite rule (shared with C11-m); all-consumers quantifier of slice folding",
    "C17": "; operand order of the custom operator's memory tensors between writer and raw-data reader",
    "C18": "; conversions of values read from the configuration file are guarded and reported as configuration errors (followed into helpers); every read goes through _read_config",
    "C19": "; table generators widen both scales before the product",
}
ADDENDA7 = {
    "C02": "; register / operand agreement of the emitter helpers; origin of the zero constant's shape in convert_resize_1x1_to_add",
    "C03": "; reachability over the pass-packing automaton (test_sequence); single activation slot (overwrite guarded at either site); byte extents of LUT residency; LUT reload per stripe; constant operand copy conditions",
    "C04": "; backward slice of the emitted BLOCKDEP to calc_blockdep",
    "C05": "; typestate of per-trial fields across an early-exit trial loop (HillClimb)",
    "C06": "; must-pass-through of zero-point emissions on the emitter CFGs; shared SHRAM partition and register / operand rules",
    "C07": "; clang-AST types of stride arithmetic in get_brick_weight; c_eval of the lane guard of reorder on probe lanes",
    "C08": "; rewrite order of fixup_bias_tensors vs the weight-axis rewrites; completeness of Operation.clone over the class slots",
    "C09": "; positional field order of ExplicitScaling by operand names; folded clamp constant of the softmax input multiplier; all-sides test of the global pooling divisor",
    "C10": "; interpretation of transform_with_strides_and_skirt on stripes of explicitly padded operators and of needed_total_padding on a grid; axis-named locals",
    "C11": "; in-place mutation of tensor-owned shape lists / value arrays through bare aliases (branch-aware); unconditional Add of serialised option members",
    "C12": "; one time slot per cascade; shared buffer-size rules",
    "C13": "; shared HillClimb, clone, stale-loop-variable rules; parameter-named positional arguments; operand coverage of the CPU pass move test",
    "C14": "; ambient inputs: clock values only printed, file-system state only guards errors",
    "C15": "; conjunct set of the Conv1D accumulator halving; derived shapes in the scheduler",
    "C16": "; truth tables of trial guards (semantic valid x supported); placement test of MemoryOnly passes; stale loop variables",
    "C17": "; evaluation of the length guard on probe lengths; Prep(16) alignment of written buffers",
    "C18": "; shape of membership comparators (IntFlag containment); name-derived inheritance in the bundled configuration",
    "C19": "; truth tests of addresses; element type of the reader's zero points",
}
ADDENDA8 = {
    "C03": "; containers of cloned operators are not shared; idle core windows",
    "C04": "; member forwarding of to_kernel against both constructors' parameter lists",
    "C05": "; closed usage intervals (only end < start is empty)",
    "C06": "; width of the IFM2_SCALAR field (finding F115)",
    "C07": "; clang-AST element types of typed allocations; parameter-named arguments of the C call into the encoder",
    "C08": "; per-core scale windows and accelerator map (borrowed); largest-slice size of the single weight buffer",
    "C09": "; rounding mode of the lowered average pool",
    "C11": "; numpy view rows of the tensor type table; accessor names of operand vectors; sort key of hoisted CPU passes",
    "C12": "; truth tests over consumer lists; CPU rows of the pass-packing automaton; variable tensors excluded from in-place reuse; intermediates of CPU cascaded passes",
    "C13": "; quantifier of the scale check; must-append on every path of the buffer loop; member order of debug-database pairs; optional option members, quantisation records and operand slots read under a test",
    "C14": "; re-binding of module-level names in functions",
    "C15": "; block configuration of the applied schedule; interpretation of _ifm_blockdepth; one-sided swapped arguments",
    "C16": "; type coverage of the SOFTMAX lowering; element count in is_per_axis; semantic checker on every reader path",
    "C18": "; relabelled port of Sram-only modes; number conversion; documented bandwidths of the bundled configuration",
    "C19": "; shared quantisation records and numpy view rows (borrowed)",
}
ADDENDA12 = {
    "C02": "; LUT placement step is the table's own storage size",
    "C03": "; numeric locals inlined before the buffer parity is folded",
    "C06": "; to_upscale interpreted per enum member; quantise() interpreted with a recording stub",
    "C07": "; power-of-two boundary histograms for the executed create_palette; clipped block depth evaluated; no narrowing conversion at the weight entry points (expected count 0, matcher exercised)",
    "C09": "; declared-type conjuncts of the reduced-scaling selector; division (not reciprocal) in the QUANTIZE folding",
    "C16": "; constraint_tconv_valid folded on a grid against the kernel's output extent",
    "C18": "; single group read of the configuration files; repeatable --config declaration",
    "C19": "; zero point outside the rounding of 8-bit table entries (finding F138)",
}
for _pid, _t12 in ADDENDA12.items():
    _tech, _text, _note, _ref = CLAIMS[_pid]
    CLAIMS[_pid] = (_tech + _t12, _text, _note, _ref)
ADDENDA11 = {
    "C02": "; is_standard_fm condition on every use of the operator-derived storage shape",
    "C03": "; cost / estimate table pairing in build_cascades; operand index agreement in create_feature_map calls; a PAD becomes a concatenation only with a single padded axis (finding F133)",
    "C04": "; available_shram_banks interpreted on a grid",
    "C05": "; set_address argument and early returns of the Greedy gap scan",
    "C06": "; 40-bit emission form of the DMA registers (reviewed table)",
    "C07": "; create_palette executed on the clang AST (qsort through the unit's comparator); ifm_block_depth initialiser evaluated",
    "C08": "; direct offset bound (borrowed); inserted weight taps are the zero point (finding F136)",
    "C09": "; default-only assignment of the bias type; vacuous comparison lint (expected count 0, matcher exercised); TOSA reciprocal numerator folded; int32 bias of average pool lowerings (finding F130)",
    "C10": "; (width, height) getter unpackings package-wide",
    "C11": "; reader / writer agreement on the identity of an Ethos-U operator (finding F137)",
    "C12": "; expression and unit of the console's total-memory line",
    "C13": "; rank typestate over the constraint registration order (finding F131); flattened receiver of byte views; per-axis guard before scalar use of scales in pre-check passes (finding F135)",
    "C14": "; mutable default arguments (expected count 0, matcher exercised)",
    "C15": "; operand stems of shape constructions; _ew_usage interpreted with unknown extra arguments; query / generator predicate agreement (finding F132)",
    "C16": "; operand stems of loop variables (8 loops, no exception)",
    "C17": "; dominance of the command-stream action over the return; object keys of the writer's tensor table",
    "C18": "; walk order of the configuration file list; converters return the conversion of the given text or raise",
    "C19": "; reviewed table of additions on caller-typed value operands; argument forwarding of finite_lut_value; saturation before quantise_scale in the softmax table; decisions on the real value of quantised constants (finding F134)",
}
for _pid, _t11 in ADDENDA11.items():
    _tech, _text, _note, _ref = CLAIMS[_pid]
    CLAIMS[_pid] = (_tech + _t11, _text, _note, _ref)
ADDENDA10 = {
    "C02": "; operator-view comparison of the brick-format restriction (vacuous comparisons); memory-only predicate folded for Op.Memcpy; trailing rank cut of the per-format NHWC tables; one operand index per branch of the slice-read move",
    "C03": "; access-set coverage of IFM2 and LUT block dependency (borrowed); merge precedence when an optimised sub-schedule is adopted",
    "C04": "; queue depths of the wait model (single writer, literals per accelerator family)",
    "C05": "; parallel stores into the HillClimb turn order simulated over all aliasing patterns; order-preserving writers of the Greedy allocation list; address reads off the call's own visited list",
    "C06": "; no process-wide memo in the command stream modules (borrowed state inventory); operand-order bit decided on every path",
    "C07": "; clang-AST nesting of the two slice cursors; operator type of the stride division in the wrapper",
    "C08": "; encode_bias interpreted through slice stores and int.to_bytes; guard / member agreement of per-group quantisation slices; provenance of the weight buffer size argument (dominating definitions inlined)",
    "C09": "; CFG must-pass of an int32 bias after every average pool lowering (finding F130); element (not converted value) returned by the reader's scalar helper",
    "C10": "; candidate stripe heights evaluated on a grid; Box.wrap interpreted on probes; axis roles of the padding helpers",
    "C11": "; placement-blind passes before the supported-operator check (finding F129); walk order of the interface index vectors; clone completeness (borrowed)",
    "C12": "; brick-format restriction (borrowed); shape behind the exchanged strides of TRANSPOSE",
    "C13": "; None-hole lint through enumerate and carrier tuples; finite clamp literals of the table stand-in",
    "C14": "; in-place writes through self to class-level containers; enumerate position before the object in tuple sort keys",
    "C15": "; conjunct sets guarding the SHRAM layout registers",
    "C16": "; operands examined per generic constraint resolved through accessor bodies and operand index tables (finding F128); NHWC attribute tuple order; same-operator type / placement guards; polarity-aware both-axes conditions",
    "C17": "; per-iteration provenance of the memory tensors wired to an Ethos-U operator; buffer index / sharing key of the writer",
    "C18": "; accelerator-only tests of the internal defaults; selections stored verbatim",
    "C19": "; folded constants of the int16 table generator; no process-wide memo in the table modules (borrowed)",
}
for _pid, _t10 in ADDENDA10.items():
    _tech, _text, _note, _ref = CLAIMS[_pid]
    CLAIMS[_pid] = (_tech + _t10, _text, _note, _ref)
for _pid, _t8 in ADDENDA8.items():
    _tech, _text, _note, _ref = CLAIMS[_pid]
    CLAIMS[_pid] = (_tech + _t8, _text, _note, _ref)
for _pid, _t7 in ADDENDA7.items():
    _tech, _text, _note, _ref = CLAIMS[_pid]
    CLAIMS[_pid] = (_tech + _t7, _text, _note, _ref)
for _pid, _t6 in ADDENDA6.items():
    _tech, _text, _note, _ref = CLAIMS[_pid]
    CLAIMS[_pid] = (_tech + _t6, _text, _note, _ref)
for _pid, _t5 in ADDENDA5.items():
    _tech, _text, _note, _ref = CLAIMS[_pid]
    CLAIMS[_pid] = (_tech + _t5, _text, _note, _ref)
for _pid, _t4 in ADDENDA4.items():
    _tech, _text, _note, _ref = CLAIMS[_pid]
    CLAIMS[_pid] = (_tech + _t4, _text, _note, _ref)
for _pid, _t3 in ADDENDA3.items():
    _tech, _text, _note, _ref = CLAIMS[_pid]
    CLAIMS[_pid] = (_tech + _t3, _text, _note, _ref)
for _pid, (_t, _x) in ADDENDA.items():
    _tech, _text, _note, _ref = CLAIMS[_pid]
    CLAIMS[_pid] = (_tech + _t, _text + _x, _note, _ref)


def build():
    checks = []
    for pid in sorted(CLAIMS):
        tech, text, note, ref = CLAIMS[pid]
        checks.append(
            {
                "property_id": pid,
                "quick_cmd": f"python3 -m velacheck {pid} --tier quick",
                "thorough_cmd": f"python3 -m velacheck {pid} --tier thorough",
                "evidence_file": f"/verif/evidence/{pid}.json",
                "replay_cmd_template": f"python3 -m velacheck {pid} --replay {{path}}",
                "engine": "velacheck",
                "level_claimed": {"category": "other", "text": text, "design_ref": ref},
                "level_note": note,
                "technique": "static analysis: " + tech,
            }
        )
    na = [{"property_id": p, "reason": r} for p, r in sorted(NOT_APPLICABLE.items())]
    man = {
        "version": 1,
        "setup_cmd": "true",
        "hooks": {
            "guard": "ETHOS_U_VELA_VERIF",
            "enable": "none needed: the checks parse /repo's working tree; no instrumentation exists",
            "baseline_off_cmd": "cd /repo && /venv/bin/python -m pytest -ra -q -p no:cacheprovider --timeout=900 --continue-on-collection-errors",
            "source_commits": [],
            "add_only": True,
        },
        "engines": [
            {
                "name": "velacheck",
                "path": "/verif/velacheck",
                "serves_properties": sorted(CLAIMS),
                "kind_free_text": "repository-specific static analyser (stdlib ast; statement CFG with dominators and reaching "
                "definitions; literal const-folding; bit-provenance / residue / order abstract interpreters over extracted ASTs; "
                "clang JSON AST for the C codec); nothing from /repo is imported or executed",
            }
        ],
        "checks": checks,
        "not_applicable": na,
        "notes": "Each check decides only the clauses named in its level text (see DESIGN.md 1.6); value-level clauses are listed "
        "as not decided in the evidence. exit 2 + ANALYSIS-ERROR = analyser cannot recognise the code (never a verdict).",
    }
    with open(os.path.join(VERIF, "MANIFEST.json"), "w") as f:
        json.dump(man, f, indent=1)
        f.write("\n")
    return man


if __name__ == "__main__":
    import sys

    sys.path.insert(0, VERIF)
    pending = os.path.join(VERIF, "velacheck", "pending.json")
    if os.path.isfile(pending):
        for p, r in json.load(open(pending)).items():
            if p not in CLAIMS:
                NOT_APPLICABLE[p] = r
    m = build()
    print("claimed:", [c["property_id"] for c in m["checks"]], "n/a:", [x["property_id"] for x in m["not_applicable"]])

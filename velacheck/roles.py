"""Axis / side role homogeneity (a units-of-measure discipline decided from
names). Every leaf of an additive / min / max / comparison expression, and
the target of an axis-named assignment or keyword, gets an axis in
{H, W, C}; all axis-typed leaves of one such expression must agree. Products
and quotients are opaque (areas, element counts). Sides top/bottom belong to
H, left/right to W."""
import ast
import re

from .astutil import call_name, dotted, norm

AXIS_OF_WORD = {
    "x": "W", "width": "W", "w": "W", "left": "W", "right": "W", "col": "W", "cols": "W",
    "y": "H", "height": "H", "h": "H", "top": "H", "bottom": "H", "row": "H", "rows": "H",
    "z": "C", "depth": "C", "c": "C", "channel": "C", "channels": "C",
}
# full-word attribute names (exact) that carry an axis
ATTR_AXIS = {
    "x": "W", "y": "H", "z": "C", "width": "W", "height": "H", "depth": "C", "left": "W", "right": "W", "top": "H",
    "bottom": "H", "stride_x": "W", "stride_y": "H", "dilation_x": "W", "dilation_y": "H", "width_0": "W", "height_0": "H",
    "height_1": "H", "pad_top": "H", "pad_bottom": "H", "pad_left": "W", "pad_right": "W",
    "top_pad": "H", "bottom_pad": "H", "left_pad": "W", "right_pad": "W", "kernel_height": "H", "kernel_width": "W",
}
SIDE_WORDS = {"top", "bottom", "left", "right"}


def name_axis(name):
    """Axis of an identifier by its trailing token(s): coord_x, ifm_coord_y,
    start_height, end_width, xpad ... (conservative: only clear suffixes)."""
    if name in ATTR_AXIS:
        return ATTR_AXIS[name]
    toks = name.lower().split("_")
    if len(toks) == 2 and toks[0] in ("kernel", "stride", "dilation", "filter", "pad", "padding", "upscale") and toks[1] in ("h", "w"):
        return "H" if toks[1] == "h" else "W"
    if len(toks) >= 3 and toks[-1] in ("h", "w") and toks[-2] in ("input", "input2", "output", "ifm", "ifm2", "ofm", "stripe", "block", "kernel", "stride"):
        return "H" if toks[-1] == "h" else "W"  # stripe_input_h, ifm_block_w, ...
    for t in (toks[-1],):
        if t in ("x", "y", "z", "width", "height", "depth", "top", "bottom", "left", "right"):
            return AXIS_OF_WORD[t]
    if toks[0] in ("width", "height", "depth") and len(toks) <= 2 and (len(toks) == 1 or toks[1].isdigit() or toks[1] in ("blocks",)):
        return AXIS_OF_WORD[toks[0]]
    return None


class RoleChecker:
    def __init__(self, index_conventions=None, call_axis=None, name_axes=None):
        # index_conventions: {base-name regex: {index: axis}} for subscripts such as ofm_coord[1]
        self.index_conventions = [(re.compile(k), v) for k, v in (index_conventions or {}).items()]
        self.call_axis = call_axis or {}
        self.name_axes = name_axes or {}

    def leaf_axis(self, node):
        if isinstance(node, ast.Attribute):
            a = ATTR_AXIS.get(node.attr)
            if a:
                return a
            return None
        if isinstance(node, ast.Name):
            if node.id in self.name_axes:
                return self.name_axes[node.id]
            return name_axis(node.id)
        if isinstance(node, ast.Subscript):
            base = norm(node.value)
            idx = node.slice
            if isinstance(idx, ast.UnaryOp) and isinstance(idx.op, ast.USub) and isinstance(idx.operand, ast.Constant):
                i = -idx.operand.value
            elif isinstance(idx, ast.Constant) and isinstance(idx.value, int):
                i = idx.value
            else:
                return None
            for rx, conv in self.index_conventions:
                if rx.search(base):
                    return conv.get(i)
            return None
        if isinstance(node, ast.Call):
            cn = call_name(node)
            if cn:
                last = cn.split(".")[-1]
                if last in self.call_axis:
                    return self.call_axis[last]
                if last in ("area_width",):
                    return "W"
                if last in ("area_height",):
                    return "H"
            return None
        return None

    def axes(self, node, out=None):
        """Axis-typed leaves [(axis, text)] of an additive expression; products
        and quotients are opaque unless exactly one factor is axis-typed and
        the others are stride / dilation / upscale factors of the same axis
        or untyped."""
        out = [] if out is None else out
        if isinstance(node, ast.BinOp) and isinstance(node.op, (ast.Add, ast.Sub)):
            self.axes(node.left, out)
            self.axes(node.right, out)
        elif isinstance(node, ast.BinOp) and isinstance(node.op, (ast.Mult, ast.FloorDiv, ast.Div, ast.Mod)):
            sub = []
            self.axes(node.left, sub)
            self.axes(node.right, sub)
            kinds = {a for a, _ in sub}
            if len(kinds) == 1:
                out.extend(sub)
            elif any("stride" in t or "dilation" in t for _, t in sub):
                # a coordinate scaled by the stride / dilation of another axis is never an area: keep the leaves
                out.extend(sub)
            # other mixed-axis products: an area / count -> opaque
        elif isinstance(node, ast.UnaryOp):
            self.axes(node.operand, out)
        elif isinstance(node, ast.Call) and call_name(node) in ("max", "min", "abs", "int", "round_up", "round_up_divide", "numeric_util.round_up",
                                                                "numeric_util.round_up_divide", "round_up_to_int", "clamp"):
            a = self.leaf_axis(node)
            if a:
                out.append((a, norm(node)))
            else:
                # round_up(x, quantum): a quantum that names an axis (ublock.height) belongs to x's axis as well
                for arg in node.args:
                    self.axes(arg, out)
        elif isinstance(node, ast.IfExp):
            self.axes(node.body, out)
            self.axes(node.orelse, out)
        else:
            a = self.leaf_axis(node)
            if a:
                out.append((a, norm(node)))
        return out

    def check_function(self, func):
        """Yields (kind, construct text, detail) for every inhomogeneous
        additive expression / comparison / axis-named binding in func; and
        counts homogeneous ones via ('ok', text, '')."""
        for n in ast.walk(func):
            if isinstance(n, (ast.Assign, ast.AnnAssign, ast.AugAssign)):
                tgts = n.targets if isinstance(n, ast.Assign) else [n.target]
                val = n.value
                if val is None:
                    continue
                for t in tgts:
                    ta = self.leaf_axis(t)
                    if ta is None:
                        continue
                    leaves = self.axes(val)
                    if not leaves:
                        continue
                    bad = [(a, s) for a, s in leaves if a != ta]
                    txt = norm(n)
                    if bad:
                        yield ("bad", txt, f"{norm(t)} is a {ta}-axis quantity but its value uses {', '.join(f'{s} ({a})' for a, s in bad)}")
                    else:
                        yield ("ok", txt, "")
            elif isinstance(n, ast.keyword) and n.arg and ATTR_AXIS.get(n.arg):
                ta = ATTR_AXIS[n.arg]
                leaves = self.axes(n.value)
                if leaves:
                    bad = [(a, s) for a, s in leaves if a != ta]
                    txt = f"{n.arg}={norm(n.value)}"
                    if bad:
                        yield ("bad", txt, f"keyword {n.arg} is a {ta}-axis quantity but its value uses {', '.join(f'{s} ({a})' for a, s in bad)}")
                    else:
                        yield ("ok", txt, "")
            elif isinstance(n, ast.Compare) and len(n.ops) >= 1 and all(isinstance(o, (ast.Eq, ast.NotEq, ast.Lt, ast.LtE, ast.Gt, ast.GtE)) for o in n.ops):
                if len(n.ops) > 1 and any(isinstance(x, ast.Constant) for x in [n.left] + n.comparators):
                    continue  # `a.height == a.width == 1`: every operand is compared with the constant
                leaves = self.axes(n.left)
                for cmp_ in n.comparators:
                    leaves = leaves + self.axes(cmp_)
                kinds = {a for a, _ in leaves}
                if len(leaves) >= 2:
                    txt = norm(n)
                    if len(kinds) > 1:
                        yield ("bad", txt, "comparison mixes axes: " + ", ".join(f"{s} ({a})" for a, s in leaves))
                    else:
                        yield ("ok", txt, "")


def infer_local_axes(func, rc):
    """Axis of un-named locals from what is assigned to them: {name: {axes}} over all plain assignments whose value
    has axis-typed leaves (constants carry no axis). A local with exactly one inferred axis can then be used as a
    typed leaf (rc.name_axes); one with several is itself an inhomogeneity."""
    out = {}
    for n in ast.walk(func):
        if isinstance(n, ast.Assign) and len(n.targets) == 1 and isinstance(n.targets[0], ast.Name) and name_axis(n.targets[0].id) is None:
            kinds = {a for a, _ in rc.axes(n.value)}
            if kinds:
                out.setdefault(n.targets[0].id, set()).update(kinds)
    return out

"""Kill table for the self-test: (property, file, old text, new text, expected exit). expected 1 = the check must
report a violation naming the mutated construct; 0 = behaviour-preserving (or more conservative) variant that must
stay silent."""
G = "ethosu/vela/register_command_stream_generator.py"
U = "ethosu/vela/register_command_stream_util.py"
DA = "ethosu/vela/driver_actions.py"
HC = "ethosu/vela/hillclimb_allocation.py"
GA = "ethosu/vela/greedy_allocation.py"
TA = "ethosu/vela/tensor_allocation.py"
LR = "ethosu/vela/live_range.py"
AA = "ethosu/vela/architecture_allocator.py"
SC = "ethosu/vela/scaling.py"
HS = "ethosu/vela/high_level_command_stream.py"
HG = "ethosu/vela/high_level_command_stream_generator.py"
HN = "ethosu/vela/high_level_command_to_npu_op.py"
WC = "ethosu/vela/weight_compressor.py"
GO = "ethosu/vela/tflite_graph_optimiser.py"
FP = "ethosu/vela/fp_math.py"
ENC = "ethosu/mlw_codec/mlw_encode.c"
DEC = "ethosu/mlw_codec/mlw_decode.c"
AF = "ethosu/vela/architecture_features.py"
VP = "ethosu/vela/vela.py"
CB = "ethosu/vela/cascade_builder.py"
TW = "ethosu/vela/tflite_writer.py"
TM = "ethosu/vela/tflite_mapping.py"
SO = "ethosu/vela/tflite_supported_operators.py"

MUTANTS = [
    # C17
    ("C17", DA, "num_nops = 4 - ((len(data) + 1) % 4)", "num_nops = 3 - ((len(data) + 1) % 4)", 1),
    ("C17", DA, "num_nops = 4 - ((len(data) + 1) % 4)", "num_nops = 3 - (len(data) % 4)", 0),
    ("C17", DA, ">= 1 << 24", "> 1 << 24", 1),
    ("C17", DA, "if len(register_command_stream) >= 1 << 24:", "if 4 * len(register_command_stream) >= 64 * 2**20:", 0),
    ("C17", DA, "0x00FF0000) >> 16", "0x00FF0000) >> 15", 1),
    ("C17", DA, "tag |= param << 16", "tag |= param << 15", 1),
    ("C17", DA, 'struct.pack("<{0}I"', 'struct.pack(">{0}I"', 1),
    ("C17", DA, "n.set_product(1)", "n.set_product(0)", 1),
    ("C17", DA, "int(np.log2(macs_cc) + 0.5)", "int(np.log2(macs_cc)+1)", 1),
    ("C17", DA, "int(np.log2(macs_cc) + 0.5)", "int(np.log2(macs_cc))", 0),
    ("C17", DA, "length_low = length & 0x0000FFFF", "length_low = length & 0x00007FFF", 1),
    ("C17", DA, "da_list.extend(register_command_stream)", "da_list.extend(register_command_stream); da_list.append(0)", 1),
    # C06
    ("C06", G, "emit.cmd0_with_param(cmd0.NPU_SET_OFM_HEIGHT_M1, ofm.shape.height - 1)", "emit.cmd0_with_param(cmd0.NPU_SET_OFM_HEIGHT_M1, ofm.shape.width - 1)", 1),
    ("C06", G, "emit.cmd0_with_param(cmd0.NPU_SET_OFM_WIDTH_M1, ofm.shape.width - 1)", "emit.cmd0_with_param(cmd0.NPU_SET_OFM_WIDTH_M1, ofm.shape.width)", 1),
    ("C06", G, "emit.cmd0_with_param(cmd0.NPU_SET_IFM_PAD_BOTTOM, padding.bottom)", "emit.cmd0_with_param(cmd0.NPU_SET_IFM_PAD_BOTTOM, padding.top)", 1),
    ("C06", G, "prec += activation_precision << 2", "prec += activation_precision << 1", 1),
    ("C06", G, "prec |= rounding_mode_map[npu_op.rounding_mode] << 14", "prec |= rounding_mode_map[npu_op.rounding_mode] << 13", 1),
    ("C06", G, "NpuElementWiseOp.MIN: elementwise_mode.MIN.value", "NpuElementWiseOp.MIN: elementwise_mode.MAX.value", 1),
    ("C06", G, "    NpuRoundingMode.NATURAL: rounding.NATURAL.value,\n", "", 1),
    ("C06", G, "stride |= (kernel.stride_y - 1 >> 1) << 9", "stride |= (kernel.stride_y - 1 >> 1) << 8", 1),
    ("C06", G, "stride |= (kernel.dilation_x - 1) << 3", "stride |= (kernel.dilation_y - 1) << 3", 1),
    ("C06", G, "            check_length(weights[core].length, 16)\n", "", 1),
    ("C06", G, "emit.cmd_do_operation(cmd0.NPU_OP_STOP, param=0xFFFF)\n    res = emit.to_list()", "res = emit.to_list()\n    emit.cmd_do_operation(cmd0.NPU_OP_STOP, param=0xFFFF)", 1),
    ("C06", G, "param = param & 0xFFFF\n        command = cmd.value | (param << 16)", "command = cmd.value | (param << 16)", 1),
    ("C06", G, "offset = int(offset) & 0xFFFFFFFF", "offset = int(offset) & 0x7FFFFFFF", 1),
    ("C06", G, "self.cmd1_with_offset(cmd, offset, offset >> 32)", "self.cmd1_with_offset(cmd, offset)", 1),
    ("C06", G, "emit.cmd1_with_address(cmd1.NPU_SET_DMA0_LEN, dma_op.src.length)", "emit.cmd1_with_address(cmd1.NPU_SET_DMA0_LEN, dma_op.dest.length)", 1),
    ("C06", G, "ifm2_broadcast |= IFM2Broadcast.BroadcastWdim", "ifm2_broadcast |= IFM2Broadcast.BroadcastHdim", 1),
    ("C06", G, "activation_value |= 3 << 12  # Force I8 range", "activation_value |= 2 << 12", 1),
    ("C06", G, "emit.cmd_do_operation(cmd0.NPU_OP_DEPTHWISE)", "emit.cmd_do_operation(cmd0.NPU_OP_CONV)", 1),
    ("C06", G, "generate_strides(emit, ifm2, cmd1.NPU_SET_IFM2_STRIDE_C, cmd1.NPU_SET_IFM2_STRIDE_Y, cmd1.NPU_SET_IFM2_STRIDE_X)",
     "generate_strides(emit, ifm2, cmd1.NPU_SET_IFM2_STRIDE_C, cmd1.NPU_SET_IFM2_STRIDE_X, cmd1.NPU_SET_IFM2_STRIDE_Y)", 1),
    ("C06", G, "    generate_biases(emit, npu_op.biases, arch)\n", "", 1),
    # C04
    ("C04", U, "if len(outstanding_npu_ops) > arch.max_outstanding_kernels:", "if len(outstanding_npu_ops) > arch.max_outstanding_dma:", 1),
    ("C04", U, "                kern_wait = waits\n", "                dma_wait = waits\n", 1),
    ("C04", U, "            for i in range(idx + 1):\n                outstanding_ops.pop(0)", "            for i in range(idx):\n                outstanding_ops.pop(0)", 1),
    ("C04", U, "    res.add(memory_range_set(dma_op.dest), AccessDirection.Write)", "    res.add(memory_range_set(dma_op.dest), AccessDirection.Read)", 1),
    ("C04", "ethosu/vela/range_set.py", "        # Output dependencies, or write -> write\n        if self.accesses[AccessDirection.Write].intersects(other.accesses[AccessDirection.Write]):\n            return True\n", "", 1),
    ("C04", U, "ifm_coord_x = max(0, ofm_coord[0] * kernel.stride.x - padding.left)", "ifm_coord_x = max(0, ofm_coord[0] * kernel.stride.y - padding.left)", 1),
    # C05
    ("C05", HC, "return self.address < addr2 + size2 and addr2 < self.end_address", "return self.address < addr2 + size2 and addr2 <= self.end_address", 0),
    ("C05", HC, "return self.address < addr2 + size2 and addr2 < self.end_address", "return self.address < addr2 + size2 - 1 and addr2 < self.end_address", 1),
    ("C05", HC, "lr2.end_address <= address:", "lr2.end_address <= address + 1:", 1),
    ("C05", HC, "address = numeric_util.round_up(lr2.end_address, lr.min_alignment)", "address = lr2.end_address", 1),
    ("C05", HC, "if new_size < self.best_size:", "if new_size <= self.best_size:", 1),
    ("C05", GA, "if lr.end_time < curr_time:", "if lr.end_time <= curr_time:", 1),
    ("C05", GA, "self.memory_required = max(self.memory_required, best_offset + aligned_size)", "self.memory_required = max(self.memory_required, best_offset)", 1),
    ("C05", TA, "total_sz = max(total_sz, address + lr.size)", "total_sz = max(total_sz, address)", 1),
    ("C05", TA, "total_sz += numeric_util.round_up(int(math.ceil(lr.size)), alloc_granularity)", "total_sz += int(math.ceil(lr.size))", 1),
    # C15
    ("C15", AA, "    if ifm_end > acc_start:\n        return None\n", "", 1),
    ("C15", AA, "if ifm2_start + ifm2_banks > acc_start:", "if ifm2_start > acc_start:", 1),
    ("C15", AA, "acc_banks = round_up_divide(acc_bytes, shram.bank_size_bytes) * 2", "acc_banks = round_up_divide(acc_bytes, shram.bank_size_bytes)", 1),
    ("C15", AA, "        acc_start = acc_start - acc_banks", "        acc_start = acc_start + acc_banks", 1),
    ("C15", AA, "blk > 0 and blk <= blk_max and blk % ublk == 0", "blk > 0 and blk % ublk == 0", 1),
    ("C15", AA, "    ifm_banks = round_up(ifm_banks, ifm_granule)\n", "", 1),
    ("C15", AA, "w1 = _required_size(\n        ofm_block.width, kernel.stride.x", "w1 = _required_size(\n        ofm_block.width, kernel.stride.y", 1),
    # C03
    ("C03", LR, "last_idx = len(op_info.ofm_depth_slices) % len(op_info.buffered_weight_tensors)", "last_idx = (len(op_info.ofm_depth_slices) - 1) % len(op_info.buffered_weight_tensors)", 1),
    ("C03", LR, "last_idx = len(op_info.ofm_depth_slices) % len(op_info.buffered_weight_tensors)", "last_idx = (len(op_info.ofm_depth_slices) - 2) % len(op_info.buffered_weight_tensors)", 0),
    ("C03", LR, "                    start_time -= 1\n                    length += 1", "                    start_time -= 1", 1),
    ("C03", CB, "round_up(producer_stripe.height + consumer_stripe_input.height, consumer_stripe_input.height)", "round_up(producer_stripe.height, consumer_stripe_input.height)", 1),
    # C10
    ("C10", HS, "new_start_coord[-2] = max(new_start_coord[-2] * stride - skirt[1], 0)", "new_start_coord[-2] = max(new_start_coord[-2] * stride - skirt[0], 0)", 1),
    ("C10", HS, "                stride = strides[1]\n                skirt_top_remainder", "                stride = strides[2]\n                skirt_top_remainder", 1),
    ("C10", HG, "is_last_h_stripe = ofm_box_end.height >= ofm_end.height", "is_last_h_stripe = ofm_box_end.height > ofm_end.height", 1),
    ("C10", HG, "end_width = min(start_width + ofm_step.width, ofm_end.width)", "end_width = min(start_width + ofm_step.height, ofm_end.width)", 1),
    ("C10", HN, "        top = cmd.pad_top\n        bottom = cmd.pad_bottom", "        top = cmd.pad_bottom\n        bottom = cmd.pad_top", 1),
    # C09
    ("C09", SC, "shift = exponent_q31 * -1", "shift = exponent_q31 * -1 + 1", 1),
    ("C09", SC, "significand_q31 = int(round_away_zero(significand * (1 << 31)))", "significand_q31 = int(round_away_zero(significand * (1 << 30)))", 1),
    ("C09", SC, "input_shift = 20 if bitdepth == 8 else 15", "input_shift = 20 if bitdepth == 16 else 15", 1),
    ("C09", SC, "reduced_shift = shift - 16", "reduced_shift = shift - 15", 1),
    ("C09", SC, "scale = ((1 << (N + k)) + (1 << k)) // nr_kernel_elements", "scale = (1 << (N + k)) // nr_kernel_elements", 1),
    # C19
    ("C19", FP, "    mul = saturating_rounding_mul32(int(x) * (1 << left_shift), scale)", "    mul = saturating_rounding_mul32(x * (1 << left_shift), scale)", 1),
    ("C19", GO, "        lut_result = round_away_zero(zp_out + y_real / ofm_scale)\n", "        lut_result = int(zp_out + y_real / ofm_scale)\n", 1),
    ("C19", FP, "    result = exp_barrel_shifter(+4, 242, result)\n", "", 1),
    # C07
    ("C07", ENC, '    bitbuf_put( bb, "SLICELEN", 15, nvalues-1 );', '    bitbuf_put( bb, "SLICELEN", 16, nvalues-1 );', 1),
    ("C07", ENC, "        while( bb->pos & 127 ) {", "        while( bb->pos & 63 ) {", 1),
    ("C07", DEC, 'palbits = bitbuf_get( bb, "PALBITS", 3 )+2;', 'palbits = bitbuf_get( bb, "PALBITS", 3 )+1;', 1),
    ("C07", ENC, "        CHECKED_MALLOC( zrun_values, (size+1)*sizeof(int) );", "        CHECKED_MALLOC( zrun_values, size*sizeof(int) );", 1),
    ("C07", ENC, "    // Range check (always: the 512-entry tables below are indexed with value+256)\n    for(i=0; i<inbuf_size; i++) {\n        if (inbuf[i]<-255 || inbuf[i]>255) {",
     "    for(i=0; i<inbuf_size && verbose; i++) {\n        if (inbuf[i]<-255 && inbuf[i]>255) {", 1),
    # C18
    ("C18", AF, "        if arena_cache_size_from_cli is not None:", "        if arena_cache_size_from_cli:", 1),
    ("C18", AF, "            result = self._read_config(inheritance_section, key, result, found)\n\n        if self.vela_config.has_option(section, key):\n            result = self.vela_config.get(section, key)",
     "            result = self._read_config(inheritance_section, key, result, found)\n\n        if self.vela_config.has_option(section, key) and result is None:\n            result = self.vela_config.get(section, key)", 1),
    ("C18", VP, "                vela_config_files=config_files,", "                vela_config_files=args.config,", 1),
    # C02
    ("C02", G, "            check_mem_limits(memory_accesses[npu_op], mem_limits)\n", "", 1),
    ("C02", G, "                    if offset > max:", "                    if offset > max + 1:", 1),
    ("C02", AF, "        if mem_type == MemType.Scratch_fast and self.is_spilling_enabled():", "        if mem_type == MemType.Scratch and self.is_spilling_enabled():", 1),
    ("C02", TA, "                sg.memory_used_per_type[mem_type] = total_sz", "                sg.memory_used_per_type[mem_type] = total_sz // 2", 1),
    # C12
    ("C12", TW, "                    if tens.mem_type in (MemType.Scratch, MemType.Scratch_fast):", "                    if tens.mem_type in (MemType.Scratch,):", 1),
    ("C12", TA, "                if tens.address % alignment != 0:", "                if tens.address % 16 != 0:", 1),
    # C08
    ("C08", WC, "    data[9] = shift & 0x3F", "    data[9] = shift & 0x1F", 1),
    ("C08", WC, "                        encoded_stream.extend(bytearray(16 - remainder))", "                        encoded_stream.extend(bytearray(15 - remainder))", 1),
    ("C08", WC, "core_scales = quantised_scales[depth_offset + core : depth_offset + depth_length : arch.ncores]", "core_scales = quantised_scales[depth_offset + core : depth_offset + core + depth_length : arch.ncores]", 1),
    # C11
    ("C11", TM, '("asymmetric_quantize_inputs", fused_act, "keep_num_dims", "weights_format")', '("asymmetric_quantize_inputs", fused_act, "keep_num_dims")', 1),
    ("C11", TW, "        inputs = [self.tensor_map_sg[tens] for tens in sg.original_inputs if tens in self.tensor_map_sg]", "        inputs = [self.tensor_map_sg[tens] for tens in sg.input_tensors if tens in self.tensor_map_sg]", 1),
    # C13
    ("C13", LR, "usage = np.zeros(self.get_endtime() + 1, dtype=np.int64)", "usage = np.zeros(self.get_endtime() + 1, dtype=np.int32)", 1),
    ("C13", VP, "    nng, network_type = model_reader.read_model(input_name, model_reader_options)\n\n    if not nng:\n        raise InputFileError(input_name",
     "    nng, network_type = model_reader.read_model(input_nam, model_reader_options)\n\n    if not nng:\n        raise InputFileError(input_name", 1),
    ("C13", VP, "stats_writer.write_summary_metrics_csv(nng, summary_csv_file, arch)", "stats_writer.write_summary_metrics_csv(nng, summary_csv_file)", 1),
    # C14
    ("C14", HC, "        random.seed(1)\n", "", 1),
    ("C14", VP, "def convert(input_model_name):\n    sys.setrecursionlimit(4000)\n    # Start from a clean process-wide state: nothing may be left behind by an earlier compilation\n    DebugDatabase.clean_db()\n    TensorAddressMap.clear_address_map()\n",
     "def convert(input_model_name):\n    sys.setrecursionlimit(4000)\n", 1),
    ("C14", TW, "        tensor_set = dict.fromkeys(sg.original_inputs)", "        tensor_set = set(sg.original_inputs)", 1),
    # C16
    ("C16", SO, "            self.specific_constraints[op_type].append(TFLiteSupportedOperators.constraint_bias_40bit)\n\n        # Transpose Conv specific checks:", "\n        # Transpose Conv specific checks:", 1),
    ("C16", SO, "        product = op.kernel.area_width() * op.kernel.area_height()", "        product = op.kernel.elements_wh()", 1),
    # ---- added with the round-2 rules
    ("C04", "ethosu/vela/range_set.py", "        a_idx = 0\n        b_idx = 0\n", "        if not a_ranges or not b_ranges:\n            return False\n        a_idx = 0\n        b_idx = 0\n", 0),
    ("C04", "ethosu/vela/range_set.py", "if max(ar[0], br[0]) < min(ar[1], br[1]):", "if max(ar[0], br[0]) <= min(ar[1], br[1]):", 0),
    ("C04", "ethosu/vela/range_set.py", "if max(ar[0], br[0]) < min(ar[1], br[1]):", "if max(ar[0], br[0]) < min(ar[1], br[1]) - 1:", 1),
    ("C04", "ethosu/vela/range_set.py", "            if ar[0] < br[0]:\n                a_idx += 1", "            if ar[1] < br[1]:\n                a_idx += 1", 0),  # advancing the range that ends first is the classic sweep: equivalent (thorough tier agrees)
    ("C04", U, "address = arch.available_shram_banks(True) * arch.shram_bank_size", "address = arch.shram_lut_address", 0),
    ("C04", U, "address=address, length=2048)", "address=address, length=arch.shram_lut_size)", 0),
    ("C04", U, "written_shram_size = arch.available_shram_banks(uses_lut) * arch.shram_bank_size", "written_shram_size = arch.available_shram_banks(False) * arch.shram_bank_size", 0),
    ("C04", U, "written_shram_size = arch.available_shram_banks(uses_lut) * arch.shram_bank_size", "written_shram_size = arch.available_shram_banks(True) * arch.shram_bank_size", 1),
    ("C04", U, "full_kernel = Block(kernel.area_width(), kernel.area_height(), 65536)", "full_kernel = Block(kernel.area_height(), kernel.area_width(), 65536)", 1),
    ("C04", U, "full_kernel = Block(kernel.area_width(), kernel.area_height(), 65536)", "full_kernel = Block((kernel.width - 1) * kernel.dilation.x + 1, kernel.dilation.y * (kernel.height - 1) + 1, 65536)", 0),
    ("C04", U, "full_kernel = Block(kernel.area_width(), kernel.area_height(), 65536)", "full_kernel = arch.ofm_block_max", 1),
    ("C06", U, "written_shram_size = arch.available_shram_banks(uses_lut) * arch.shram_bank_size", "written_shram_size = arch.available_shram_banks(True) * arch.shram_bank_size", 1),
    ("C09", G, "use_advanced_scaling = int(ofm_scale) & 0xFFF != 0", "use_advanced_scaling = int(ofm_scale) & 0xFFFF != 0", 0),
    ("C09", G, "use_advanced_scaling = int(ofm_scale) & 0xFFF != 0", "use_advanced_scaling = True", 0),
    ("C09", G, "use_advanced_scaling = int(ofm_scale) & 0xFFF != 0", "use_advanced_scaling = int(ofm_scale) & 0x7FF != 0", 1),
    ("C09", "ethosu/vela/numeric_util.py", "    r = -0.5 if (f < 0) else 0.5\n    return np.trunc(f + r)", "    return np.sign(f) * np.floor(np.abs(f) + 0.5)", 0),
    ("C09", "ethosu/vela/numeric_util.py", "    return np.trunc(f + r)", "    return np.floor(f + 0.5)", 1),
    ("C19", "ethosu/vela/numeric_util.py", "    return np.trunc(f + r)", "    return np.rint(f)", 1),
    ("C09", WC, "    scc = ScaleCompressionConfig(scale_tens and scale_tens.value_id, ifm_scale, ofm_scale)", "    scc = ScaleCompressionConfig(scale_tens and scale_tens.value_id, ofm_scale, ifm_scale)", 1),
    ("C19", FP, "    if ab >= 0:\n        return ab // divider\n", "    if ab >= 0:\n        return ab >> 15\n", 0),
    ("C19", FP, "    threshold = mask >> 1", "    threshold = mask // 2", 0),
    ("C19", FP, "    if x < 0:\n        threshold += 1", "    if x < 0:\n        threshold += 0", 1),
    ("C19", FP, "        nudge = 1 << 30", "        nudge = 1 << 29", 1),
    ("C19", "ethosu/vela/numeric_util.py", "    elif x >= 37:", "    elif x >= 8:", 1),
    ("C19", "ethosu/vela/numeric_util.py", "    elif x >= 37:", "    elif x >= 40:", 0),
    ("C19", GO, 'convert_to_lut8(op, math.tanh, "tanh")', 'convert_to_lut8(op, np.tanh, "tanh")', 0),
    ("C19", "ethosu/vela/lut.py", "create_equivalence_id(tuple(values))", "create_equivalence_id(sum(values))", 1),
    ("C17", "ethosu/vela/npu_serialisation.py", "command_stream_size_bytes = len(payload_bytes)", "command_stream_size_bytes = len(payload_bytes) + 4", 1),
    ("C17", "ethosu/vela/npu_serialisation.py", "command_stream_size_bytes = len(payload_bytes)", "command_stream_size_bytes = 0 + len(payload_bytes)", 0),
    ("C17", "ethosu/vela/npu_serialisation.py", "np.frombuffer(payload_bytes, dtype=np.uint8)", "np.frombuffer(payload_bytes[:-4], dtype=np.uint8)", 1),
    ("C10", HN, "box_end_coord_max = ifm_read_shape[-2]", "box_end_coord_max = ifm_read_shape[-3]", 1),
    ("C03", HG, "if prev_cmd.is_npu_pass_command() and prev_cmd.ps == producer_op.parent_ps:", "if prev_cmd.ps == producer_op.parent_ps and prev_cmd.is_npu_pass_command():", 0),
    ("C07", ENC, "int z_unary_len = z_grc_div<3 ? 12 : 8;", "int z_unary_len = z_grc_div<=2 ? 12 : 8;", 0),
    ("C07", DEC, "int z_unary_len = z_grc_div<3 ? 12 : 8;", "int z_unary_len = z_grc_div<4 ? 12 : 8;", 1),
    ("C07", DEC, "int z_enable = balance>=0 && use_zero_run && z_pos<z_nvalues;", "int z_enable = use_zero_run && !(balance<0) && z_pos<z_nvalues;", 0),
    ("C08", WC, "block_depth = min(ofm_block_depth, weight_tens.values.shape[-1])", "block_depth = min(weight_tens.values.shape[-1], ofm_block_depth)", 0),
    ("C08", G, "            emit.cmd1_with_address(addr, weights[0].address)\n            emit.cmd1_with_offset(length, 0)", "            emit.cmd1_with_address(addr, weights[0].address)\n            emit.cmd1_with_offset(length, 16)", 1),
    ("C11", "ethosu/vela/tensor.py", "        res.quant_dim = self.quant_dim", "        res.quant_dim = self.quant_max", 1),
    ("C12", "ethosu/vela/live_range.py", "rng.mark_usage(0, time_to_set + 1)", "rng.mark_usage(0, time_to_set + 2)", 0),
    ("C12", "ethosu/vela/live_range.py", "rng.mark_usage(0, time_to_set + 1)", "rng.mark_usage(0, time_to_set)", 1),
    ("C12", "ethosu/vela/scheduler.py", "not any(cons is None for cons in ofm_tens.consumer_list)", "None not in ofm_tens.consumer_list", 0),
    ("C13", TA, "        if verbose_allocation:\n            print_allocation(lrs, mem_area, mem_type_set, tensor_allocator, sg, total_sz)\n", "        if verbose_allocation and len(lrs.ranges) > 0:\n            print_allocation(lrs, mem_area, mem_type_set, tensor_allocator, sg, total_sz)\n", 0),
    ("C13", "ethosu/vela/stats_writer.py", " for tens in lst if tens is not None)", " for tens in lst)", 1),
    ("C14", TM, 'self.custom_opt_format = attrs.get("custom_options_format", self.CUSTOM_OPTIONS_FORMAT_DEFAULT)', 'self.custom_opt_format = attrs.get("custom_options_format", self.custom_opt_format)', 1),
    ("C15", U, "return Kernel(kernel.width, kernel.height, kernel.stride_x, kernel.stride_y, kernel.dilation_x, kernel.dilation_y)", "return Kernel(kernel.width, kernel.height, kernel.stride_x, kernel.stride_y, kernel.dilation_y, kernel.dilation_x)", 1),
    ("C16", "ethosu/vela/tflite_model_semantic.py", "        axis = op.attrs[\"axis\"]\n        axis += ofm_dim if axis < 0 else 0\n        tensors", "        axis = op.attrs[\"axis\"]\n        if axis < 0:\n            axis += ofm_dim\n        tensors", 0),
    ("C02", GO, "        _, _, ow, _ = ofm.shape\n\n        intermediate_tens", "        _, _, ow, _ = ofm.shape\n        _, oh, _, _ = ofm.shape\n\n        intermediate_tens", 0),
    # member-for-member copy families (generic copy-paste lint)
    ("C11", "ethosu/vela/operation.py", "        res.flops = self.flops", "        res.flops = self.version", 1),
    ("C12", "ethosu/vela/scheduler.py", "            cpu_tensor_alignment=options.cpu_tensor_alignment,", "            cpu_tensor_alignment=options.hillclimb_max_iterations,", 1),
    ("C18", VP, "            verbose_allocation=args.verbose_allocation,", "            verbose_allocation=args.verbose_packing,", 1),
    ("C06", HN, "    resampling_mode.NEAREST: NpuResamplingMode.NEAREST,", "    resampling_mode.NEAREST: NpuResamplingMode.TRANSPOSE,", 1),
    ("C06", HN, "NpuShape3D(height=out_block.height, width=out_block.width, depth=out_block.depth)", "NpuShape3D(height=out_block.width, width=out_block.width, depth=out_block.depth)", 1),
    ("C06", HN, "NpuShape3D(height=out_block.height, width=out_block.width, depth=out_block.depth)", "NpuShape3D(width=out_block.width, height=out_block.height, depth=out_block.depth)", 0),
    ("C09", SC, "if not (0 <= reduced_shift < (1 << 6)):", "if not (0 <= shift < (1 << 6)):", 1),
    ("C09", SC, "reduced_multiplier = int((multiplier + (1 << 15)) >> 16) if multiplier < 32767 << 16 else 32767", "reduced_multiplier = min(32767, (multiplier + 32768) >> 16)", 0),
    ("C09", SC, "reduced_multiplier = int((multiplier + (1 << 15)) >> 16) if multiplier < 32767 << 16 else 32767", "reduced_multiplier = int(multiplier >> 16) if multiplier < 32767 << 16 else 32767", 1),
    # ---- round-3 rules and lints
    ("C06", G, "        if has_scalar:\n            quantized_scalar", "        if npu_op.ifm2_scalar is not None:\n            quantized_scalar", 0),
    ("C11", TW, "if quant.min is not None:", "if quant.min:", 1),
    ("C04", U, "        if range1 is None:\n            continue", "        if range1 is None:\n            return False", 1),
    ("C09", GO, "rescale = ifm.quantization.scale_f32 / ofm.quantization.scale_f32", "rescale = float(ifm.quantization.scale_f32) / float(ofm.quantization.scale_f32)", 0),
    ("C03", GO, 'fm_negative = ifm.clone(op.name + "_negative", set_unique=True)', 'fm_negative = ifm.clone(op.name + "_negative", True)', 0),
    ("C12", TA, "            sg.memory_used[mem_area] += total_sz", "            sg.memory_used[mem_area] = sg.memory_used[mem_area] + total_sz", 0),
    ("C10", CB, "            and not sched_op.parent_op.type == Op.Conv2DBackpropInputSwitchedBias\n", "            and not sched_op.parent_op.type == Op.Conv2DBackpropInputSwitchedBias\n            and sched_op.parent_op.type != Op.Transpose\n", 0),
    ("C10", CB, "            and sched_op.parent_op.read_offsets[1] is None\n", "", 1),
    ("C13", "ethosu/vela/npu_performance.py", "            if key in cost.npu_weights_tensor.encoded_ranges:\n                weight_range = cost.npu_weights_tensor.encoded_ranges[key]\n                sz += round_up(weight_range.total_bytes, 16)", "            weight_range = cost.npu_weights_tensor.encoded_ranges.get(key)\n            if weight_range is not None:\n                sz += round_up(weight_range.total_bytes, 16)", 0),
    ("C14", WC, "        CompressedWeightCache.cache[wcc] = tens", "        CompressedWeightCache.cache.pop(wcc, None)\n        CompressedWeightCache.cache[wcc] = tens", 1),
    ("C15", AA, "    if (ifm_bits == 16) and npu_op_type != NpuBlockType.Pooling and scaled:", "    if scaled and ifm_bits == 16 and not npu_op_type == NpuBlockType.Pooling:", 0),
    ("C15", AA, "    if (ifm_bits == 16) and npu_op_type != NpuBlockType.Pooling and scaled:", "    if (ifm_bits >= 16) and npu_op_type != NpuBlockType.Pooling and scaled:", 1),
    ("C16", SO, "                if batch_size != 1:\n                    valid = False", "                if batch_size != 1:\n                    valid = valid and False", 0),
    ("C17", G, "            sz += len(cmd) * CommandStreamEmitter.WORD_SIZE", "            sz += CommandStreamEmitter.WORD_SIZE * len(cmd)", 0),
    ("C17", G, "            sz += len(cmd) * CommandStreamEmitter.WORD_SIZE", "            sz += CommandStreamEmitter.WORD_SIZE", 1),
    ("C19", GO, "                alpha_scalar * (x - zp_in), alpha_scale, alpha_shift", "                alpha_scalar * x - alpha_scalar * zp_in, alpha_scale, alpha_shift", 0),
    ("C19", GO, "                alpha_scalar * (x - zp_in), alpha_scale, alpha_shift", "                alpha_scalar * (x + zp_in), alpha_scale, alpha_shift", 1),
    ("C03", "ethosu/vela/extract_npu_subgraphs.py", "    if len(orig_tens.consumers()) > 1:\n        new_tens.ifm_write_protected = True", "    if orig_tens in cpu_subgraph.input_tensors and len(orig_tens.consumers()) > 1:\n        new_tens.ifm_write_protected = True", 1),
    ("C03", AA, "kernel.area_height() + kernel.stride.y - 1, upscale, nearest)", "kernel.area_height(), upscale, nearest)", 1),
    ("C03", AA, "kernel.area_height() + kernel.stride.y - 1, upscale, nearest)", "kernel.stride.y + kernel.area_height() - 1, upscale, nearest)", 0),
    ("C03", AA, "kernel.area_height() + kernel.stride.y - 1, upscale, nearest)", "kernel.area_height() + kernel.stride.y, upscale, nearest)", 0),
    ("C13", GO, "        num_elements_in_axis = int(h * w)", "        num_elements_in_axis = h * w", 1),
    ("C07", ENC, "int bitbuf_size = inbuf_size*2+1024;", "int bitbuf_size = 2*inbuf_size+2048;", 0),
    ("C06", U, "    return int(fm.quantization.zero_point if fm.quantization else 0)", "    return int(fm.quantization.zero_point) if fm.quantization is not None else 0", 0),
]

"""Expression normalisation for sibling / canonical-form comparison.

linear(e)   : e as a linear form {atom text: coeff, '': const} over + - and
              multiplication by constants (atoms are any other sub-expression,
              by normalised text after optional alias inlining).
compare(c)  : a single comparison `L op R` as (linear form of R - L, set of
              orderings of L vs R that make it true) so that `a + s <= b`,
              `s <= b - a`, `b - a >= s`, `not (a + s > b)` all coincide.
"""
import ast

from .astutil import norm

LT, EQ, GT = "lt", "eq", "gt"
ORD = {
    ast.Lt: {LT}, ast.LtE: {LT, EQ}, ast.Gt: {GT}, ast.GtE: {GT, EQ}, ast.Eq: {EQ}, ast.NotEq: {LT, GT},
}


def linear(e, inline=None):
    """dict atom -> int coefficient ('' = constant term)."""
    if inline is not None:
        e = inline(e)
    out = {}

    def add(k, c):
        out[k] = out.get(k, 0) + c
        if out[k] == 0:
            del out[k]

    def walk(n, c):
        if isinstance(n, ast.BinOp) and isinstance(n.op, ast.Add):
            walk(n.left, c)
            walk(n.right, c)
        elif isinstance(n, ast.BinOp) and isinstance(n.op, ast.Sub):
            walk(n.left, c)
            walk(n.right, -c)
        elif isinstance(n, ast.UnaryOp) and isinstance(n.op, ast.USub):
            walk(n.operand, -c)
        elif isinstance(n, ast.UnaryOp) and isinstance(n.op, ast.UAdd):
            walk(n.operand, c)
        elif isinstance(n, ast.BinOp) and isinstance(n.op, ast.Mult) and isinstance(n.left, ast.Constant) and isinstance(n.left.value, int):
            walk(n.right, c * n.left.value)
        elif isinstance(n, ast.BinOp) and isinstance(n.op, ast.Mult) and isinstance(n.right, ast.Constant) and isinstance(n.right.value, int):
            walk(n.left, c * n.right.value)
        elif isinstance(n, ast.Constant) and isinstance(n.value, int) and not isinstance(n.value, bool):
            add("", c * n.value)
        else:
            add(atom(n), c)

    walk(e, 1)
    return out


def atom(n):
    """Canonical text of a non-additive sub-expression; commutative calls
    (max, min) and products get their operands sorted."""
    if isinstance(n, ast.Call) and isinstance(n.func, ast.Name) and n.func.id in ("max", "min") and not n.keywords:
        return f"{n.func.id}({', '.join(sorted(atom(a) for a in n.args))})"
    if isinstance(n, ast.BinOp) and isinstance(n.op, ast.Mult):
        return " * ".join(sorted([atom(n.left), atom(n.right)]))
    return norm(n)


def sub(a, b):
    out = dict(a)
    for k, v in b.items():
        out[k] = out.get(k, 0) - v
        if out[k] == 0:
            del out[k]
    return out


def comparison(node, inline=None):
    """For `L op R` (single comparison, optionally under `not`): returns
    (form, orderings) where form = linear(R - L) made sign-canonical and
    orderings the subset of {lt, eq, gt} (L relative to R) under which the
    comparison is true. None if not a single comparison."""
    neg = False
    while isinstance(node, ast.UnaryOp) and isinstance(node.op, ast.Not):
        neg = not neg
        node = node.operand
    if not (isinstance(node, ast.Compare) and len(node.ops) == 1 and type(node.ops[0]) in ORD):
        return None
    L = linear(node.left, inline)
    R = linear(node.comparators[0], inline)
    form = sub(R, L)
    ords = set(ORD[type(node.ops[0])])
    if neg:
        ords = {LT, EQ, GT} - ords
    # canonical sign: make the lexicographically first non-constant atom positive
    keys = sorted(k for k in form if k != "")
    if keys and form[keys[0]] < 0:
        form = {k: -v for k, v in form.items()}
        ords = {{LT: GT, GT: LT, EQ: EQ}[o] for o in ords}
    return form, ords


def conjuncts(test):
    """Flatten `a and b and c` / chained comparisons `a <= b < c` into single comparisons."""
    out = []
    if isinstance(test, ast.BoolOp) and isinstance(test.op, ast.And):
        for v in test.values:
            out.extend(conjuncts(v))
    elif isinstance(test, ast.Compare) and len(test.ops) > 1:
        left = test.left
        for op, right in zip(test.ops, test.comparators):
            out.append(ast.Compare(left=left, ops=[op], comparators=[right]))
            left = right
    else:
        out.append(test)
    return out


def form_text(form):
    parts = []
    for k in sorted(form):
        c = form[k]
        parts.append(f"{c:+d}" if k == "" else (f"{'+' if c > 0 else '-'}{'' if abs(c) == 1 else abs(c)}{'*' if abs(c) != 1 else ''}{k}"))
    return " ".join(parts) or "0"


def _strip_casts(n):
    """x.astype(t), int(x), float(x), np.int32(x) ... -> x (value-preserving wrappers for the purpose of term structure)."""
    while True:
        if isinstance(n, ast.Call) and isinstance(n.func, ast.Attribute) and n.func.attr == "astype" and len(n.args) <= 1:
            n = n.func.value
        elif isinstance(n, ast.Call) and len(n.args) == 1 and not n.keywords and norm(n.func) in ("int", "float", "np.int16", "np.int32", "np.int64", "np.double", "np.float64", "np.float32"):
            n = n.args[0]
        else:
            return n


def poly(e):
    """e expanded over + - * into {sorted tuple of atom texts: integer coefficient} (atoms: any other sub-expression after
    stripping value-preserving casts). `a * (x - z)` and `a * x - a * z` have the same expansion; `a * x - z` does not."""
    e = _strip_casts(e)
    if isinstance(e, ast.Constant) and isinstance(e.value, int) and not isinstance(e.value, bool):
        return {(): e.value} if e.value else {}
    if isinstance(e, ast.UnaryOp) and isinstance(e.op, ast.USub):
        return {k: -v for k, v in poly(e.operand).items()}
    if isinstance(e, ast.UnaryOp) and isinstance(e.op, ast.UAdd):
        return poly(e.operand)
    if isinstance(e, ast.BinOp) and isinstance(e.op, (ast.Add, ast.Sub)):
        a, b = poly(e.left), poly(e.right)
        out = dict(a)
        for k, v in b.items():
            out[k] = out.get(k, 0) + (v if isinstance(e.op, ast.Add) else -v)
        return {k: v for k, v in out.items() if v}
    if isinstance(e, ast.BinOp) and isinstance(e.op, ast.Mult):
        a, b = poly(e.left), poly(e.right)
        out = {}
        for ka, va in a.items():
            for kb, vb in b.items():
                k = tuple(sorted(ka + kb))
                out[k] = out.get(k, 0) + va * vb
        return {k: v for k, v in out.items() if v}
    return {(str(norm(e)),): 1}


def offset_paired(e, code, zero_point):
    """True iff every term of poly(e) that contains the atom `code` is matched by the same term with `zero_point` in its
    place and the opposite coefficient, i.e. e depends on the code only through (code - zero_point). None if e does
    not mention the code at all."""
    p = poly(e)
    if not any(code in k for k in p):
        return None
    for k, v in p.items():
        if code in k:
            kk = list(k)
            kk[kk.index(code)] = zero_point
            if p.get(tuple(sorted(kk)), 0) != -v:
                return False
    return True

"""python3 -m velacheck <Cnn> [--tier quick|thorough] [--replay file]

exit 0: every rule instance held (or only known findings); 1: VIOLATION;
2: ANALYSIS-ERROR (anchor vanished / idiom not recognised / analyser bug)."""
import argparse
import importlib
import json
import os
import sys
import traceback


def main(argv=None):
    ap = argparse.ArgumentParser(prog="velacheck")
    ap.add_argument("prop")
    ap.add_argument("--tier", default=os.environ.get("VERIF_TIER", "quick"), choices=["quick", "thorough"])
    ap.add_argument("--replay", default=None)
    ap.add_argument("--repo", default=None)
    args = ap.parse_args(argv)
    if args.repo:
        os.environ["VELA_REPO"] = args.repo
    from . import core

    if args.repo:
        core.REPO = args.repo
    from .core import AnalysisError, Repo
    from .report import Report

    if args.prop == "selftest":
        from . import selftest

        return selftest.main(args)
    prop = args.prop.upper()
    try:
        seed = int(os.environ.get("VERIF_SEED", "0"))
    except ValueError:
        seed = 0
    only = None
    if args.replay:
        with open(args.replay) as f:
            only = json.load(f)
    try:
        mod = importlib.import_module(f"velacheck.props.{prop.lower()}")
    except ImportError:
        print(f"ANALYSIS-ERROR property={prop}: no check module")
        return 2
    except Exception as ex:  # a broken check module is an analysis error, never a verdict
        print(f"ANALYSIS-ERROR property={prop}: check module does not load: {type(ex).__name__}: {ex}")
        return 2
    rep = None
    try:
        repo = Repo()
        rep = Report(prop, args.tier, seed, only)
        mod.run(repo, rep)
        return rep.finish(repo)
    except AnalysisError as e:
        print(f"ANALYSIS-ERROR property={prop}: {e}")
        # violations already established before the analysis broke are still reported (exit 1); otherwise exit 2
        if rep is not None and rep.has_new_violations():
            rc = rep.finish(repo, partial=str(e))
            return rc if rc == 1 else 2
        return 2
    except Exception:
        traceback.print_exc()
        print(f"ANALYSIS-ERROR property={prop}: analyser raised (see traceback)")
        return 2


if __name__ == "__main__":
    sys.exit(main())

"""Static extraction of tables from source text: ctypes bit-field layouts, enum
classes, namedtuple field lists, dict literals."""
import ast

from .astutil import call_name, dotted, enum_members, norm, try_fold
from .core import AnalysisError

REGS = "ethos_u55_regs.ethos_u55_regs"


def bitfields(repo, clsname, mod=REGS):
    """[(name, width, offset)] of the nested `_bitfield` structure of a register
    / command struct in ethos_u55_regs.py."""
    m = repo.mod(mod)
    c = m.cls(clsname)
    fields = None
    for st in c.body:
        if isinstance(st, ast.ClassDef) and st.name == "_bitfield":
            for s2 in st.body:
                if isinstance(s2, ast.Assign) and norm(s2.targets[0]) == "_fields_":
                    fields = s2.value
        if isinstance(st, ast.Assign) and norm(st.targets[0]) == "_fields_" and fields is None:
            # flat struct (npu_set_*_t): fields directly
            if isinstance(st.value, ast.List) and all(isinstance(e, ast.Tuple) and len(e.elts) == 3 for e in st.value.elts):
                fields = st.value
    if fields is None or not isinstance(fields, ast.List):
        raise AnalysisError(f"no bit-field layout for {clsname}")
    out = []
    off = 0
    for e in fields.elts:
        if not (isinstance(e, ast.Tuple) and len(e.elts) == 3):
            raise AnalysisError(f"unrecognised field entry in {clsname}: {norm(e)}")
        name = try_fold(e.elts[0])
        width = try_fold(e.elts[2])
        if not isinstance(name, str) or not isinstance(width, int):
            raise AnalysisError(f"unrecognised field entry in {clsname}: {norm(e)}")
        out.append((name, width, off))
        off += width
    return out


def enum_of(repo, mod, clsname, env=None):
    return enum_members(repo.mod(mod).cls(clsname), env)


def all_enums(repo, mod):
    """{ 'Cls.member': value } for every class in module whose body is made of
    simple NAME = literal assignments (used as a fold environment)."""
    m = repo.mod(mod)
    env = {}
    for cname, c in m.classes.items():
        if "." in cname:
            continue
        for k, v in enum_members(c).items():
            env[f"{cname}.{k}"] = v
    return env


def namedtuple_fields(node):
    """Field list of a `namedtuple("N", "a b c")` / `namedtuple("N", [..])` call."""
    if isinstance(node, ast.Call) and call_name(node) in ("namedtuple", "collections.namedtuple") and len(node.args) >= 2:
        v = try_fold(node.args[1])
        if isinstance(v, str):
            return v.replace(",", " ").split()
        if isinstance(v, (list, tuple)):
            return list(v)
    return None


def dict_literal(node):
    """[(key node, value node)] of a dict literal."""
    if not isinstance(node, ast.Dict):
        raise AnalysisError(f"expected a dict literal, got {norm(node)[:60]}")
    return list(zip(node.keys, node.values))


def subclasses(repo, modname, base):
    """Transitive subclasses (by name) of `base` declared in module."""
    m = repo.mod(modname)
    out = []
    changed = True
    known = {base}
    while changed:
        changed = False
        for cname, c in m.classes.items():
            if cname in known:
                continue
            if any((dotted(b) or "").split(".")[-1] in known for b in c.bases):
                known.add(cname)
                out.append(cname)
                changed = True
    return out

"""python3 -m velacheck.patchtest <patch.diff> [PROP ...]
Applies a unified diff to a scratch copy of the analysed tree (outside /repo and
/verif), runs the given property checks (default: all claimed in MANIFEST.json)
against the copy and removes it. Development / seeded-change bookkeeping only."""
import json
import os
import shutil
import subprocess
import sys

from .mutate import make_copy

VERIF = os.path.dirname(os.path.dirname(os.path.abspath(__file__)))


def run_patch(patch, props=None, tier="quick"):
    if not props:
        man = json.load(open(os.path.join(VERIF, "MANIFEST.json")))
        props = [c["property_id"] for c in man["checks"]]
    d = make_copy()
    res = {}
    try:
        r = subprocess.run(["patch", "-p1", "-s", "-d", d, "-i", os.path.abspath(patch)], capture_output=True, text=True)
        if r.returncode != 0:
            return {"_error": "patch failed: " + r.stdout + r.stderr}
        for p in props:
            r = subprocess.run([sys.executable, "-m", "velacheck", p, "--tier", tier, "--repo", d], capture_output=True, text=True, cwd=VERIF,
                               env={**os.environ, "VELACHECK_NO_EVIDENCE": "1"})
            lines = [l for l in r.stdout.splitlines() if l.startswith("  rule=") or "ANALYSIS-ERROR" in l]
            res[p] = (r.returncode, lines[:3])
    finally:
        shutil.rmtree(d, ignore_errors=True)
    return res


if __name__ == "__main__":
    patch = sys.argv[1]
    res = run_patch(patch, sys.argv[2:])
    for p, v in res.items():
        if p == "_error":
            print(v)
            continue
        rc, lines = v
        if rc != 0:
            print(f"{p}: exit {rc}")
            for l in lines:
                print("   ", l[:300])
    fired = [p for p, v in res.items() if p != "_error" and v[0] == 1]
    print("FIRED:", fired if fired else "none")

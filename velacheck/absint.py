"""A small abstract interpreter over extracted ASTs (no repository code is run).

Domain
  * concrete Python ints / strs / bytes / tuples / None / bools / floats
  * BV: 64 bit-atoms, each 0, 1, ('s', symbol, i) (bit i of a named unknown
    non-negative integer) or '?' (unknown). Transfer functions for & | ^ << >>
    and for + on bit-disjoint operands; everything else degrades to '?'.
  * AList: abstract list (identity, ordered items; an item may be Seg(name):
    an unknown-length run of words coming from a symbolic list)
  * AObj: opaque object that records attribute writes and method calls
  * Unknown(text): anything else, carrying the expression text that made it

Control: unknown branch conditions fork; all paths are enumerated by
re-execution under a decision script (bounded). `assert c` with unknown c adds
c as a fact of the path. Comparisons of a pure symbol with a constant refine
the symbol's upper bound on each branch (so bits above the bound become 0).
Anything unsupported raises AnalysisError (exit 2), never a verdict."""
import ast

from .astutil import call_name, dotted, norm, try_fold
from .core import AnalysisError

W = 64


class BV:
    __slots__ = ("bits",)

    def __init__(self, bits):
        bits = tuple(bits)
        assert len(bits) == W
        self.bits = bits

    @staticmethod
    def const(v):
        v &= (1 << W) - 1
        return BV(((v >> i) & 1) for i in range(W))

    @staticmethod
    def sym(name, width=W):
        return BV((("s", name, i) if i < width else 0) for i in range(W))

    def concrete(self):
        v = 0
        for i, b in enumerate(self.bits):
            if b == 1:
                v |= 1 << i
            elif b != 0:
                return None
        return v

    def __repr__(self):
        c = self.concrete()
        if c is not None:
            return f"BV({c:#x})"
        out = []
        i = 0
        while i < W:
            b = self.bits[i]
            if b == 0:
                i += 1
                continue
            if isinstance(b, tuple):
                j = i
                while j + 1 < W and isinstance(self.bits[j + 1], tuple) and self.bits[j + 1][1] == b[1] and self.bits[j + 1][2] == self.bits[j][2] + 1:
                    j += 1
                out.append(f"[{i}..{j}]={b[1]}[{b[2]}..{self.bits[j][2]}]")
                i = j + 1
            else:
                out.append(f"[{i}]={b}")
                i += 1
        return "BV(" + " ".join(out) + ")"

    def field(self, lo, width):
        return self.bits[lo : lo + width]


def _and(a, b):
    if a == 0 or b == 0:
        return 0
    if a == 1:
        return b
    if b == 1:
        return a
    return a if a == b and a != "?" else "?"


def _or(a, b):
    if a == 1 or b == 1:
        return 1
    if a == 0:
        return b
    if b == 0:
        return a
    return a if a == b and a != "?" else "?"


def _xor(a, b):
    if a == 0:
        return b
    if b == 0:
        return a
    if a == 1 and b == 1:
        return 0
    return "?"


def to_bv(v):
    if isinstance(v, BV):
        return v
    if isinstance(v, bool):
        return BV.const(int(v))
    if isinstance(v, int):
        return BV.const(v)
    return None


def bv_shift(a, k):
    if k >= 0:
        return BV(((a.bits[i - k] if i - k >= 0 else 0) for i in range(W)))
    k = -k
    return BV(((a.bits[i + k] if i + k < W else 0) for i in range(W)))


def bv_binop(op, a, b):
    if isinstance(op, ast.BitAnd):
        return BV(_and(x, y) for x, y in zip(a.bits, b.bits))
    if isinstance(op, ast.BitOr):
        return BV(_or(x, y) for x, y in zip(a.bits, b.bits))
    if isinstance(op, ast.BitXor):
        return BV(_xor(x, y) for x, y in zip(a.bits, b.bits))
    if isinstance(op, ast.Add):
        # disjoint bits: same as or; else unknown from the lowest clash upward
        out = []
        clash = False
        for x, y in zip(a.bits, b.bits):
            if clash:
                out.append("?")
            elif x == 0:
                out.append(y)
            elif y == 0:
                out.append(x)
            else:
                clash = True
                out.append("?")
        return BV(out)
    return None


class Seg:
    """Unknown-length run of list items (the words of a symbolic list)."""

    def __init__(self, name):
        self.name = name

    def __repr__(self):
        return f"Seg({self.name})"


class AList:
    def __init__(self, items=None, name="list"):
        self.items = list(items or [])
        self.name = name
        self.log = []  # (op, value) in order

    def __repr__(self):
        return f"AList({self.items})"


class SymList:
    """A list parameter about which nothing is known but its identity."""

    def __init__(self, name):
        self.name = name

    def __repr__(self):
        return f"SymList({self.name})"


class ALen:
    def __init__(self, alist, items):
        self.alist = alist
        self.items = tuple(items)

    def __repr__(self):
        return f"ALen({self.items})"


class Unknown:
    def __init__(self, text, parts=()):
        self.text = text
        self.parts = parts

    def __repr__(self):
        return f"Unknown({self.text})"


class Cond(Unknown):
    """Unknown boolean with structure: (op, left, right) for comparisons."""

    def __init__(self, text, op=None, left=None, right=None):
        super().__init__(text)
        self.op = op
        self.left = left
        self.right = right


class AObj:
    def __init__(self, name, fields=None, cls=None):
        self.name = name
        self.cls = cls
        self.fields = dict(fields or {})
        self.calls = []  # (method, args, kwargs)
        self.writes = []  # (attr, value)

    def __repr__(self):
        return f"AObj({self.name})"


class EnumMember:
    """A member of an Enum class found in the source (class node, name, folded value)."""

    def __init__(self, mod, cls, name, value):
        self.mod = mod
        self.cls = cls
        self.name = name
        self.value = value

    def __eq__(self, other):
        return isinstance(other, EnumMember) and other.cls.name == self.cls.name and other.name == self.name

    def __hash__(self):
        return hash((self.cls.name, self.name))

    def __repr__(self):
        return f"{self.cls.name}.{self.name}"


class AFormat:
    def __init__(self, template, args):
        self.template = template
        self.args = args

    def __repr__(self):
        return f"AFormat({self.template!r}, {self.args})"


class APack:
    def __init__(self, fmt, args):
        self.fmt = fmt
        self.args = args


class PathResult:
    def __init__(self, kind, value, decisions, facts, interp):
        self.kind = kind  # return | raise
        self.value = value
        self.decisions = decisions  # [(text, bool)]
        self.facts = facts
        self.upper = dict(interp.upper)
        self.bindings = dict(interp.bindings)
        self.conds = list(interp.conds)
        self.calls = list(interp.calls_log)
        self.objects = list(interp.objects)
        self.args = interp.cur_args

    def refine(self, bv):
        """Apply the path's upper bounds: symbol bits above the bound are 0."""
        if not isinstance(bv, BV):
            return bv
        out = []
        for b in bv.bits:
            if isinstance(b, tuple) and b[1] in self.upper and b[2] >= self.upper[b[1]].bit_length():
                out.append(0)
            else:
                out.append(b)
        return BV(out)


class _Return(Exception):
    def __init__(self, v):
        self.v = v


class _Raise(Exception):
    def __init__(self, exc):
        self.exc = exc


class _Break(Exception):
    pass


class _Continue(Exception):
    pass


class Interp:
    def __init__(self, repo, mod, externs=None, max_depth=8, max_paths=512, stubs=(), fork_dict=False):
        self.repo = repo
        self.mod = mod
        self.externs = externs or {}
        self.max_depth = max_depth
        self.max_paths = max_paths
        self.stubs = set(stubs)
        self.fork_dict = fork_dict
        self.construct = set()
        self._super_ctx = []
        self._class_consts = {}

    def _construct(self, m, c, o, args, kwargs):
        init = None
        for st in c.body:
            if isinstance(st, ast.FunctionDef) and st.name == "__init__":
                init = st
        if init is None:
            for b in c.bases:
                bn = (dotted(b) or "").split(".")[-1]
                for m2 in self.repo.core_modules():
                    if bn in m2.classes:
                        return self._construct(m2, m2.classes[bn], o, args, kwargs)
            return
        self._super_ctx.append((m, c))
        try:
            self.call_function(m, init, [o] + args, kwargs)
        finally:
            self._super_ctx.pop()

    def class_ancestors(self, clsname):
        """Names of the class and all its (package-declared) ancestors."""
        out = {clsname}
        todo = [clsname]
        while todo:
            c = todo.pop()
            for m in self.repo.core_modules():
                if c in m.classes:
                    for b in m.classes[c].bases:
                        bn = (dotted(b) or "").split(".")[-1]
                        if bn and bn not in out:
                            out.add(bn)
                            todo.append(bn)
        return out

    # ---------------------------------------------------------------- driver
    def run(self, qual, make_args, mod=None):
        """Enumerate all paths of function `qual` under fresh arguments from
        make_args() -> (args list, kwargs dict)."""
        mod = mod or self.mod
        func = mod.func(qual)
        results = []
        script = []
        while True:
            self.script = list(script)
            self.pos = 0
            self.trace = []
            self.facts = []
            self.upper = {}
            self.calls_log = []
            self.objects = []
            self.bindings = {}
            self.conds = []
            self.decided = {}
            self.depth = 0
            args, kwargs = make_args()
            self.cur_args = (args, kwargs)
            try:
                v = self.call_function(mod, func, args, kwargs)
                results.append(PathResult("return", v, [(x[0], x[1]) for x in self.trace], list(self.facts), self))
            except _Raise as r:
                results.append(PathResult("raise", r.exc, [(x[0], x[1]) for x in self.trace], list(self.facts), self))
            if len(results) > self.max_paths:
                raise AnalysisError(f"absint: more than {self.max_paths} paths in {qual}")
            # next script (DFS over n-ary decisions)
            t = [(x[2], x[3]) for x in self.trace]
            while t and t[-1][0] >= t[-1][1] - 1:
                t.pop()
            if not t:
                break
            script = [i for i, _ in t]
            script[-1] += 1
        return results

    # ---------------------------------------------------------------- calls
    def call_function(self, mod, func, args, kwargs, closure=None):
        self.depth += 1
        if self.depth > self.max_depth:
            raise AnalysisError("absint: call depth exceeded")
        env = dict(closure) if closure else {}
        a = func.args
        params = [p.arg for p in a.posonlyargs + a.args]
        defaults = a.defaults
        for i, p in enumerate(params):
            if i < len(args):
                env[p] = args[i]
            elif p in kwargs:
                env[p] = kwargs[p]
            else:
                di = i - (len(params) - len(defaults))
                if di >= 0:
                    env[p] = self.eval(defaults[di], {}, mod)
                else:
                    raise AnalysisError(f"absint: missing argument {p} calling {func.name}")
        for p, d in zip(a.kwonlyargs, a.kw_defaults):
            if p.arg in kwargs:
                env[p.arg] = kwargs[p.arg]
            elif d is not None:
                env[p.arg] = self.eval(d, {}, mod)
        if len(args) > len(params) and not a.vararg:
            raise AnalysisError(f"absint: too many arguments calling {func.name}")
        try:
            self.exec_body(func.body, env, mod)
            ret = None
        except _Return as r:
            ret = r.v
        self.depth -= 1
        return ret

    # ---------------------------------------------------------------- stmts
    def exec_body(self, body, env, mod):
        for st in body:
            self.exec(st, env, mod)

    def decide(self, v, node):
        if isinstance(v, BV):
            c = v.concrete()
            if c is not None:
                return bool(c)
            v = Cond(repr(v), "!=", v, 0)
        if isinstance(v, (ALen,)):
            v = Cond(repr(v))
        if isinstance(v, (AList,)):
            if not any(isinstance(i, Seg) for i in v.items):
                return bool(v.items)
            return True
        if isinstance(v, AObj):
            return True
        if not isinstance(v, Unknown):
            return bool(v)
        if v.text in self.decided:
            # the same (pure) condition was decided earlier on this path: stay consistent, do not fork again
            return self.decided[v.text]
        i = self.choose(2, v.text)
        d = i == 0
        self.decided[v.text] = d
        self.trace[-1] = (v.text, d, i, 2)
        self.conds.append((v, d))
        self.learn(v, d)
        return d

    def choose(self, n, text):
        """n-ary decision point; returns the index chosen on this run."""
        if self.pos < len(self.script):
            i = self.script[self.pos]
        else:
            i = 0
            self.script.append(0)
        self.pos += 1
        self.trace.append((text, i, i, n))
        return i

    def learn(self, cond, truth):
        self.facts.append((cond.text, truth))
        if not isinstance(cond, Cond) or cond.op is None:
            return
        op, l, r = cond.op, cond.left, cond.right
        if op == "chain":
            if truth:
                for c in l:
                    self.learn(c, True)
            return
        if op == "and":
            if truth:
                for c in l:
                    if isinstance(c, Cond):
                        self.learn(c, True)
            return
        if op == "not":
            if isinstance(l, Cond):
                self.learn(l, not truth)
            return
        # normalise to sym OP const
        if isinstance(r, BV) and isinstance(l, int):
            l, r = r, l
            op = {"<": ">", ">": "<", "<=": ">=", ">=": "<="}.get(op, op)
        if not (isinstance(l, BV) and isinstance(r, int)):
            return
        ns = self._shifted_symbol(l)
        if ns is None:
            return
        name, k = ns
        if not truth:
            op = {"<": ">=", ">=": "<", ">": "<=", "<=": ">"}.get(op)
        ub = None
        # l == sym * 2^k
        if op == "<":
            ub = -((-r) >> k) - 1  # sym < ceil(r / 2^k)
        elif op == "<=":
            ub = r >> k
        elif op == "==":
            ub = r >> k
        if ub is not None and ub >= 0:
            self.upper[name] = min(self.upper.get(name, ub), ub)

    @staticmethod
    def _shifted_symbol(bv):
        """(name, k) if bv is exactly symbol << k."""
        name = None
        k = None
        for i, b in enumerate(bv.bits):
            if b == 0:
                continue
            if not isinstance(b, tuple):
                return None
            if k is None:
                k = i - b[2]
                name = b[1]
                if k < 0 or b[2] != 0:
                    return None
            if b[1] != name or i - b[2] != k:
                return None
        if name is None:
            return None
        # all symbol bits up to the top must be present
        for i in range(k, W):
            if bv.bits[i] != ("s", name, i - k):
                return None
        return name, k

    @staticmethod
    def _pure_symbol(bv):
        name = None
        for i, b in enumerate(bv.bits):
            if b == 0:
                continue
            if not (isinstance(b, tuple) and b[2] == i):
                return None
            if name is None:
                name = b[1]
            elif name != b[1]:
                return None
        return name

    def exec(self, st, env, mod):
        if isinstance(st, ast.Assign):
            v = self.eval(st.value, env, mod)
            for t in st.targets:
                self.assign(t, v, env, mod)
        elif isinstance(st, ast.AnnAssign):
            if st.value is not None:
                self.assign(st.target, self.eval(st.value, env, mod), env, mod)
        elif isinstance(st, ast.AugAssign):
            cur = self.eval(_load(st.target), env, mod)
            v = self.binop(st.op, cur, self.eval(st.value, env, mod), st)
            self.assign(st.target, v, env, mod)
        elif isinstance(st, ast.Expr):
            self.eval(st.value, env, mod)
        elif isinstance(st, ast.Return):
            raise _Return(self.eval(st.value, env, mod) if st.value else None)
        elif isinstance(st, ast.Raise):
            exc = self.eval(st.exc, env, mod) if st.exc else Unknown("reraise")
            raise _Raise(exc)
        elif isinstance(st, ast.Assert):
            v = self.eval(st.test, env, mod)
            if isinstance(v, BV):
                v = v.concrete() if v.concrete() is not None else Cond(repr(v))
            if isinstance(v, Unknown):
                self.learn(v, True) if isinstance(v, Cond) else self.facts.append((v.text, True))
            elif isinstance(v, (AObj, AList, SymList)):
                pass
            elif not v:
                raise _Raise(AObj("AssertionError"))
        elif isinstance(st, ast.If):
            if self.decide(self.eval(st.test, env, mod), st.test):
                self.exec_body(st.body, env, mod)
            else:
                self.exec_body(st.orelse, env, mod)
        elif isinstance(st, ast.For):
            it = self.eval(st.iter, env, mod)
            if isinstance(it, AList):
                if any(isinstance(i, Seg) for i in it.items):
                    raise AnalysisError(f"absint: loop over symbolic list at line {st.lineno}")
                it = list(it.items)
            if isinstance(it, dict):
                it = list(it.keys())
            if not isinstance(it, (range, list, tuple, str, bytes)):
                raise AnalysisError(f"absint: loop over non-concrete iterable at {mod.rel}:{st.lineno}: {norm(st.iter)} = {it!r}")
            if len(it) > 4096:
                raise AnalysisError("absint: loop too long")
            broke = False
            for x in it:
                self.assign(st.target, x, env, mod)
                try:
                    self.exec_body(st.body, env, mod)
                except _Break:
                    broke = True
                    break
                except _Continue:
                    continue
            if not broke:
                self.exec_body(st.orelse, env, mod)
        elif isinstance(st, ast.While):
            n = 0
            while self.decide(self.eval(st.test, env, mod), st.test):
                n += 1
                if n > 4096:
                    raise AnalysisError("absint: while loop bound exceeded")
                try:
                    self.exec_body(st.body, env, mod)
                except _Break:
                    break
                except _Continue:
                    continue
        elif isinstance(st, ast.Pass):
            pass
        elif isinstance(st, ast.Break):
            raise _Break()
        elif isinstance(st, ast.Continue):
            raise _Continue()
        elif isinstance(st, ast.FunctionDef) and not st.decorator_list:
            # a nested helper: called with the enclosing scope as it is at the time of the call (read-only closure)
            env[st.name] = ("localfunc", st, env, mod)
        elif isinstance(st, (ast.FunctionDef, ast.ClassDef)):
            env[st.name] = Unknown(f"<local def {st.name}>")
        elif isinstance(st, ast.ImportFrom):
            for a in st.names:
                local = a.asname or a.name
                if local in self.externs or local in self.stubs and False:
                    env[local] = self.externs[local]
                    continue
                saved = mod.imports.get(local)
                mod.imports[local] = ("from", st.level, st.module, a.name)
                try:
                    v = None
                    r = self.repo.resolve_import(mod, local)
                    if r:
                        m2 = self.repo.mod(r[0])
                        if r[1] is None:
                            v = ("module", m2)
                        elif r[1] in m2.functions:
                            v = ("func", m2, m2.functions[r[1]])
                        elif r[1] in m2.classes:
                            v = ("class", m2, m2.classes[r[1]])
                        elif r[1] in m2.assigns:
                            v = self.lookup(r[1], {}, m2)
                    env[local] = v if v is not None else ("extfunc", f"{st.module}.{a.name}")
                finally:
                    if saved is None:
                        mod.imports.pop(local, None)
                    else:
                        mod.imports[local] = saved
        elif isinstance(st, ast.Import):
            for a in st.names:
                env[(a.asname or a.name).split(".")[0]] = ("extmodule", a.name)
        else:
            raise AnalysisError(f"absint: unsupported statement {type(st).__name__} at {mod.rel}:{st.lineno}")

    def assign(self, target, v, env, mod):
        if isinstance(target, ast.Name):
            env[target.id] = v
        elif isinstance(target, (ast.Tuple, ast.List)):
            if isinstance(v, (tuple, list)) and len(v) == len(target.elts):
                for t, x in zip(target.elts, v):
                    self.assign(t, x, env, mod)
            else:
                for i, t in enumerate(target.elts):
                    self.assign(t, Unknown(f"{_text(v)}[{i}]"), env, mod)
        elif isinstance(target, ast.Attribute):
            obj = self.eval(target.value, env, mod)
            if isinstance(obj, AObj):
                obj.fields[target.attr] = v
                obj.writes.append((target.attr, v))
            elif isinstance(obj, Unknown):
                self.calls_log.append(("<setattr>", [obj, target.attr, v], {}, None))
            else:
                raise AnalysisError(f"absint: attribute store on {obj!r} at {mod.rel}:{target.lineno}")
        elif isinstance(target, ast.Subscript):
            obj = self.eval(target.value, env, mod)
            idx = self.eval(target.slice, env, mod)
            if isinstance(obj, (AList,)) and isinstance(idx, int):
                obj.items[idx] = v
                obj.log.append(("setitem", idx, v))
            elif isinstance(obj, AList) and isinstance(idx, slice) and idx.step is None and isinstance(v, (AList, bytes, bytearray, list, tuple)):
                # slice store of equal length (bytearray semantics are only needed for same-size replacement)
                lo = 0 if idx.start is None else idx.start
                hi = len(obj.items) if idx.stop is None else idx.stop
                new_items = list(v.items) if isinstance(v, AList) else list(v)
                if not (isinstance(lo, int) and isinstance(hi, int) and 0 <= lo <= hi <= len(obj.items) and hi - lo == len(new_items)):
                    raise AnalysisError(f"absint: slice store [{lo}:{hi}] with {len(new_items)} items at {mod.rel}:{target.lineno}")
                obj.items[lo:hi] = new_items
                obj.log.append(("setslice", lo, hi, v))
            elif isinstance(obj, list) and isinstance(idx, int):
                obj[idx] = v
            elif isinstance(obj, dict):
                obj[idx] = v
            elif isinstance(obj, AObj):
                obj.writes.append((("item", idx), v))
            else:
                raise AnalysisError(f"absint: subscript store on {obj!r}[{idx!r}] at {mod.rel}:{target.lineno}")
        else:
            raise AnalysisError(f"absint: unsupported assignment target at {mod.rel}:{target.lineno}")

    # ---------------------------------------------------------------- exprs
    def lookup(self, name, env, mod):
        if name in env:
            return env[name]
        if name in self.externs:
            return self.externs[name]
        if name in mod.functions:
            return ("func", mod, mod.functions[name])
        if name in mod.classes:
            return ("class", mod, mod.classes[name])
        if name in mod.assigns:
            v = try_fold(mod.assigns[name], None, default=_NOFOLD)
            if v is not _NOFOLD:
                return v
            return self.eval(mod.assigns[name], {}, mod)
        r = self.repo.resolve_import(mod, name)
        if r:
            m2 = self.repo.mod(r[0])
            if r[1] is None:
                return ("module", m2)
            if r[1] in m2.functions:
                return ("func", m2, m2.functions[r[1]])
            if r[1] in m2.classes:
                return ("class", m2, m2.classes[r[1]])
            if r[1] in m2.assigns:
                v = try_fold(m2.assigns[r[1]], None, default=_NOFOLD)
                if v is not _NOFOLD:
                    return v
            return Unknown(f"{r[0]}.{r[1]}")
        if name in ("True", "False", "None"):
            return {"True": True, "False": False, "None": None}[name]
        if name in _BUILTINS:
            return ("builtin", name)
        if name in mod.imports:
            imp = mod.imports[name]
            if imp[0] == "import":
                return ("extmodule", imp[2])
            return ("extfunc", f"{imp[2]}.{imp[3]}")
        raise AnalysisError(f"absint: unbound name {name} in {mod.rel}")

    def eval(self, e, env, mod):
        if isinstance(e, ast.Constant):
            return e.value
        if isinstance(e, ast.Name):
            return self.lookup(e.id, env, mod)
        if isinstance(e, ast.Tuple):
            return tuple(self.eval(x, env, mod) for x in e.elts)
        if isinstance(e, ast.List):
            return AList([self.eval(x, env, mod) for x in e.elts])
        if isinstance(e, ast.Dict):
            return {self.eval(k, env, mod): self.eval(v, env, mod) for k, v in zip(e.keys, e.values)}
        if isinstance(e, ast.BinOp):
            return self.binop(e.op, self.eval(e.left, env, mod), self.eval(e.right, env, mod), e)
        if isinstance(e, ast.UnaryOp):
            v = self.eval(e.operand, env, mod)
            if isinstance(e.op, ast.Not):
                if isinstance(v, Unknown):
                    return Cond(f"not ({v.text})", "not", v)
                if isinstance(v, BV):
                    c = v.concrete()
                    return (not c) if c is not None else Cond(f"not {v!r}")
                if isinstance(v, AList):
                    return not v.items
                return not v
            if isinstance(v, (int, float)) and not isinstance(v, bool) or isinstance(v, bool):
                return {ast.USub: lambda x: -x, ast.UAdd: lambda x: +x, ast.Invert: lambda x: ~x}[type(e.op)](v)
            return Unknown(f"{type(e.op).__name__}({_text(v)})")
        if isinstance(e, ast.BoolOp):
            vals = []
            isand = isinstance(e.op, ast.And)
            last = None
            for x in e.values:
                v = self.eval(x, env, mod)
                last = v
                if isinstance(v, BV) and v.concrete() is not None:
                    v = v.concrete()
                if isinstance(v, (Unknown, BV, ALen)):
                    vals.append(v if isinstance(v, Unknown) else Cond(repr(v)))
                    continue
                truth = bool(v.items) if isinstance(v, AList) else bool(v)
                if isand and not truth:
                    return v
                if not isand and truth:
                    return v
            if not vals:
                # every operand was concrete and none decided the result: Python yields the last operand
                return last
            if len(vals) == 1:
                return vals[0]
            txt = (" and " if isand else " or ").join(f"({v.text})" for v in vals)
            return Cond(txt, "and" if isand else "or", vals)
        if isinstance(e, ast.Compare):
            return self.compare(e, env, mod)
        if isinstance(e, ast.IfExp):
            if self.decide(self.eval(e.test, env, mod), e.test):
                return self.eval(e.body, env, mod)
            return self.eval(e.orelse, env, mod)
        if isinstance(e, ast.Attribute):
            return self.getattr(self.eval(e.value, env, mod), e.attr, e, mod)
        if isinstance(e, ast.Subscript):
            return self.subscript(self.eval(e.value, env, mod), e.slice, env, mod, e)
        if isinstance(e, ast.Call):
            return self.call(e, env, mod)
        if isinstance(e, ast.JoinedStr):
            parts = []
            conc = True
            for v in e.values:
                if isinstance(v, ast.Constant):
                    parts.append(v.value)
                else:
                    x = self.eval(v.value, env, mod)
                    if isinstance(x, (int, str, float)) and v.format_spec is None:
                        parts.append(str(x))
                    else:
                        conc = False
                        parts.append(x)
            if conc:
                return "".join(parts)
            return AFormat("fstring", parts)
        if isinstance(e, ast.GeneratorExp) or isinstance(e, ast.ListComp):
            if len(e.generators) == 1 and not e.generators[0].ifs:
                g = e.generators[0]
                it = self.eval(g.iter, env, mod)
                if isinstance(it, AList):
                    it = it.items
                if isinstance(it, (list, tuple, range, str)):
                    out = []
                    for x in it:
                        env2 = dict(env)
                        self.assign(g.target, x, env2, mod)
                        out.append(self.eval(e.elt, env2, mod))
                    return AList(out) if isinstance(e, ast.ListComp) else tuple(out)
                return Unknown(f"comp({norm(e)})")
            return Unknown(f"comp({norm(e)})")
        if isinstance(e, ast.Slice):
            return slice(
                self.eval(e.lower, env, mod) if e.lower else None,
                self.eval(e.upper, env, mod) if e.upper else None,
                self.eval(e.step, env, mod) if e.step else None,
            )
        if isinstance(e, ast.Starred):
            return ("*", self.eval(e.value, env, mod))
        if isinstance(e, ast.Lambda):
            return Unknown("<lambda>")
        raise AnalysisError(f"absint: unsupported expression {type(e).__name__} at {mod.rel}:{getattr(e, 'lineno', '?')}")

    def compare(self, e, env, mod):
        left = self.eval(e.left, env, mod)
        conds = []
        result = True
        for op, rnode in zip(e.ops, e.comparators):
            right = self.eval(rnode, env, mod)
            opname = _CMP[type(op)]
            l, r = left, right
            if isinstance(l, BV) and l.concrete() is not None:
                l = l.concrete()
            if isinstance(r, BV) and r.concrete() is not None:
                r = r.concrete()
            if opname in ("is", "is not") and (l is None or r is None) and isinstance(r if l is None else l, (AObj, AList, SymList, BV, EnumMember)):
                if opname == "is":
                    return False
                left = right
                continue
            if opname in ("in", "not in") and isinstance(r, tuple) and isinstance(l, (str, int)) and all(isinstance(x, (str, int)) for x in r):
                if (l in r) != (opname == "in"):
                    return False
                left = right
                continue
            if opname in ("in", "not in") and isinstance(r, (dict, set, frozenset)) and (_is_conc(l) or isinstance(l, (AObj, EnumMember))):
                try:
                    member = l in r
                except TypeError:
                    member = False
                if member != (opname == "in"):
                    return False
                left = right
                continue
            if opname in ("==", "!=", "is", "is not") and any(isinstance(x, tuple) and len(x) == 2 and x[0] == "pytype" for x in (l, r)):
                # type(x) compared with a class: decided on the class name
                def _tn(x):
                    if isinstance(x, tuple) and x and x[0] == "pytype":
                        return x[1]
                    if isinstance(x, tuple) and len(x) == 3 and x[0] == "class":
                        return x[2].name
                    return None
                a_, b_ = _tn(l), _tn(r)
                if a_ is not None and b_ is not None:
                    if (a_ == b_) != (opname in ("==", "is")):
                        return False
                    left = right
                    continue
            if _is_conc(l) and _is_conc(r):
                try:
                    ok = _CMPF[opname](l, r)
                except TypeError:
                    ok = Unknown("cmp")
                if isinstance(ok, Unknown):
                    conds.append(Cond(f"{_text(l)} {opname} {_text(r)}", opname, l, r))
                elif not ok:
                    return False
            else:
                conds.append(Cond(f"{_text(l)} {opname} {_text(r)}", opname, l, r))
            left = right
        if not conds:
            return result
        if len(conds) == 1:
            return conds[0]
        return Cond(" and ".join(c.text for c in conds), "chain", conds)

    def binop(self, op, a, b, node=None):
        if isinstance(a, bool):
            a = int(a)
        if isinstance(b, bool):
            b = int(b)
        if isinstance(a, BV) and a.concrete() is not None:
            a = a.concrete()
        if isinstance(b, BV) and b.concrete() is not None:
            b = b.concrete()
        if _is_num(a) and _is_num(b):
            try:
                return _BINF[type(op)](a, b)
            except Exception as ex:
                raise AnalysisError(f"absint: arithmetic error {ex}")
        if isinstance(a, (str, bytes, tuple)) and isinstance(b, (str, bytes, tuple, int)):
            try:
                return _BINF[type(op)](a, b)
            except Exception:
                pass
        if isinstance(a, AList) and isinstance(b, AList) and isinstance(op, ast.Add):
            return AList(a.items + b.items)
        if isinstance(a, AList) and isinstance(b, SymList) and isinstance(op, ast.Add):
            return AList(a.items + [Seg(b.name)])
        if isinstance(a, AList) and isinstance(b, int) and isinstance(op, ast.Mult):
            return AList(a.items * b)
        if isinstance(b, AList) and isinstance(a, int) and not isinstance(a, bool) and isinstance(op, ast.Mult):
            return AList(b.items * a)
        if isinstance(a, BV) or isinstance(b, BV):
            if isinstance(op, (ast.LShift, ast.RShift)) and isinstance(a, BV) and isinstance(b, int):
                return bv_shift(a, b if isinstance(op, ast.LShift) else -b)
            if isinstance(op, ast.LShift) and isinstance(a, int) and isinstance(b, BV):
                return Unknown(f"({a} << {b!r})")
            x, y = to_bv(a), to_bv(b)
            if x is not None and y is not None:
                if isinstance(op, ast.Mult):
                    # multiplication by a power of two is a shift
                    if isinstance(a, int) and a > 0 and a & (a - 1) == 0:
                        return bv_shift(y, a.bit_length() - 1)
                    if isinstance(b, int) and b > 0 and b & (b - 1) == 0:
                        return bv_shift(x, b.bit_length() - 1)
                if isinstance(op, ast.FloorDiv) and isinstance(b, int) and b > 0 and b & (b - 1) == 0:
                    return bv_shift(x, -(b.bit_length() - 1))
                if isinstance(op, ast.Mod) and isinstance(b, int) and b > 0 and b & (b - 1) == 0:
                    return bv_binop(ast.BitAnd(), x, BV.const(b - 1))
                r = bv_binop(op, x, y)
                if r is not None:
                    return r
                if isinstance(op, (ast.Sub, ast.Mult, ast.FloorDiv, ast.Mod, ast.Pow)):
                    # not a bit permutation: every bit of the result is unknown
                    return BV(["?"] * W)
        sym = _OPSYM.get(type(op), "?")
        return Unknown(f"({_text(a)} {sym} {_text(b)})", (sym, a, b))

    def getattr(self, obj, attr, node, mod):
        if isinstance(obj, AObj):
            if attr not in obj.fields:
                obj.fields[attr] = Unknown(f"{obj.name}.{attr}")
            return obj.fields[attr]
        if isinstance(obj, tuple) and obj and obj[0] == "class":
            _, m, c = obj
            for st in c.body:
                if isinstance(st, (ast.FunctionDef,)) and st.name == attr:
                    return ("func", m, st)
            # class constants evaluated in class scope order
            key = (m.name, c.name)
            if key in self._class_consts:
                cenv = self._class_consts[key]
                if attr in cenv:
                    return cenv[attr]
                return Unknown(f"{c.name}.{attr}")
            cenv = {}
            is_enum = any((dotted(b) or "").split(".")[-1] in ("Enum", "IntEnum", "Flag", "IntFlag") for b in c.bases)
            is_int_enum = any((dotted(b) or "").split(".")[-1] in ("IntEnum", "IntFlag") for b in c.bases)
            auto_n = [0]

            def _auto(interp, a, k, node):
                auto_n[0] += 1
                return auto_n[0]

            saved = self.externs.get("enum.auto")
            self.externs["enum.auto"] = _auto
            for st in c.body:
                tgt = None
                if isinstance(st, ast.Assign) and len(st.targets) == 1 and isinstance(st.targets[0], ast.Name):
                    tgt, val = st.targets[0].id, st.value
                elif isinstance(st, ast.AnnAssign) and isinstance(st.target, ast.Name) and st.value is not None:
                    tgt, val = st.target.id, st.value
                if tgt:
                    try:
                        cenv[tgt] = self.eval(val, cenv, m)
                    except AnalysisError:
                        cenv[tgt] = Unknown(f"{c.name}.{tgt}")
                    if is_enum and not tgt.startswith("_"):
                        raw = cenv[tgt]
                        if is_int_enum and isinstance(raw, int):
                            pass  # IntEnum members behave as ints; keep the int (name is not needed for arithmetic)
                        else:
                            cenv[tgt] = EnumMember(m, c, tgt, raw)
            if saved is None:
                self.externs.pop("enum.auto", None)
            else:
                self.externs["enum.auto"] = saved
            self._class_consts[key] = cenv
            if attr in cenv:
                v = cenv[attr]
                return v
            return Unknown(f"{c.name}.{attr}")
        if isinstance(obj, tuple) and obj and obj[0] == "module":
            m = obj[1]
            if attr in m.functions:
                return ("func", m, m.functions[attr])
            if attr in m.classes:
                return ("class", m, m.classes[attr])
            return Unknown(f"{m.name}.{attr}")
        if isinstance(obj, tuple) and obj and obj[0] in ("extmodule", "extfunc"):
            nm = f"{obj[1]}.{attr}"
            if nm in self.externs and not callable(self.externs[nm]):
                return self.externs[nm]
            return ("extfunc", nm)
        if isinstance(obj, (AList, SymList, str, bytes, dict)) or (isinstance(obj, tuple) and (not obj or obj[0] not in ("func",))):
            return ("method", obj, attr)
        if isinstance(obj, Unknown):
            return Unknown(f"{obj.text}.{attr}")
        if isinstance(obj, EnumMember):
            if attr == "value":
                return obj.value
            if attr == "name":
                return obj.name
            for st in obj.cls.body:
                if isinstance(st, ast.FunctionDef) and st.name == attr:
                    return ("boundmethod", obj.mod, st, obj)
            raise AnalysisError(f"absint: enum member attribute {obj!r}.{attr}")
        if isinstance(obj, BV) or isinstance(obj, int):
            if attr == "value":
                return obj
            return ("method", obj, attr)
        if isinstance(obj, float) and attr == "astype":
            return ("method", obj, attr)
        raise AnalysisError(f"absint: attribute {attr} of {obj!r} at {mod.rel}:{node.lineno}")

    def subscript(self, obj, slc, env, mod, node):
        idx = self.eval(slc, env, mod)
        if isinstance(obj, AList):
            if isinstance(idx, (int, slice)):
                try:
                    r = obj.items[idx]
                except IndexError:
                    raise _Raise(AObj("IndexError"))
                except TypeError:
                    # a slice with a symbolic bound: the selection is not known
                    return Unknown(f"{obj.name}[{_text(idx)}]")
                return AList(r) if isinstance(idx, slice) else r
            return Unknown(f"{obj.name}[{_text(idx)}]")
        if isinstance(obj, dict) and isinstance(idx, (AObj, EnumMember)):
            if idx in obj:
                return obj[idx]
            raise _Raise(AObj("KeyError"))
        if isinstance(obj, dict) and isinstance(idx, Unknown) and self.fork_dict and obj:
            keys = list(obj.keys())
            i = self.choose(len(keys), f"{idx.text} == ?")
            self.trace[-1] = (f"{idx.text} == {keys[i]!r}", True, i, len(keys))
            self.facts.append((f"{idx.text} == {keys[i]!r}", True))
            self.bindings[idx.text] = keys[i]
            return obj[keys[i]]
        if isinstance(obj, (str, bytes, tuple, list, dict, range)):
            if _is_conc(idx) or isinstance(idx, slice):
                try:
                    return obj[idx]
                except (IndexError, KeyError):
                    raise _Raise(AObj("IndexError"))
            return Unknown(f"{_text(obj)}[{_text(idx)}]")
        if isinstance(obj, AObj):
            key = ("item", _text(idx))
            if key not in obj.fields:
                obj.fields[key] = Unknown(f"{obj.name}[{_text(idx)}]")
            return obj.fields[key]
        if isinstance(obj, Unknown):
            return Unknown(f"{obj.text}[{_text(idx)}]")
        raise AnalysisError(f"absint: subscript of {obj!r} at {mod.rel}:{node.lineno}")

    def call(self, e, env, mod):
        if (
            isinstance(e.func, ast.Attribute)
            and e.func.attr == "__init__"
            and isinstance(e.func.value, ast.Call)
            and isinstance(e.func.value.func, ast.Name)
            and e.func.value.func.id == "super"
            and self._super_ctx
            and "self" in env
        ):
            m, c = self._super_ctx[-1]
            args = [self.eval(a, env, mod) for a in e.args]
            kwargs = {k.arg: self.eval(k.value, env, mod) for k in e.keywords if k.arg}
            for b in c.bases:
                bn = (dotted(b) or "").split(".")[-1]
                for m2 in self.repo.core_modules():
                    if bn in m2.classes:
                        self._construct(m2, m2.classes[bn], env["self"], args, kwargs)
                        return None
            return None
        f = self.eval(e.func, env, mod)
        args = []
        for a in e.args:
            if isinstance(a, ast.Starred):
                v = self.eval(a.value, env, mod)
                if isinstance(v, (tuple, list)):
                    args.extend(v)
                elif isinstance(v, AList) and not any(isinstance(i, Seg) for i in v.items):
                    args.extend(v.items)
                else:
                    args.append(("*", v, list(v.items) if isinstance(v, AList) else None))
            else:
                args.append(self.eval(a, env, mod))
        kwargs = {k.arg: self.eval(k.value, env, mod) for k in e.keywords if k.arg}
        name = call_name(e) or norm(e.func)
        if callable(f) and not isinstance(f, tuple):
            return f(self, args, kwargs, e)
        if isinstance(f, tuple) and f and f[0] == "func":
            if f[2].name in self.stubs:
                o = Unknown(f"{f[2].name}({', '.join(_text(a) for a in args)})", ("call", f[2].name, args))
                self.calls_log.append((f[2].name, args, kwargs, o))
                return o
            return self.call_function(f[1], f[2], args, kwargs)
        if isinstance(f, tuple) and f and f[0] == "boundmethod":
            return self.call_function(f[1], f[2], [f[3]] + args, kwargs)
        if isinstance(f, tuple) and f and f[0] == "class":
            _, m, c = f
            bases = [dotted(b) for b in c.bases]
            if any(b and b.endswith("Error") or b in ("Exception",) for b in bases) or c.name.endswith("Error"):
                o = AObj(c.name, {"args": args})
                return o
            if c.name in self.construct:
                o = AObj(c.name + "()", cls=c.name)
                self.objects.append(o)
                self._construct(m, c, o, args, kwargs)
                return o
            nt = [dotted(b) for b in c.bases]
            if "NamedTuple" in nt:
                flds = [st.target.id for st in c.body if isinstance(st, ast.AnnAssign) and isinstance(st.target, ast.Name)]
                o = AObj(c.name + "()", cls=c.name)
                for i, fname in enumerate(flds):
                    if i < len(args):
                        o.fields[fname] = args[i]
                    elif fname in kwargs:
                        o.fields[fname] = kwargs[fname]
                o.tuple_fields = flds
                self.objects.append(o)
                return o
            o = AObj(c.name + "()")
            self.objects.append(o)
            self.calls_log.append((c.name, args, kwargs, o))
            return o
        if isinstance(f, tuple) and f and f[0] == "builtin":
            return self.builtin(f[1], args, kwargs, e, mod)
        if isinstance(f, tuple) and f and f[0] == "method":
            return self.method(f[1], f[2], args, kwargs, e, mod)
        if isinstance(f, tuple) and f and f[0] == "localfunc":
            return self.call_function(f[3], f[1], args, kwargs, closure=f[2])
        if isinstance(f, tuple) and f and f[0] == "extfunc":
            if f[1] in self.externs:
                return self.externs[f[1]](self, args, kwargs, e)
            if f[1] == "struct.pack":
                return APack(args[0], args[1:])
            if f[1] == "typing.cast":
                return args[1]
            o = Unknown(f"{f[1]}({', '.join(_text(a) for a in args)})", ("call", f[1], args))
            self.calls_log.append((f[1], args, kwargs, o))
            return o
        if isinstance(f, Unknown):
            # call of an unknown callable: opaque object, recorded
            if f.text.endswith("Error") or f.text.split(".")[-1].endswith("Error"):
                return AObj(f.text.split(".")[-1], {"args": args})
            o = AObj(f"{f.text}()")
            self.objects.append(o)
            self.calls_log.append((f.text, args, kwargs, o))
            return o
        if isinstance(f, AObj):
            o = Unknown(f"{f.name}()")
            return o
        raise AnalysisError(f"absint: cannot call {f!r} ({name}) at {mod.rel}:{e.lineno}")

    def builtin(self, name, args, kwargs, e, mod):
        if name == "type" and len(args) == 1:
            v = args[0]
            if v is None or isinstance(v, (bool, int, float, str, bytes)):
                return ("pytype", type(v).__name__)
            if isinstance(v, AObj) and getattr(v, "cls", None):
                return ("pytype", v.cls if isinstance(v.cls, str) else getattr(v.cls, "name", str(v.cls)))
            return Unknown(f"type({_text(v)})")
        if name == "bin":
            return bin(args[0]) if isinstance(args[0], int) and not isinstance(args[0], bool) else Unknown(f"bin({_text(args[0])})")
        if name == "len":
            v = args[0]
            if isinstance(v, AList):
                if any(isinstance(i, Seg) for i in v.items):
                    return ALen(v, v.items)
                return len(v.items)
            if isinstance(v, SymList):
                return BV.sym(f"len({v.name})")
            if isinstance(v, (str, bytes, tuple, list, dict, range)):
                return len(v)
            return Unknown(f"len({_text(v)})")
        if name == "range":
            if all(isinstance(a, int) for a in args):
                return range(*args)
            raise AnalysisError(f"absint: symbolic range() at {mod.rel}:{e.lineno}: {[_text(a) for a in args]}")
        if name == "int":
            v = args[0] if args else 0
            if isinstance(v, (int, float, str)) and not kwargs:
                return int(v, *args[1:]) if isinstance(v, str) else int(v)
            if isinstance(v, BV):
                return v
            return Unknown(f"int({_text(v)})", ("int", v))
        if name == "divmod" and len(args) == 2 and isinstance(args[0], BV) and isinstance(args[1], int):
            return (self.binop(ast.FloorDiv(), args[0], args[1]), self.binop(ast.Mod(), args[0], args[1]))
        if name in ("float", "abs", "max", "min", "round", "bool", "str", "bytes", "bytearray", "ord", "chr", "sum", "pow", "divmod"):
            if all(_is_conc(a) for a in args) and not kwargs:
                try:
                    r = {"float": float, "abs": abs, "max": max, "min": min, "round": round, "bool": bool, "str": str,
                         "bytes": bytes, "bytearray": lambda *a: AList(list(bytearray(*a)), "bytearray"), "ord": ord, "chr": chr,
                         "sum": sum, "pow": pow, "divmod": divmod}[name](*args)
                    return r
                except Exception as ex:
                    raise AnalysisError(f"absint: builtin {name} failed: {ex}")
            return Unknown(f"{name}({', '.join(_text(a) for a in args)})", (name, *args))
        if name == "isinstance":
            o = args[0]
            if isinstance(o, AObj) and getattr(o, "cls", None):
                want = args[1] if isinstance(args[1], tuple) and args[1] and args[1][0] not in ("class", "extfunc") else (args[1],)
                names = []
                for w in want:
                    if isinstance(w, tuple) and w and w[0] == "class":
                        names.append(w[2].name)
                    elif isinstance(w, tuple) and w and w[0] == "extfunc":
                        names.append(w[1].split(".")[-1])
                    else:
                        names = None
                        break
                if names is not None:
                    return any(n in self.class_ancestors(o.cls) for n in names)
            if isinstance(o, EnumMember):
                names = [w[1].split(".")[-1] if w[0] == "extfunc" else w[2].name for w in (args[1] if isinstance(args[1], tuple) and args[1] and isinstance(args[1][0], tuple) else (args[1],))]
                anc = {(dotted(b) or "").split(".")[-1] for b in o.cls.bases} | {o.cls.name}
                return any(n in anc for n in names)
            if isinstance(o, (int, BV)) and not isinstance(o, bool):
                w = args[1]
                if isinstance(w, tuple) and w and w[0] == "extfunc" and w[1].split(".")[-1] in ("Enum", "IntEnum"):
                    return False
            return Unknown(f"isinstance({_text(args[0])}, {norm(e.args[1])})")
        if name == "dict" and not args:
            return dict(kwargs)
        if name == "set" and not args:
            return AList([], "set")
        if name in ("list", "tuple"):
            v = args[0] if args else ()
            if isinstance(v, AList):
                return AList(v.items) if name == "list" else tuple(v.items)
            if isinstance(v, (tuple, list, range, str, bytes)):
                return AList(list(v)) if name == "list" else tuple(v)
            if isinstance(v, SymList) and name == "list":
                return AList([Seg(v.name)])
            return Unknown(f"{name}({_text(v)})")
        if name == "enumerate":
            v = args[0]
            if isinstance(v, AList):
                v = v.items
            if isinstance(v, (list, tuple, range, str)):
                return list(enumerate(v, *args[1:]))
        if name == "zip":
            seqs = [a.items if isinstance(a, AList) else a for a in args]
            if all(isinstance(s, (list, tuple, range, str)) for s in seqs):
                return list(zip(*seqs))
        if name in ("any", "all") and len(args) == 1:
            v = args[0]
            seq = v.items if isinstance(v, AList) else v
            if isinstance(seq, (list, tuple)):
                unk = [x for x in seq if isinstance(x, (Unknown, BV))]
                conc = [x for x in seq if not isinstance(x, (Unknown, BV))]
                truth = [bool(x.items) if isinstance(x, AList) else bool(x) for x in conc]
                if name == "any" and any(truth):
                    return True
                if name == "all" and not all(truth):
                    return False
                if not unk:
                    return name == "all"
                return Cond(f"{name}({', '.join(_text(x) for x in unk)})", "and" if name == "all" else "or", [x for x in unk if isinstance(x, Cond)])
            return Unknown(f"{name}({_text(v)})")
        if name == "print":
            return None
        return Unknown(f"{name}({', '.join(_text(a) for a in args)})")

    def method(self, obj, attr, args, kwargs, e, mod):
        if isinstance(obj, AList):
            if attr == "append":
                obj.items.append(args[0])
                obj.log.append(("append", args[0]))
                return None
            if attr == "extend":
                v = args[0]
                if isinstance(v, AList):
                    obj.items.extend(v.items)
                elif isinstance(v, SymList):
                    obj.items.append(Seg(v.name))
                elif isinstance(v, (list, tuple)):
                    obj.items.extend(v)
                else:
                    raise AnalysisError(f"absint: extend with {v!r}")
                obj.log.append(("extend", v))
                return None
            if attr == "insert" and isinstance(args[0], int):
                obj.items.insert(args[0], args[1])
                obj.log.append(("insert", args[0], args[1]))
                return None
            if attr == "pop":
                obj.log.append(("pop",) + tuple(args))
                return obj.items.pop(*args)
            raise AnalysisError(f"absint: list method {attr} at {mod.rel}:{e.lineno}")
        if isinstance(obj, int) and not isinstance(obj, bool) and attr == "bit_length" and not args:
            return obj.bit_length()
        if isinstance(obj, (BV, int)) and not isinstance(obj, bool) and attr == "to_bytes" and len(args) >= 1 and isinstance(args[0], int):
            # int.to_bytes(n, order): byte k of the little-endian image is bits 8k..8k+7 (unsigned; the caller's range is its own business)
            order = args[1] if len(args) > 1 else kwargs.get("byteorder", "big")
            if kwargs.get("signed") or order not in ("little", "big"):
                raise AnalysisError(f"absint: to_bytes form not modelled at {mod.rel}:{e.lineno}")
            b = obj if isinstance(obj, BV) else BV.const(obj)
            n_ = args[0]
            chunks = [BV(tuple(b.bits[8 * k:8 * k + 8]) + (0,) * (W - 8)) for k in range(n_)]
            chunks = [c.concrete() if c.concrete() is not None else c for c in chunks]
            if order == "big":
                chunks.reverse()
            return AList(chunks)
        if isinstance(obj, (int, float)) and not isinstance(obj, bool) and attr == "astype" and len(args) == 1 and not kwargs and isinstance(e.args[0], (ast.Attribute, ast.Name)):
            # numpy scalar conversion `x.astype(np.int64)` / `.astype(int)` / `.astype(np.float32)` on a concrete number
            tname = e.args[0].attr if isinstance(e.args[0], ast.Attribute) else e.args[0].id
            if tname.startswith(("int", "uint")):
                return int(obj)
            if tname.startswith(("float", "double")):
                return float(obj)
        if isinstance(obj, str):
            if attr == "format":
                if all(isinstance(a, (int, str, float)) for a in args):
                    return obj.format(*args, **kwargs)
                return AFormat(obj, args)
            if all(_is_conc(a) for a in args):
                return getattr(obj, attr)(*args)
        if isinstance(obj, dict) and attr in ("items", "keys", "values") and not args:
            return list(getattr(obj, attr)())
        if isinstance(obj, dict) and attr == "get" and args and isinstance(args[0], (AObj, EnumMember, int, str)):
            return obj.get(*args)
        if isinstance(obj, (bytes, tuple, dict)) and all(_is_conc(a) for a in args):
            return getattr(obj, attr)(*args)
        if isinstance(obj, AObj):
            h = getattr(obj, "handlers", None)
            if h and attr in h:
                return h[attr](*args)
            obj.calls.append((attr, args, kwargs))
            return Unknown(f"{obj.name}.{attr}({', '.join(_text(a) for a in args)})")
        if isinstance(obj, SymList):
            raise AnalysisError(f"absint: method {attr} on symbolic list {obj.name}")
        return Unknown(f"{_text(obj)}.{attr}({', '.join(_text(a) for a in args)})")


# AObj method calls go through getattr -> Unknown; intercept: attribute of AObj
# that is then called records the call.
_orig_getattr = Interp.getattr


def _find_method(self, clsname, attr):
    for cn in [clsname] + sorted(self.class_ancestors(clsname) - {clsname}):
        for m in self.repo.core_modules():
            if cn in m.classes:
                for st in m.classes[cn].body:
                    if isinstance(st, ast.FunctionDef) and st.name == attr:
                        return m, st
    return None


Interp.find_method = _find_method


def _getattr(self, obj, attr, node, mod):
    if isinstance(obj, AObj):
        if obj.cls and attr not in obj.fields:
            fm = self.find_method(obj.cls, attr)
            if fm:
                return ("boundmethod", fm[0], fm[1], obj)
        parent = mod.parents.get(node)
        if isinstance(parent, ast.Call) and parent.func is node:
            return ("method", obj, attr)
    return _orig_getattr(self, obj, attr, node, mod)


Interp.getattr = _getattr

_NOFOLD = object()
_BUILTINS = {
    "len", "range", "int", "float", "abs", "max", "min", "round", "bool", "str", "bytes", "bytearray", "isinstance",
    "list", "tuple", "enumerate", "zip", "print", "ord", "chr", "sum", "pow", "divmod", "any", "all", "dict", "set", "bin", "type",
}
_CMP = {ast.Lt: "<", ast.LtE: "<=", ast.Gt: ">", ast.GtE: ">=", ast.Eq: "==", ast.NotEq: "!=", ast.Is: "is",
        ast.IsNot: "is not", ast.In: "in", ast.NotIn: "not in"}
_CMPF = {
    "<": lambda a, b: a < b, "<=": lambda a, b: a <= b, ">": lambda a, b: a > b, ">=": lambda a, b: a >= b,
    "==": lambda a, b: a == b, "!=": lambda a, b: a != b, "is": lambda a, b: a is b, "is not": lambda a, b: a is not b,
    "in": lambda a, b: a in b, "not in": lambda a, b: a not in b,
}
_BINF = {
    ast.Add: lambda a, b: a + b, ast.Sub: lambda a, b: a - b, ast.Mult: lambda a, b: a * b,
    ast.FloorDiv: lambda a, b: a // b, ast.Div: lambda a, b: a / b, ast.Mod: lambda a, b: a % b,
    ast.LShift: lambda a, b: a << b, ast.RShift: lambda a, b: a >> b, ast.BitOr: lambda a, b: a | b,
    ast.BitAnd: lambda a, b: a & b, ast.BitXor: lambda a, b: a ^ b, ast.Pow: lambda a, b: a**b,
}
_OPSYM = {ast.Add: "+", ast.Sub: "-", ast.Mult: "*", ast.FloorDiv: "//", ast.Div: "/", ast.Mod: "%", ast.LShift: "<<",
          ast.RShift: ">>", ast.BitOr: "|", ast.BitAnd: "&", ast.BitXor: "^", ast.Pow: "**"}


def _is_num(v):
    return isinstance(v, (int, float)) and not isinstance(v, bool) or isinstance(v, bool)


def _is_conc(v):
    return isinstance(v, EnumMember) or v is None or isinstance(v, (int, float, str, bytes, bool)) or (isinstance(v, tuple) and all(_is_conc(x) for x in v) and (not v or v[0] not in ("func", "class", "module", "builtin", "method", "extfunc", "extmodule", "localfunc")))


def _text(v):
    if isinstance(v, Unknown):
        return v.text
    if isinstance(v, AObj):
        return v.name
    if isinstance(v, tuple) and v and v[0] in ("func", "class"):
        return v[2].name
    return repr(v)


def _load(target):
    import copy

    t = copy.deepcopy(target)
    for n in ast.walk(t):
        if hasattr(n, "ctx"):
            n.ctx = ast.Load()
    return t

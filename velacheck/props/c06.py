"""C06 The register command stream encodes exactly the operations it was given.

Static rules over register_command_stream_generator.py with api.py and
ethos_u55_regs.py as oracles. The generator functions are abstractly
interpreted (bit-provenance domain, all paths) with symbolic operations and a
recording emitter; nothing from the repository is executed."""
import ast
import re

from ..absint import AList, AObj, BV, EnumMember, Interp, SymList, Unknown
from ..astutil import calls_in, call_name, dotted, norm, try_fold
from ..cfg import cfg_of
from ..core import AnalysisError
from ..tables import bitfields, enum_of, subclasses

GEN = "register_command_stream_generator"
FILE = "ethosu/vela/register_command_stream_generator.py"
CHECKS = {"check_addresses", "check_strides", "check_alignment", "check_length", "check_dma_op", "check_stride", "check_size"}


def _site(fn):
    return f"{FILE}:{fn}"


def _emits(path, emit):
    """[(method, REGNAME, value, extra args)] recorded on the emitter object."""
    out = []
    for meth, args, kwargs in emit.calls:
        if meth in ("cmd0_with_param", "cmd1_with_offset", "cmd1_with_address", "cmd_do_operation", "cmd_wait"):
            reg = args[0] if args else None
            rn = reg.name if isinstance(reg, EnumMember) else repr(reg)
            rest = list(args[1:]) + [kwargs[k] for k in sorted(kwargs)]
            out.append((meth, rn, rest))
    return out


def _txt(v):
    if isinstance(v, Unknown):
        return v.text
    if isinstance(v, AObj):
        return v.name
    return repr(v)


# ------------------------------------------------------------------ roles
AXIS_WORDS = {
    "H": {"height", "stride_y", "dilation_y", "height_0", "height_1"},
    "W": {"width", "stride_x", "dilation_x", "width_0"},
    "C": {"depth"},
}
SIDE_WORDS = {"top", "left", "bottom", "right"}
FM_WORDS = {"ifm", "ifm2", "ofm", "src", "dest", "weights", "biases"}


def _reg_roles(reg):
    r = {}
    toks = reg.split("_")
    if "IFM2" in toks:
        r["fm"] = "ifm2"
    elif "IFM" in toks:
        r["fm"] = "ifm"
    elif "OFM" in toks:
        r["fm"] = "ofm"
    elif "WEIGHT" in toks or "WEIGHT1" in toks:
        r["fm"] = "weights"
    elif ("SCALE" in toks or "SCALE1" in toks) and toks[-1] in ("BASE", "LENGTH", "REGION"):
        r["fm"] = "biases"
    elif "SRC" in toks:
        r["fm"] = "src"
    elif "DST" in toks:
        r["fm"] = "dest"
    elif reg == "NPU_SET_DMA0_LEN":
        r["fm"] = "src"  # the transfer length is the source range's length
    for t in toks:
        if t in ("HEIGHT", "HEIGHT0", "HEIGHT1"):
            r["axis"] = "H"
        elif t in ("WIDTH", "WIDTH0"):
            r["axis"] = "W"
        elif t == "DEPTH":
            r["axis"] = "C"
        elif t in ("TOP", "LEFT", "BOTTOM", "RIGHT"):
            r["side"] = t.lower()
        if t in ("HEIGHT0", "HEIGHT1", "WIDTH0"):
            r["tile"] = t[:-1].lower() + "_" + t[-1]
    if toks[-2:-1] == ["STRIDE"] and toks[-1] in ("X", "Y", "C"):
        r["axis"] = {"X": "W", "Y": "H", "C": "C"}[toks[-1]]
    if "BLK" in toks:
        r["fm"] = None
        r["blk"] = True
    kw = {
        "REGION": "region", "ZERO_POINT": "zero_point", "IB_END": "ib_end", "AB_START": "ab_start", "IB_START": "ib_start2",
        "ACC_FORMAT": "acc_type", "UPSCALE": "ifm_upscale", "SCALAR": "scalar", "LENGTH": "length", "LEN": "length",
        "ACTIVATION_MIN": "min", "ACTIVATION_MAX": "max",
    }
    for k, w in kw.items():
        if reg.endswith(k):
            r["kw"] = w
    if re.search(r"_BASE\d?$", reg) or reg in ("NPU_SET_DMA0_SRC", "NPU_SET_DMA0_DST"):
        r["kw"] = "address"
    m = re.search(r"_BASE(\d)$", reg)
    if m:
        r["index"] = int(m.group(1))
    if reg.endswith("_M1"):
        r["m1"] = True
    return {k: v for k, v in r.items() if v is not None}


def _text_words(text):
    return re.findall(r"[A-Za-z_][A-Za-z_0-9]*", text)


def check_roles(rep, rule, site, reg, value):
    """Role agreement between a register name and the (alias-inlined) value."""
    roles = _reg_roles(reg)
    text = _txt(value)
    construct = f"{reg} <- {text}"
    if isinstance(value, (int, bool)) or value is None:
        rep.ok(rule, site, construct, "constant")
        return
    words = _text_words(text)
    wset = set(words)
    probs = []
    if "fm" in roles:
        got = {w for w in words if w in FM_WORDS}
        # `npu_op.ifm2.x` style roots and plain parameter names both count
        if got and got != {roles["fm"]}:
            # 'ifm' is a substring token of nothing else; exact token compare
            probs.append(f"operand {sorted(got)} used for a {roles['fm']} register")
    if "axis" in roles:
        ok_words = AXIS_WORDS[roles["axis"]]
        other = set().union(*(v for k, v in AXIS_WORDS.items() if k != roles["axis"]))
        bad = wset & other
        if bad:
            probs.append(f"axis words {sorted(bad)} in a {roles['axis']}-axis register")
        elif not (wset & ok_words):
            probs.append(f"no {roles['axis']}-axis quantity in the value")
    if "side" in roles:
        bad = (wset & SIDE_WORDS) - {roles["side"]}
        if bad or roles["side"] not in wset:
            probs.append(f"side {sorted(wset & SIDE_WORDS)} for a {roles['side']} register")
    if "tile" in roles:
        if roles["tile"] not in wset:
            probs.append(f"tile field {roles['tile']} not used")
    if "kw" in roles:
        kwd = roles["kw"]
        if not any(kwd in w for w in words):
            probs.append(f"value does not derive from '{kwd}'")
    if "index" in roles:
        if f"[{roles['index']}]" not in text:
            probs.append(f"address index {roles['index']} not used")
    if roles.get("m1"):
        p = getattr(value, "parts", None)
        ok = False
        if p and p[0] == "-" and p[2] == 1:
            ok = True
        elif p and p[0] == "*":
            for q in (p[1], p[2]):
                qp = getattr(q, "parts", None)
                if qp and qp[0] == "-" and qp[2] == 1:
                    ok = True
        if not ok:
            probs.append("a minus-one register is not given `x - 1`")
    rep.check(not probs, rule, site, construct, "; ".join(probs))


def _bounds(v):
    """(lower, upper) bounds (None = unbounded) of a value built from
    constants and min()/max() over unknowns."""
    if isinstance(v, bool):
        return (int(v), int(v))
    if isinstance(v, int):
        return (v, v)
    p = getattr(v, "parts", None)
    if p and p[0] in ("max", "min"):
        bs = [_bounds(a) for a in p[1:]]
        los = [b[0] for b in bs]
        his = [b[1] for b in bs]
        if p[0] == "max":
            lo = max([x for x in los if x is not None], default=None)
            hi = None if any(x is None for x in his) else max(his)
        else:
            hi = min([x for x in his if x is not None], default=None)
            lo = None if any(x is None for x in los) else min(los)
        return (lo, hi)
    return (None, None)


# ------------------------------------------------------------------ helpers


def _fm(name, **kw):
    return AObj(name, kw)


def _members(repo, mod, cls):
    it = Interp(repo, repo.mod(mod))
    c = ("class", repo.mod(mod), repo.mod(mod).cls(cls))
    node = ast.parse("X.__members__").body[0].value
    it._class_consts = {}
    # force evaluation of the class constants
    it.script, it.pos, it.trace, it.facts, it.upper, it.calls_log, it.objects, it.bindings, it.depth = [], 0, [], [], {}, [], [], {}, 0
    it.getattr(c, "__none__", node, repo.mod(mod))
    consts = it._class_consts[(repo.mod(mod).name, cls)]
    return {k: v for k, v in consts.items() if isinstance(v, EnumMember)}


def run(repo, rep):

    from .shared import truthiness_lint

    truthiness_lint(repo, rep, "C06-d", ['register_command_stream_generator', 'register_command_stream_util', 'high_level_command_to_npu_op', 'api'])
    from .shared import mirror_families, module_axis_lint

    module_axis_lint(repo, rep, "C06-d", ['register_command_stream_generator', 'register_command_stream_util', 'high_level_command_to_npu_op', 'api'])

    mirror_families(repo, rep, "C06-d", {('high_level_command_to_npu_op', '', 'NpuElementWiseOp'): 'elementwise operator map', ('high_level_command_to_npu_op', '', 'NpuResamplingMode'): 'resampling mode map', ('register_command_stream_generator', '', 'resampling_mode'): 'resampling mode encoding', ('high_level_command_to_npu_op', '', 'out_block'): 'OFM block config', ('high_level_command_to_npu_op', '', 'ifm2_blk'): 'IFM2 block'})
    gen = repo.mod(GEN)
    api = repo.mod("api")
    regs = repo.mod("ethos_u55_regs.ethos_u55_regs")
    rep.clause("C06-a", "every NpuOperation subclass and every sub-operation / mode enum member has an encoding (dispatch and map totality)")
    rep.clause("C06-b", "mode maps pair equal-named members (or the frozen reviewed pairing)")
    rep.clause("C06-c", "structured parameters are packed at the bit positions ethos_u55_regs declares (precision, broadcast, activation, kernel stride), for every enum/path combination")
    rep.clause("C06-d", "each register receives the operation field its name says (operand, axis, side, tile, minus-one form), and every API field reaches an emission")
    rep.clause("C06-e", "register elision compares and stores exactly what is emitted; NPU_OP/wait commands are never elided; DMA and non-DMA banks are separate")
    rep.clause("C06-f", "command word layout: 10-bit opcode, payload bit, 16-bit param at bit 16, 32-bit payload, address high bits as param")
    rep.clause("C06-g", "alignment / length checks dominate the emissions they protect")
    rep.clause("C06-h", "exactly one NPU_OP_STOP, after the operation loop, nothing emitted after it")
    rep.undecided("value fidelity for run-time magnitudes (silent & 0xFFFF truncation of oversized fields), decoded-equals-input for every history")
    from .shared import duplicate_branch_lint

    duplicate_branch_lint(repo, rep, "C06-e", ['register_command_stream_generator', 'register_command_stream_util', 'high_level_command_to_npu_op'])
    rep.assume("Python asserts are enabled (Vela is not run with -O)")

    cmd0 = _members(repo, "ethos_u55_regs.ethos_u55_regs", "cmd0")
    cmd1 = _members(repo, "ethos_u55_regs.ethos_u55_regs", "cmd1")

    rule_tables(repo, rep, gen, api, regs)
    rule_emitter(repo, rep, gen, cmd0, cmd1)
    rule_roles(repo, rep, gen, api)
    rule_bits(repo, rep, gen, api)
    rule_dispatch(repo, rep, gen, api)
    rule_checks(repo, rep, gen)
    rule_stop(repo, rep, gen)
    # waits precede the operation they guard: the wait computation and its emission order are decided by C04's rules
    rep.clause("C06-i", "the waits computed for an operation follow the hardware queue model for every queue configuration [rule shared with C04-d]")
    rep.clause("C06-j", "waits and BLOCKDEP are emitted before the NPU_OP they guard [rule shared with C04-e]")
    from . import c04

    rep.clause("C06-l", "the access set the waits are computed from names every address-bearing field of the operation and the SHRAM it touches [rule shared with C04-b]")
    rep.run_borrowed(c04, {"C04-d": "C06-i", "C04-e": "C06-j", "C04-b": "C06-l"}, repo)
    rep.clause("C06-k", "OFM / OPA / OPB scale registers receive the (scale, shift) pair of their own role from the scale derivations [rule shared with C09-c]")
    from . import c09

    rep.run_borrowed(c09, {"C09-c": "C06-k"}, repo)
    rep.clause("C06-o", "the pooling (scale, shift) pair fits the 32 + 6 bits of OFM_SCALE for every window size and scale ratio: the emitter masks a wider value silently [rule shared with C09-h]")
    rep.run_borrowed(c09, {"C09-h": "C06-o"}, repo)
    rep.clause("C06-p", "the shift that quantise_scale hands to the scale registers fits their 6-bit field: out-of-range shifts degrade to the zero multiplier [rule shared with C09-a]")
    rep.run_borrowed(c09, {"C09-a": "C06-p"}, repo, only_sites=("quantise_scale",))
    rep.clause("C06-m", "the SHRAM layout emitted for an operation (try_block_config) is derived like the layout the block config was selected with (find_block_config) [rule shared with C15-d]")
    from . import c15

    rep.run_borrowed(c15, {"C15-d": "C06-m"}, repo)
    rep.clause("C06-q", "SHRAM layout written by the stream: IFM / accumulator partitions are sized per element with 8-channel rounding, double buffered and bank-granule aligned [rule shared with C15-c]")
    rep.run_borrowed(c15, {"C15-c": "C06-q", "C15-g": "C06-q"}, repo)
    rep.clause("C06-r", "the zero point register of every feature map is written on every path of its emitter (a scalar second operand still has a zero point that the hardware applies)")
    rule_zero_point_always(repo, rep)
    rep.clause("C06-t", "a scalar second operand fits the 16-bit field of NPU_SET_IFM2_SCALAR (checked before emission)")
    rule_scalar_field_width(repo, rep)
    rep.clause("C06-u", "scalars and clamps are quantised with round-half-away-from-zero (quantise_float32, the function behind IFM2_SCALAR and ACTIVATION_MIN / MAX, interpreted on ties)")
    rule_quantise_float32(repo, rep)
    rep.clause("C06-s", "register / operand agreement of the emitter helpers [rule shared with C02-q]")
    from .shared import register_operand_agreement as _roa

    if _roa(repo, rep, "C06-s") < 8:
        raise AnalysisError("register_command_stream_generator: fewer than 8 calls name both a register family and an operand")
    from . import c10

    rep.run_borrowed(c10, {"C10-d": "C06-m"}, repo)
    rep.run_borrowed(c15, {"C15-e": "C06-d"}, repo, only_sites=("register_command_stream_util", "register_command_stream_generator", "architecture_features", "architecture_allocator"))
    rep.run_borrowed(c04, {"C04-a": "C06-l"}, repo)
    # IB_END / AB_START are computed by the block configuration code: the IFM block depth per precision is decided there [shared with C15-i]
    rep.run_borrowed(c15, {"C15-i": "C06-m"}, repo)
    rep.clause("C06-x", "the IFM partition behind IB_END is sized with the operation's upscaling: to_upscale is 1 for NONE, 2 for NEAREST and TRANSPOSE (interpreted for every member of the register enum)")
    rep.clause("C06-y", "a quantisation record without a scale keeps its zero point in ACTIVATION_MIN / MAX and IFM2_SCALAR: quantise() interpreted with a recording stub")
    rule_round12(repo, rep)
    rep.clause("C06-w", "the DMA source, destination and length registers are emitted in the 40-bit form (cmd1_with_address): on Ethos-U65 a DMA may move 2^32 bytes or more, the 32-bit form drops bits 32..39 of the length silently (reviewed table, frozen from the tree)")
    gd_ = repo.mod("register_command_stream_generator").func("generate_dma_op")
    forms = {}
    for c_ in ast.walk(gd_):
        if isinstance(c_, ast.Call) and isinstance(c_.func, ast.Attribute) and c_.func.attr in ("cmd1_with_address", "cmd1_with_offset") and c_.args:
            forms[str(norm(c_.args[0])).split(".")[-1]] = c_.func.attr
    for reg_ in ("NPU_SET_DMA0_SRC", "NPU_SET_DMA0_DST", "NPU_SET_DMA0_LEN"):
        rep.check(forms.get(reg_) == "cmd1_with_address", "C06-w", _site("generate_dma_op"), f"{reg_} is emitted with cmd1_with_address", f"emitted with {forms.get(reg_)}: the upper 8 bits of a 40-bit value are lost")
    # the registers of an operation are a function of that operation: the command stream modules keep no process-wide memo of earlier results
    from . import c14

    rep.clause("C06-v", "the registers emitted for an operation depend on that operation alone: the command stream modules keep no process-wide store written while generating (memo tables with incomplete keys) [rule shared with C14-a]")
    rep.run_borrowed(c14, {"C14-a": "C06-v"}, repo, only_sites=("register_command_stream_generator", "register_command_stream_util", "high_level_command_to_npu_op", "high_level_command_stream_generator", "architecture_allocator"))
    # ACC_FORMAT / AB_START follow the accumulator type function [shared with C15-c]
    rep.run_borrowed(c15, {"C15-c": "C06-m"}, repo, only_sites=("_acc_type",))
    # a flag that decides a register bit in one call and the emission of a register afterwards is fully decided before its first use
    from .shared import flag_consistency_lint

    rep.clause("C06-n", "a flag that selects a register bit in one call and the emission of a register afterwards is fully decided before its first use; on Ethos-U65 the source and the destination of a DMA are checked for legality independently")
    if flag_consistency_lint(repo, rep, "C06-n", ["register_command_stream_generator", "register_command_stream_util", "high_level_command_to_npu_op", "api"]) < 2:
        raise AnalysisError("flag consistency: no multi-definition flags found in the command stream generator")
    # DMA legality on Ethos-U65: the source and the destination are checked independently (both may be internal)
    cd_ = repo.mod("register_command_stream_util").func("check_dma_op")
    tests = [i_ for i_ in ast.walk(cd_) if isinstance(i_, ast.If) and "BASE_PTR_INDEX_MEM2MEM" in str(norm(i_.test))]
    srcs = [i_ for i_ in tests if "dma_op.src.region" in str(norm(i_.test))]
    dsts = [i_ for i_ in tests if "dma_op.dest.region" in str(norm(i_.test))]
    if len(srcs) != 1 or len(dsts) != 1:
        raise AnalysisError("check_dma_op: internal-region tests of source and destination not found")
    nested = any(x is dsts[0] for b in srcs[0].orelse + srcs[0].body for x in ast.walk(b)) or any(x is srcs[0] for b in dsts[0].orelse + dsts[0].body for x in ast.walk(b))
    rep.check(not nested, "C06-n", "ethosu/vela/register_command_stream_util.py:check_dma_op", "source and destination of an internal-to-internal DMA are checked independently",
              "the destination test is chained to the source test (elif / nested): with both ends in the internal region the destination alignment and the length multiple are never checked "
              "and misaligned DMA0_DST / DMA0_LEN registers are emitted")
    for side, ifs in (("src", srcs), ("dest", dsts)):
        body_calls = [str(norm(c_)) for b in ifs[0].body for c_ in ast.walk(b) if isinstance(c_, ast.Call)]
        rep.check(any(f"check_alignment(dma_op.{side}.address, 16)" == t for t in body_calls), "C06-n", "ethosu/vela/register_command_stream_util.py:check_dma_op",
                  f"an internal {side} address is checked for 16-byte alignment", str(body_calls))
    # an explicit rescale carried by the operation wins over everything else in the add/sub scaling chain
    ge_ = gen.func("generate_scaling_for_elementwise")
    from ..cfg import cfg_of as _cfg6

    c6 = _cfg6(ge_)
    rt = c6.nodes_where(lambda n_: n_.kind == "test" and str(norm(n_.expr)) in ("npu_op.rescale is not None", "npu_op.rescale is None", "npu_op.rescale"))
    nt = c6.nodes_where(lambda n_: n_.kind == "test" and str(norm(n_.expr)).startswith("None in ("))
    if not rt or not nt:
        raise AnalysisError("generate_scaling_for_elementwise: rescale / missing-scale tests not found")
    for t_ in nt:
        rep.check(any(c6.dominates(r_, t_) for r_ in rt), "C06-d", _site("generate_scaling_for_elementwise"), f"`{str(norm(c6.nodes[t_].expr))[:60]}` is only consulted after `npu_op.rescale is not None` was",
                  "the missing-scale fallback (1, 0) is chosen before the operation's explicit rescale is looked at: OFM_SCALE does not carry the requested pair")
    # zero point registers: get_zero_point returns the operation's zero point whenever a quantisation is given (scale or not)
    util = repo.mod("register_command_stream_util")
    itz = Interp(repo, util)
    sitez = "ethosu/vela/register_command_stream_util.py:get_zero_point"
    for label, q, want in (("no quantisation", None, 0), ("zero point with a scale", AObj("q", {"scale_f32": Unknown("scale"), "zero_point": BV.sym("zp", 16)}), "zp"),
                           ("zero point without a scale (scale_f32=None is legal API input)", AObj("q", {"scale_f32": None, "zero_point": BV.sym("zp", 16)}), "zp")):
        res = [p for p in itz.run("get_zero_point", lambda q=q: ([AObj("fm", {"quantization": q})], {}))]
        vals = [p.value for p in res if p.kind == "return"]
        if want == 0:
            ok = len(vals) == len(res) and all(v == 0 for v in vals) and vals
        else:
            ok = len(vals) == len(res) and vals and all(isinstance(v, BV) and all(b == ("s", "zp", i) for i, b in enumerate(v.bits[:16])) or (isinstance(v, Unknown) and "zp" in v.text) for v in vals)
        rep.check(bool(ok), "C06-d", sitez, f"{label}: the zero point registers get {'0' if want == 0 else 'the given zero point'}", f"returns {vals!r} on {[p.decisions for p in res]}")


# ------------------------------------------------------------------ a, b: tables


def _dict_pairs(mod, name):
    node = mod.assign(name)
    if not isinstance(node, ast.Dict):
        raise AnalysisError(f"{name} is not a dict literal")
    return [(norm(k), norm(v)) for k, v in zip(node.keys, node.values)]


def rule_tables(repo, rep, gen, api, regs):
    site = _site("<module>")
    maps = [
        # (map name, key enum (module, class), value enum, frozen pairing or None for name equality)
        ("pooling_op_map", ("api", "NpuPoolingOp"), "pooling_mode", None),
        ("elementwise_op_map", ("api", "NpuElementWiseOp"), "elementwise_mode", None),
        ("resampling_mode_map", ("api", "NpuResamplingMode"), "resampling_mode", None),
        ("rounding_mode_map", ("api", "NpuRoundingMode"), "rounding", None),
        ("activation_op_map", ("api", "NpuActivationOp"), "activation",
         {"NONE_OR_RELU": "NONE", "TANH": "TANH", "SIGMOID": "SIGMOID"}),  # TABLE_LOOKUP has its own branch (LUT_START + index)
        ("acc_format_map", ("architecture_features", "SHRAMElements"), "acc_format",
         {"Acc16": "FP_S5_10", "Acc32": "INT_32BIT", "Acc40": "INT_40BIT"}),  # accumulator element kinds only
    ]
    for name, (kmod, kcls), vcls, pairing in maps:
        keys = list(enum_of(repo, kmod, kcls))
        pairs = _dict_pairs(gen, name)
        got = {}
        for k, v in pairs:
            m = re.fullmatch(rf"{kcls}\.(\w+)", k)
            mv = re.fullmatch(rf"{vcls}\.(\w+)(\.value)?", v)
            if not m or not mv:
                raise AnalysisError(f"{name}: unrecognised entry {k}: {v}")
            got[m.group(1)] = mv.group(1)
        want_keys = list(pairing) if pairing else keys
        for k in want_keys:
            rep.check(k in got, "C06-a", site, f"{name} covers {kcls}.{k}", f"{kcls}.{k} has no encoding in {name}")
        vals = enum_of(repo, "ethos_u55_regs.ethos_u55_regs", vcls)
        for k, v in got.items():
            want = pairing.get(k) if pairing else k
            rep.check(v == want and v in vals, "C06-b", site, f"{name}[{kcls}.{k}] == {vcls}.{want}", f"maps to {vcls}.{v}")
    # precision_map: total over the bit sizes of NpuDataType, values log2(bytes)
    pm = dict(_dict_pairs(gen, "precision_map"))
    sizes = set()
    for k, v in enum_of(repo, "api", "NpuDataType").items():
        pass
    for st in api.cls("NpuDataType").body:
        if isinstance(st, ast.Assign) and isinstance(st.value, ast.Tuple) and isinstance(st.value.elts[0], ast.Constant):
            sizes.add(st.value.elts[0].value)
    if not sizes:
        raise AnalysisError("NpuDataType members not recognised")
    for sz in sorted(sizes):
        rep.check(pm.get(str(sz)) == str({8: 0, 16: 1, 32: 2}.get(sz)), "C06-a", site, f"precision_map[{sz}]",
                  f"precision_map[{sz}] = {pm.get(str(sz))}")
    rep.floor("C06-a", 25)
    rep.floor("C06-b", 20)


# ------------------------------------------------------------------ e, f: emitter


def rule_emitter(repo, rep, gen, cmd0, cmd1):
    site = _site("CommandStreamEmitter")
    it = Interp(repo, gen)

    def mk_self():
        rm0, rm1 = AObj("reg_machine0"), AObj("reg_machine1")
        s = AObj("self", {"cmd_stream": AList([], "cmd_stream"), "reg_machine": AList([rm0, rm1]), "offset": 0}, cls="CommandStreamEmitter")
        return s

    class _Cmd(AObj):
        pass

    def mk_cmd(code_bits=10, dma=None):
        c = AObj("cmd", {"value": BV.sym("code", code_bits), "name": Unknown("cmd.name")})
        return c

    # the register file an elision decision consults holds the values of the *previous* operation: RegisterMachine is modelled exactly
    # (set r=A; next op; set r=B; next op; set r=A must report a change for the third write)
    rm_init = gen.func("RegisterMachine.__init__")
    rm_set = gen.func("RegisterMachine.set_register")
    rm_sw = gen.func("RegisterMachine.switch_bank")
    nb = [st for st in rm_init.body if isinstance(st, ast.Assign) and norm(st.targets[0]) == "self.n_banks"]
    n_banks = try_fold(nb[0].value) if len(nb) == 1 else None
    forms_ok = (
        isinstance(n_banks, int) and n_banks >= 1
        and any(isinstance(st, ast.Assign) and norm(st.targets[0]) == "self.registers" and "range(self.n_banks)" in norm(st.value) for st in rm_init.body)
        and any(isinstance(st, ast.Assign) and norm(st.targets[0]) == "self.bank_idx" and try_fold(st.value) == 0 for st in rm_init.body)
        and [norm(st) for st in rm_sw.body] == ["self.bank_idx = (self.bank_idx + 1) % self.n_banks"]
        and [norm(st) for st in rm_set.body if not isinstance(st, ast.Expr)] == ["is_changed = self.registers[self.bank_idx][reg] != value", "self.registers[self.bank_idx][reg] = value", "return is_changed"]
    )
    if not forms_ok:
        raise AnalysisError("RegisterMachine: the bank structure (n_banks files, set_register on the current file, switch_bank to the next) is not recognised")
    # the recognised structure as a model: n_banks register files, written round-robin
    files, idx, seq = [dict() for _ in range(n_banks)], 0, []
    for v in ("A", "B", "A"):
        seq.append(files[idx].get("r") != v)
        files[idx]["r"] = v
        idx = (idx + 1) % n_banks
    model_ok = seq == [True, True, True]
    detail = f"with n_banks = {n_banks}, A, B, A with a switch_bank() after every operation reports changes {seq}"
    rep.check(model_ok, "C06-e", f"{GEN}:RegisterMachine", "a register written A, B, A by three consecutive operations is emitted three times (the elision test sees the previous operation's value)",
              detail + ": the third write is compared with the value of the operation before the previous one and dropped while the hardware register still holds B")

    # cmd0_with_param
    def mk0():
        return [mk_self(), mk_cmd(), BV.sym("param")], {}

    n_emit = n_elide = 0
    for p in it.run("CommandStreamEmitter.cmd0_with_param", mk0):
        slf = p.args[0][0]
        stream = slf.fields["cmd_stream"].items
        sr = [(o, c) for o in _all_objs(p) for c in o.calls if c[0] == "set_register"]
        if p.kind != "return":
            rep.bad("C06-e", site, "cmd0_with_param", "raises")
            continue
        if len(sr) != 1:
            rep.bad("C06-e", site, "cmd0_with_param: set_register called once on every path", f"{len(sr)} calls")
            continue
        key = sr[0][1][1][1]
        if stream:
            n_emit += 1
            w = stream[0]
            ok = isinstance(w, tuple) and len(w) == 1 and isinstance(w[0], BV)
            rep.check(ok, "C06-f", site, "cmd0 emits one word", f"emits {w!r}")
            if ok:
                b = w[0]
                rep.check(list(b.field(0, 10)) == [("s", "code", i) for i in range(10)], "C06-f", site, "cmd0 word bits 0..9 = opcode", repr(b))
                rep.check(all(x == 0 for x in b.field(10, 6)), "C06-f", site, "cmd0 word bits 10..15 = 0 (no payload)", repr(b))
                rep.check(list(b.field(16, 16)) == [("s", "param", i) for i in range(16)] and all(x == 0 for x in b.bits[32:]),
                          "C06-f", site, "cmd0 word bits 16..31 = param[0..15]", repr(b))
                rep.check(isinstance(key, tuple) and any(k is w[0] or (isinstance(k, BV) and k.bits == w[0].bits) for k in key),
                          "C06-e", site, "cmd0 elision key contains the emitted word", f"key {key!r}")
        else:
            n_elide += 1
            rep.check(any("set_register" in t and d is False or "set_register" in t for t, d in p.decisions), "C06-e", site,
                      "cmd0 elision happens only on the set_register verdict", f"decisions {p.decisions}")
    rep.check(n_emit >= 1 and n_elide >= 1, "C06-e", site, "cmd0_with_param has an emitting and an eliding path", f"{n_emit}/{n_elide}")

    # Enum parameters take .value
    act_members = _members(repo, "ethos_u55_regs.ethos_u55_regs", "activation")

    def mk0e():
        return [mk_self(), mk_cmd(), act_members["SIGMOID"]], {}

    for p in it.run("CommandStreamEmitter.cmd0_with_param", mk0e):
        stream = p.args[0][0].fields["cmd_stream"].items
        if stream:
            b = p.refine(stream[0][0])
            want = [(act_members["SIGMOID"].value >> i) & 1 for i in range(16)]
            rep.check(isinstance(b, BV) and [x for x in b.field(16, 16)] == want, "C06-f", site,
                      "cmd0 with an Enum parameter encodes its value", repr(b))

    # cmd1_with_offset
    def mk1():
        return [mk_self(), mk_cmd(), BV.sym("offset"), BV.sym("param")], {}

    n_emit = n_elide = 0
    for p in it.run("CommandStreamEmitter.cmd1_with_offset", mk1):
        stream = p.args[0][0].fields["cmd_stream"].items
        sr = [(o, c) for o in _all_objs(p) for c in o.calls if c[0] == "set_register"]
        if p.kind != "return" or len(sr) != 1:
            rep.bad("C06-e", site, "cmd1_with_offset: set_register called once on every path", f"{len(sr)} calls")
            continue
        key = sr[0][1][1][1]
        if stream:
            n_emit += 1
            w = stream[0]
            ok = isinstance(w, tuple) and len(w) == 2 and all(isinstance(x, BV) for x in w)
            rep.check(ok, "C06-f", site, "cmd1 emits two words", f"emits {w!r}")
            if ok:
                b, pay = w
                rep.check(list(b.field(0, 10)) == [("s", "code", i) for i in range(10)], "C06-f", site, "cmd1 word0 bits 0..9 = opcode", repr(b))
                rep.check(list(b.field(10, 6)) == [0, 0, 0, 0, 1, 0], "C06-f", site, "cmd1 word0 bits 14..15 = 01 (32-bit payload follows)", repr(b))
                rep.check(list(b.field(16, 16)) == [("s", "param", i) for i in range(16)] and all(x == 0 for x in b.bits[32:]),
                          "C06-f", site, "cmd1 word0 bits 16..31 = param[0..15]", repr(b))
                rep.check(list(pay.field(0, 32)) == [("s", "offset", i) for i in range(32)] and all(x == 0 for x in pay.bits[32:]),
                          "C06-f", site, "cmd1 word1 = offset[0..31]", repr(pay))
                flat = [k for k in key] if isinstance(key, tuple) else []
                rep.check(any(isinstance(k, BV) and k.bits == b.bits for k in flat) and any(isinstance(k, BV) and k.bits == pay.bits for k in flat),
                          "C06-e", site, "cmd1 elision key contains both emitted words (param and payload)", f"key {key!r}")
        else:
            n_elide += 1
    rep.check(n_emit >= 1 and n_elide >= 1, "C06-e", site, "cmd1_with_offset has an emitting and an eliding path", f"{n_emit}/{n_elide}")

    # cmd1_with_address: high bits as param
    it2 = Interp(repo, gen, stubs=())

    def mk2():
        s = mk_self()
        return [s, mk_cmd(), BV.sym("addr")], {}

    # interpret with cmd1_with_offset as a recorded method on self
    f = gen.func("CommandStreamEmitter.cmd1_with_address")
    cs = calls_in(f, ".cmd1_with_offset")
    ok = (
        len(cs) == 1 and len(cs[0].args) == 3 and norm(cs[0].args[0]) == "cmd" and norm(cs[0].args[1]) == "offset"
        and norm(cs[0].args[2]) == "offset >> 32"
    )
    rep.check(ok, "C06-f", site, "cmd1_with_address passes (cmd, offset, offset >> 32)", norm(f.body[-1]))

    # cmd_wait / cmd_do_operation never consult the shadow registers
    for fn in ("cmd_wait", "cmd_do_operation"):
        f = gen.func(f"CommandStreamEmitter.{fn}")
        rep.check(not calls_in(f, ".set_register"), "C06-e", site, f"{fn} bypasses elision", "consults set_register")
        app = calls_in(f, ".append")
        c = cfg_of(f)
        ok = len(app) == 1 and all(c.postdominates(c.node_of(app[0]), n) for n in [0])
        rep.check(ok, "C06-e", site, f"{fn} appends its word on every path", "append not on every path")

    def mkw():
        return [mk_self(), mk_cmd(), BV.sym("channel", 4), BV.sym("count", 4)], {}

    for p in it.run("CommandStreamEmitter.cmd_wait", mkw):
        stream = p.args[0][0].fields["cmd_stream"].items
        b = stream[0][0] if stream and isinstance(stream[0], tuple) else None
        ok = isinstance(b, BV) and list(b.field(16, 8)) == [("s", "count", i) for i in range(4)] + [("s", "channel", i) for i in range(4)]
        rep.check(ok, "C06-f", site, "cmd_wait param = channel << 4 | outstanding count", repr(b))

    def mkd():
        return [mk_self(), mk_cmd(), BV.sym("param")], {}

    for p in it.run("CommandStreamEmitter.cmd_do_operation", mkd):
        stream = p.args[0][0].fields["cmd_stream"].items
        b = stream[0][0] if stream and isinstance(stream[0], tuple) else None
        ok = isinstance(b, BV) and list(b.field(16, 16)) == [("s", "param", i) for i in range(16)] and list(b.field(0, 10)) == [("s", "code", i) for i in range(10)]
        rep.check(ok, "C06-f", site, "cmd_do_operation word = opcode | param << 16", repr(b))

    # set_register stores on every path and reports change by != on the stored value
    f = gen.func("RegisterMachine.set_register")
    c = cfg_of(f)
    stores = [s for s in ast.walk(f) if isinstance(s, ast.Assign) and norm(s.targets[0]) == "self.registers[self.bank_idx][reg]"]
    ok = len(stores) == 1 and norm(stores[0].value) == "value" and c.postdominates(c.node_of(stores[0]), 0)
    rep.check(ok, "C06-e", _site("RegisterMachine.set_register"), "new value stored on every path", "store missing or conditional")
    rets = [s for s in ast.walk(f) if isinstance(s, ast.Return)]
    cmp_ok = False
    for s in ast.walk(f):
        if isinstance(s, ast.Assign) and norm(s.targets[0]) == "is_changed":
            cmp_ok = norm(s.value) in ("self.registers[self.bank_idx][reg] != value", "value != self.registers[self.bank_idx][reg]")
            cmp_before = c.dominates(c.node_of(s), c.node_of(stores[0])) if stores else False
            cmp_ok = cmp_ok and cmp_before
    rep.check(cmp_ok and len(rets) == 1 and norm(rets[0].value) == "is_changed", "C06-e", _site("RegisterMachine.set_register"),
              "change verdict is `old != new`, computed before the store", "comparison changed")
    # who-may-write cmd_stream / registers
    writers = []
    for m in repo.core_modules():
        for n in ast.walk(m.tree):
            if isinstance(n, ast.Call) and isinstance(n.func, ast.Attribute) and n.func.attr in ("append", "extend", "insert", "pop", "clear"):
                if norm(n.func.value).endswith(".cmd_stream"):
                    fn = m.enclosing_function(n)
                    writers.append((m.name, m.qualname_of(fn)))
            if isinstance(n, (ast.Assign, ast.AugAssign)):
                for t in (n.targets if isinstance(n, ast.Assign) else [n.target]):
                    if norm(t).endswith(".cmd_stream") or ".registers[" in norm(t):
                        fn = m.enclosing_function(n)
                        writers.append((m.name, m.qualname_of(fn)))
    for mname, q in sorted(set(writers)):
        ok = mname == GEN and q and q.split(".")[0] in ("CommandStreamEmitter", "RegisterMachine")
        rep.check(ok, "C06-e", f"ethosu/vela/{mname}.py:{q}", "writer of cmd_stream / shadow registers is an emitter method", "foreign writer")
    # bank selection by DMA name, applied in both elision sites
    f = gen.func("CommandStreamEmitter.get_reg_machine")
    txt = norm(f)
    rep.check('"DMA" in cmd.name' in txt.replace("'", '"') and "self.reg_machine[1]" in txt and "self.reg_machine[0]" in txt, "C06-e", site,
              "DMA registers use a separate shadow bank", "bank selection changed")
    rep.floor("C06-f", 14)
    rep.floor("C06-e", 10)


def _all_objs(p):
    seen = []
    todo = list(p.objects)
    for a in p.args[0]:
        todo.append(a)
    ids = set()
    while todo:
        o = todo.pop()
        if id(o) in ids:
            continue
        ids.add(id(o))
        if isinstance(o, AObj):
            seen.append(o)
            todo.extend(o.fields.values())
        elif isinstance(o, AList):
            todo.extend(o.items)
        elif isinstance(o, (tuple, list)):
            todo.extend(o)
    return seen


# ------------------------------------------------------------------ d: roles


def rule_roles(repo, rep, gen, api):
    # get_strides computes *memory* strides (bytes); it is stubbed so that the role rule sees strides.depth/height/width
    stubs = CHECKS | {"get_arch_block_config", "get_strides"}
    it = Interp(repo, gen, stubs=stubs, max_paths=4096)
    arch = lambda: AObj("arch")  # noqa

    def traces(fn, mk):
        out = []
        for p in it.run(fn, mk):
            emit = p.args[0][0]
            out.append((p, _emits(p, emit)))
        return out

    seen_regs = set()

    def roles_for(fn, mk, rule="C06-d"):
        cons = set()
        for p, em in traces(fn, mk):
            for meth, reg, rest in em:
                seen_regs.add(reg)
                if meth in ("cmd0_with_param", "cmd1_with_offset", "cmd1_with_address") and rest:
                    key = (reg, _txt(rest[0]))
                    if key in cons:
                        continue
                    cons.add(key)
                    check_roles(rep, rule, _site(fn), reg, rest[0])
        return cons

    def fmobj(n):
        return AObj(n)

    roles_for("generate_ifm", lambda: ([AObj("emit"), fmobj("ifm"), arch()], {}))
    roles_for("generate_ifm2", lambda: ([AObj("emit"), fmobj("ifm2"), Unknown("has_scalar"), arch()], {}))
    roles_for("generate_ofm", lambda: ([AObj("emit"), fmobj("ofm"), arch()], {}))
    roles_for("generate_padding", lambda: ([AObj("emit"), AObj("padding")], {}))
    roles_for("generate_kernel", lambda: ([AObj("emit"), AObj("kernel"), Unknown("block_traversal")], {}))
    roles_for("generate_block_config", lambda: ([AObj("emit"), AObj("block_config")], {}))
    roles_for("generate_shram_registers", lambda: ([AObj("emit"), AObj("npu_op"), AObj("arch_block_config")], {}))
    roles_for("generate_dma_op", lambda: ([AObj("emit"), AObj("dma_op"), arch()], {}))

    # weights / biases: lists of ranges, per core
    for fn, lst in (("generate_weights", "weights"), ("generate_biases", "biases")):
        for n in (1, 2):
            def mk(n=n, lst=lst):
                return [AObj("emit"), AList([AObj(f"{lst}[{i}]") for i in range(n)], lst), AObj("arch")], {}
            for p, em in traces(fn, mk):
                for meth, reg, rest in em:
                    seen_regs.add(reg)
                    if not rest:
                        continue
                    core = 1 if re.search(r"(WEIGHT1|SCALE1)", reg) else 0
                    v = rest[0]
                    txt = _txt(v)
                    construct = f"n={n}: {reg} <- {txt}"
                    if reg.endswith("_REGION"):
                        rep.check(txt == f"{lst}[0].region", "C06-d", _site(fn), construct, "region not taken from the first range")
                    elif reg.endswith("_BASE"):
                        want = f"{lst}[{core if core < n else 0}].address"
                        rep.check(txt == want, "C06-d", _site(fn), construct, f"expected {want}")
                    elif reg.endswith("_LENGTH"):
                        if core < n:
                            rep.check(txt == f"{lst}[{core}].length", "C06-d", _site(fn), construct, "length of the wrong range")
                        else:
                            rep.check(v == 0, "C06-d", _site(fn), construct, "absent core must get length 0")

    # activation min/max, scalar handled in bits rule; generate_common: which helper gets which field
    comp_stubs = {
        "generate_ifm", "generate_ifm_precision", "generate_padding", "generate_ofm", "generate_ofm_precision", "generate_kernel",
        "generate_weights", "generate_biases", "generate_activation", "get_arch_block_config", "generate_block_config",
        "generate_shram_registers",
    }
    itc = Interp(repo, gen, stubs=comp_stubs)
    want_args = {
        "generate_ifm": ["emit", "npu_op.ifm", "arch"],
        "generate_ifm_precision": ["emit", "npu_op.ifm", "op_to_scale", "NPU_SET_IFM_PRECISION"],
        "generate_padding": ["emit", "npu_op.padding"],
        "generate_ofm": ["emit", "npu_op.ofm", "arch"],
        "generate_ofm_precision": ["emit", "npu_op", "use_global_scale"],
        "generate_kernel": ["emit", "npu_op.kernel", "block_traversal"],
        "generate_weights": ["emit", "npu_op.weights", "arch"],
        "generate_biases": ["emit", "npu_op.biases", "arch"],
        "generate_activation": ["emit", "npu_op.activation", "npu_op.ofm"],
        "get_arch_block_config": ["npu_op", "block_traversal", "arch"],
        "generate_block_config": ["emit", "npu_op.block_config"],
        "generate_shram_registers": ["emit", "npu_op", "get_arch_block_config(npu_op, block_traversal, arch)"],
    }
    always = set(want_args) - {"generate_padding", "generate_kernel"}

    def mkc():
        return [AObj("emit"), AObj("npu_op"), Unknown("block_traversal"), AObj("arch"), Unknown("use_global_scale"), Unknown("op_to_scale")], {}

    for p in itc.run("generate_common", mkc):
        if p.kind != "return":
            continue
        called = {}
        for name, args, kwargs, _ in p.calls:
            called[name] = [a.name if isinstance(a, EnumMember) else _txt(a) for a in args]
        for name in always:
            rep.check(name in called, "C06-d", _site("generate_common"), f"{name} is called on every path", f"missing on path {p.decisions}")
        for name, got in called.items():
            if name in want_args:
                rep.check(got == want_args[name], "C06-d", _site("generate_common"), f"{name}({', '.join(want_args[name])})", f"called with {got}")
        emit = p.args[0][0]
        for meth, reg, rest in _emits(p, emit):
            seen_regs.add(reg)
            if rest:
                check_roles(rep, "C06-d", _site("generate_common"), reg, rest[0])
        pad_dec = [d for t, d in p.decisions if "padding" in t]
        if pad_dec and pad_dec[0]:
            rep.check("generate_padding" in called, "C06-d", _site("generate_common"), "padding registers generated when padding is given", "not generated")
        ew = [d for t, d in p.decisions if "op_type" in t]
        if ew and ew[0]:
            rep.check("generate_kernel" in called, "C06-d", _site("generate_common"), "kernel registers generated for non-elementwise operations", "not generated")

    # field coverage: every API field is consumed by the generator of its class
    def fields_of(cls):
        init = api.func(f"{cls}.__init__") if f"{cls}.__init__" in api.functions else None
        out = []
        if init:
            for st in ast.walk(init):
                if isinstance(st, (ast.Assign, ast.AnnAssign)):
                    for t in (st.targets if isinstance(st, ast.Assign) else [st.target]):
                        if isinstance(t, ast.Attribute) and norm(t.value) == "self":
                            out.append(t.attr)
        else:
            for st in api.cls(cls).body:
                if isinstance(st, ast.AnnAssign) and isinstance(st.target, ast.Name):
                    out.append(st.target.id)
        return out

    util = repo.mod("register_command_stream_util")

    def attrs_used(fnames, root=None):
        used = set()
        for fn in fnames:
            f = util.func(fn[5:]) if fn.startswith("util:") else gen.func(fn)
            for n in ast.walk(f):
                if isinstance(n, ast.Attribute):
                    used.add(n.attr)
        return used

    cover = [
        ("NpuFeatureMap", ["generate_ifm", "generate_ofm", "generate_ifm2", "generate_addresses", "generate_tiles", "generate_strides",
                           "generate_ifm_precision", "generate_ofm_precision", "util:get_zero_point"], {"name", "strides"}),
        ("NpuKernel", ["generate_kernel"], set()),
        ("NpuPadding", ["generate_padding"], set()),
        ("NpuActivation", ["generate_activation"], set()),
        ("NpuTileBox", ["generate_tiles", "generate_ifm", "generate_addresses"], set()),
        ("NpuBlockOperation", ["generate_common", "generate_elementwise_op", "generate_pooling_op", "generate_ofm_precision",
                               "generate_ofm_scaling_for_pooling", "generate_shram_registers", "get_arch_block_config"], set()),
        ("NpuDmaOperation", ["generate_dma_op", "generate_operation_code"], set()),
        ("NpuAddressRange", ["generate_weights", "generate_dma_op"], set()),
    ]
    for cls, fns, exempt in cover:
        used = attrs_used(fns)
        for fld in fields_of(cls):
            if fld in exempt or fld in ("op_type",) and cls != "NpuActivation":
                continue
            rep.check(fld in used, "C06-d", _site(fns[0]), f"{cls}.{fld} is consumed by the generator", f"field {cls}.{fld} never read by {fns}")
    # `strides` and `name` of NpuFeatureMap: strides are consumed through get_strides (util), name is diagnostic only
    gs = repo.mod("register_command_stream_util").func("get_strides")
    rep.check("strides" in {n.attr for n in ast.walk(gs) if isinstance(n, ast.Attribute)}, "C06-d",
              "ethosu/vela/register_command_stream_util.py:get_strides", "NpuFeatureMap.strides honoured by get_strides", "explicit strides ignored")
    rep.floor("C06-d", 90)


# ------------------------------------------------------------------ c: bit packing


def _dtype_name(dt):
    bits, signed = dt.value[0], dt.value[1]
    return ("S" if signed else "U") + str(bits)


def _field(b, fields, name):
    for f, w, o in fields:
        if f == name:
            return b.field(o - 16, w) if isinstance(b, BV) else tuple(((b >> (o - 16 + i)) & 1) for i in range(w))
    raise AnalysisError(f"spec field {name} missing")


def _bits(v, w):
    return tuple((v >> i) & 1 for i in range(w))


def rule_bits(repo, rep, gen, api):
    dts = _members(repo, "api", "NpuDataType")
    layouts = _members(repo, "api", "NpuLayout")
    rounds = _members(repo, "api", "NpuRoundingMode")
    acts = _members(repo, "api", "NpuActivationOp")
    trav = _members(repo, "api", "NpuBlockTraversal")
    regs = "ethos_u55_regs.ethos_u55_regs"
    ifm_prec = enum_of(repo, regs, "ifm_precision")
    ofm_prec = enum_of(repo, regs, "ofm_precision")
    fmt = enum_of(repo, regs, "data_format")
    rnd = enum_of(repo, regs, "rounding")
    actv = enum_of(repo, regs, "activation")
    clip = enum_of(repo, regs, "clip_range")
    it = Interp(repo, gen, stubs=CHECKS)
    it.construct = {"NpuActivation"}

    # ---- IFM precision
    spec = bitfields(repo, "npu_set_ifm_precision_t")
    site = _site("generate_ifm_precision")
    for dn, dt in dts.items():
        for ln, lay in layouts.items():
            def mk():
                fm = AObj("fm", {"data_type": dt, "layout": lay})
                return [AObj("emit"), fm, BV.sym("op_to_scale", 2), EnumMember(gen, gen.cls("CmdMode"), "PRECISION_CMD", 0)], {}
            for p in it.run("generate_ifm_precision", mk):
                em = _emits(p, p.args[0][0])
                if len(em) != 1 or p.kind != "return":
                    rep.bad("C06-c", site, f"{dn}/{ln}", "expected exactly one emission")
                    continue
                v = em[0][2][0]
                b = v if isinstance(v, BV) else BV.const(v)
                want_prec = ifm_prec.get(_dtype_name(dt))
                if want_prec is None:
                    raise AnalysisError(f"ifm_precision has no member {_dtype_name(dt)}")
                ok = (
                    tuple(_field(b, spec, "precision")) == _bits(want_prec, 4)
                    and tuple(_field(b, spec, "format")) == _bits(fmt[ln], 2)
                    and tuple(_field(b, spec, "scale_mode")) == (("s", "op_to_scale", 0), ("s", "op_to_scale", 1))
                    and all(x == 0 for x in _field(b, spec, "reserved0") + _field(b, spec, "reserved1") + _field(b, spec, "round_mode"))
                    and all(x == 0 for x in b.bits[16:])
                )
                rep.check(ok, "C06-c", site, f"IFM_PRECISION for {dn}/{ln}: precision={want_prec}, format={fmt[ln]}, scale_mode=op_to_scale",
                          f"packed {b!r}")
    # ---- OFM precision
    spec = bitfields(repo, "npu_set_ofm_precision_t")
    site = _site("generate_ofm_precision")
    for dn, dt in dts.items():
        for ln, lay in layouts.items():
            for rn, rm in rounds.items():
                for gs in (False, True):
                    def mk():
                        op = AObj("npu_op", {"ofm": AObj("ofm", {"data_type": dt, "layout": lay}), "rounding_mode": rm})
                        return [AObj("emit"), op, gs], {}
                    for p in it.run("generate_ofm_precision", mk):
                        em = _emits(p, p.args[0][0])
                        if len(em) != 1 or em[0][1] != "NPU_SET_OFM_PRECISION":
                            rep.bad("C06-c", site, f"{dn}/{ln}/{rn}/{gs}", "expected exactly one OFM_PRECISION emission")
                            continue
                        v = em[0][2][0]
                        b = v if isinstance(v, BV) else BV.const(v)
                        ok = (
                            tuple(_field(b, spec, "precision")) == _bits(ofm_prec[_dtype_name(dt)], 3)
                            and tuple(_field(b, spec, "format")) == _bits(fmt[ln], 2)
                            and tuple(_field(b, spec, "scaling")) == _bits(int(gs), 1)
                            and tuple(_field(b, spec, "rounding")) == _bits(rnd[rn], 2)
                            and all(x == 0 for x in _field(b, spec, "reserved0") + _field(b, spec, "reserved1"))
                        )
                        rep.check(ok, "C06-c", site, f"OFM_PRECISION for {dn}/{ln}/{rn}/global={gs}", f"packed {b!r}")
    # ---- IFM2 broadcast
    spec = bitfields(repo, "npu_set_ifm2_broadcast_t")
    site = _site("generate_ifm2_broadcast")

    def mkb():
        return [AObj("emit"), AObj("npu_op")], {}

    npaths = 0
    for p in it.run("generate_ifm2_broadcast", mkb):
        if p.kind != "return":
            continue  # assertion-failure paths
        npaths += 1
        em = _emits(p, p.args[0][0])
        if len(em) != 1:
            rep.bad("C06-c", site, "IFM2_BROADCAST", "expected one emission")
            continue
        v = em[0][2][0]
        want = {"broadcast_height": 0, "broadcast_width": 0, "broadcast_depth": 0, "operand_order": 0, "broadcast_scalar": 0}
        for t, d in p.decisions:
            if not d:
                continue
            if "reversed_operands" in t:
                want["operand_order"] = 1
            elif "ifm2_scalar" in t:
                want["broadcast_scalar"] = 1
            elif "!=" in t:
                for ax in ("height", "width", "depth"):
                    if f"shape.{ax}" in t:
                        want["broadcast_" + ax] = 1
        if not want["broadcast_scalar"]:
            # the three dimensions are compared independently: a path that never looked at one of them cannot broadcast it
            looked = {ax for ax in ("height", "width", "depth") for t, d in p.decisions if "!=" in t and f"shape.{ax}" in t}
            rep.check(looked == {"height", "width", "depth"}, "C06-c", site, f"height, width and depth are each compared on the path {[d for t, d in p.decisions if '!=' in t]}",
                      f"only {sorted(looked)} compared on {p.decisions}: the remaining dimension cannot get its broadcast bit on this path (the hardware then reads the full extent of a size-1 operand)")
        # the operand order is a property of the operation whatever IFM2 is (tensor or scalar): every path decides it
        rep.check(any("reversed_operands" in t for t, d in p.decisions), "C06-c", site, f"reversed_operands is read on the path {[t[:40] for t, d in p.decisions if d][:3]}",
                  f"the path {p.decisions} never looks at npu_op.reversed_operands: the operand-order bit cannot be set on it (a scalar IFM2 with reversed operands, e.g. scalar - x, is emitted as x - scalar)")
        b = v if isinstance(v, BV) else BV.const(int(v))
        ok = all(tuple(_field(b, spec, k)) == _bits(x, 1) for k, x in want.items()) and all(
            x == 0 for x in _field(b, spec, "reserved0") + _field(b, spec, "reserved1"))
        rep.check(ok, "C06-c", site, f"IFM2_BROADCAST bits for {sorted(k for k, x in want.items() if x)}", f"packed {b!r} on {p.decisions}")
    rep.check(npaths >= 9, "C06-c", site, "broadcast paths enumerated", f"only {npaths} paths")
    # ---- activation
    spec = bitfields(repo, "npu_set_activation_t")
    site = _site("generate_activation")
    for an, a in acts.items():
        for dn, dt in dts.items():
            def mka():
                act = AObj("act", {"op_type": a, "lookup_table_index": BV.sym("lut", 3)}, cls="NpuActivation")
                ofm = AObj("ofm", {"data_type": AObj("data_type")})
                # keep the data type symbolic for min/max, but decide the INT32 test concretely
                ofm.fields["data_type"] = dt
                return [AObj("emit"), act, ofm], {}
            itx = Interp(repo, gen, stubs=CHECKS | {"quantise"}, externs={
                "numpy.iinfo": lambda i, a, k, n: AObj("iinfo", {"min": -32768, "max": 32767})})
            for p in itx.run("generate_activation", mka):
                if p.kind != "return":
                    continue
                em = {r: rest for m, r, rest in _emits(p, p.args[0][0])}
                if set(em) != {"NPU_SET_ACTIVATION", "NPU_SET_ACTIVATION_MIN", "NPU_SET_ACTIVATION_MAX"}:
                    rep.bad("C06-c", site, f"{an}/{dn}", f"activation registers emitted: {sorted(em)}")
                    continue
                v = em["NPU_SET_ACTIVATION"][0]
                if isinstance(v, EnumMember):
                    v = v.value  # cmd0_with_param takes .value of Enum parameters (checked in C06-f)
                b = p.refine(v) if isinstance(v, BV) else BV.const(int(v))
                if an == "TABLE_LOOKUP":
                    want_type = (("s", "lut", 0), ("s", "lut", 1), ("s", "lut", 2), 0, 1) + (0,) * 7
                    want_clip = _bits(clip["FORCE_INT8"] if dn == "INT32" else clip["OFM_PRECISION"], 4)
                else:
                    want_type = _bits(actv[{"NONE_OR_RELU": "NONE"}.get(an, an)], 12)
                    want_clip = _bits(0, 4)
                ok = tuple(_field(b, spec, "type")) == want_type and tuple(_field(b, spec, "act_clip_range")) == want_clip
                rep.check(ok, "C06-c", site, f"ACTIVATION for {an}/{dn}", f"packed {b!r}")
                check_roles(rep, "C06-d", site, "NPU_SET_ACTIVATION_MIN", em["NPU_SET_ACTIVATION_MIN"][0])
                check_roles(rep, "C06-d", site, "NPU_SET_ACTIVATION_MAX", em["NPU_SET_ACTIVATION_MAX"][0])
                # the clamp registers are signed 16-bit fields and the emitter masks silently: the generator's own
                # clamp must keep MIN >= -2^15 and MAX <= 2^15-1 whatever the requested range is
                lo = _bounds(em["NPU_SET_ACTIVATION_MIN"][0])[0]
                hi = _bounds(em["NPU_SET_ACTIVATION_MAX"][0])[1]
                rep.check(lo is not None and lo >= -(1 << 15), "C06-c", site, f"ACTIVATION_MIN for {an}/{dn} is bounded below by the int16 field ({_txt(em['NPU_SET_ACTIVATION_MIN'][0])})",
                          f"lower bound {lo}: wraps in the 16-bit field")
                rep.check(hi is not None and hi <= (1 << 15) - 1, "C06-c", site, f"ACTIVATION_MAX for {an}/{dn} is bounded above by the int16 field ({_txt(em['NPU_SET_ACTIVATION_MAX'][0])})",
                          f"upper bound {hi}: wraps in the 16-bit field")
    # activation None -> NONE_OR_RELU default
    def mkn():
        return [AObj("emit"), None, AObj("ofm", {"data_type": dts["INT8"]})], {}

    itx = Interp(repo, gen, stubs=CHECKS | {"quantise"}, externs={"numpy.iinfo": lambda i, a, k, n: AObj("iinfo", {"min": -32768, "max": 32767})})
    itx.construct = {"NpuActivation"}
    for p in itx.run("generate_activation", mkn):
        if p.kind != "return":
            rep.bad("C06-c", site, "activation=None", "raises")
            continue
        em = {r: rest for m, r, rest in _emits(p, p.args[0][0])}
        got = em.get("NPU_SET_ACTIVATION", [None])[0]
        got = got.value if isinstance(got, EnumMember) else got
        rep.check(got == actv["NONE"], "C06-c", site, "activation=None encodes NONE", f"{em.get('NPU_SET_ACTIVATION')}")
    # ---- kernel stride: frozen TRM table (NPU_SET_KERNEL_STRIDE has no structured spec in the file)
    site = _site("generate_kernel")
    n = 0
    bad = None
    for sx in range(1, 5):
        for sy in range(1, 5):
            for dx in (1, 2):
                for dy in (1, 2):
                    for tn, tv in trav.items():
                        def mkk():
                            k = AObj("kernel", {"stride_x": sx, "stride_y": sy, "dilation_x": dx, "dilation_y": dy,
                                                 "height": BV.sym("kh", 8), "width": BV.sym("kw", 8)})
                            return [AObj("emit"), k, tv], {}
                        for p in it.run("generate_kernel", mkk):
                            em = {r: rest for m, r, rest in _emits(p, p.args[0][0])}
                            v = em.get("NPU_SET_KERNEL_STRIDE", [None])[0]
                            want = (
                                ((sx - 1) & 1) | (((sy - 1) & 1) << 1) | ((1 if tn == "PART_KERNEL_FIRST" else 0) << 2)
                                | ((dx - 1) << 3) | ((dy - 1) << 4) | (((sx - 1) >> 1) << 6) | (((sy - 1) >> 1) << 9)
                            )
                            n += 1
                            if v != want and bad is None:
                                bad = f"stride=({sx},{sy}) dilation=({dx},{dy}) {tn}: packed {v!r}, TRM layout gives {want:#x}"
    rep.check(bad is None and n >= 128, "C06-c", site,
              f"KERNEL_STRIDE bits (x0:0 y0:1 part-kernel:2 dil_x:3 dil_y:4 x-ext:6 y-ext:9) over {n} stride/dilation/traversal combinations", bad or "")
    rep.floor("C06-c", 60)


# ------------------------------------------------------------------ a: dispatch


def rule_dispatch(repo, rep, gen, api):
    block_subs = subclasses(repo, "api", "NpuBlockOperation")
    op_subs = [c for c in subclasses(repo, "api", "NpuOperation") if c != "NpuBlockOperation"]
    pool_ops = _members(repo, "api", "NpuPoolingOp")
    ew_ops = _members(repo, "api", "NpuElementWiseOp")
    regs = "ethos_u55_regs.ethos_u55_regs"
    pm = enum_of(repo, regs, "pooling_mode")
    em_ = enum_of(repo, regs, "elementwise_mode")
    want_code = {
        "NpuDmaOperation": "NPU_OP_DMA_START", "NpuConv2DOperation": "NPU_OP_CONV", "NpuConvDepthWiseOperation": "NPU_OP_DEPTHWISE",
        "NpuPoolingOperation": "NPU_OP_POOL", "NpuElementWiseOperation": "NPU_OP_ELEMENTWISE",
    }
    want_gen = {
        "NpuDmaOperation": "generate_dma_op", "NpuConv2DOperation": "generate_conv2d_op", "NpuConvDepthWiseOperation": "generate_conv_depthwise_op",
        "NpuPoolingOperation": "generate_pooling_op", "NpuElementWiseOperation": "generate_elementwise_op",
    }
    it = Interp(repo, gen, stubs=set(want_gen.values()))
    for cls in op_subs:
        if cls not in want_code:
            rep.bad("C06-a", _site("generate_operation_code"), f"operation class {cls}", "new NpuOperation subclass without a reviewed encoding")
            continue
        subops = [None]
        if cls == "NpuPoolingOperation":
            subops = list(pool_ops.values())
        elif cls == "NpuElementWiseOperation":
            subops = list(ew_ops.values())
        for so in subops:
            def mk():
                op = AObj("npu_op", {"channel": BV.sym("channel", 4), "mode": BV.sym("mode", 4)}, cls=cls)
                if so is not None:
                    op.fields["sub_op_type"] = so
                return [AObj("emit"), op], {}
            for p in it.run("generate_operation_code", mk):
                em = _emits(p, p.args[0][0])
                tag = f"{cls}" + (f"/{so.name}" if so else "")
                if p.kind != "return" or len(em) != 1 or em[0][0] != "cmd_do_operation":
                    rep.bad("C06-a", _site("generate_operation_code"), tag, f"no NPU_OP emitted ({p.kind}, {em})")
                    continue
                meth, reg, rest = em[0]
                rep.check(reg == want_code[cls], "C06-a", _site("generate_operation_code"), f"{tag} -> {want_code[cls]}", f"emits {reg}")
                if so is not None:
                    want = (pm if cls == "NpuPoolingOperation" else em_)[so.name]
                    rep.check(rest == [want], "C06-b", _site("generate_operation_code"), f"{tag} param == {so.name} mode value {want}", f"param {rest}")
                if cls == "NpuDmaOperation":
                    v = rest[0] if rest else None
                    ok = isinstance(v, BV) and list(v.field(0, 8)) == [("s", "mode", i) for i in range(4)] + [("s", "channel", i) for i in range(4)]
                    rep.check(ok, "C06-c", _site("generate_operation_code"), "DMA_START param = channel << 4 | mode", repr(v))

            def mk2():
                return [AObj("emit"), AObj("npu_op", cls=cls), AObj("arch")], {}
            for p in it.run("generate_registers_for_op", mk2):
                names = [c[0] for c in p.calls]
                rep.check(p.kind == "return" and names == [want_gen[cls]], "C06-a", _site("generate_registers_for_op"),
                          f"{cls} -> {want_gen[cls]}", f"calls {names} ({p.kind})")
            if so is not None:
                break
    # an unknown operation class must not be silently accepted
    def mku():
        return [AObj("emit"), AObj("npu_op", cls="NpuOperation")], {}
    for fn, mk in (("generate_operation_code", mku), ("generate_registers_for_op", lambda: ([AObj("emit"), AObj("npu_op", cls="NpuOperation"), AObj("arch")], {}))):
        for p in it.run(fn, mk):
            rep.check(p.kind == "raise", "C06-a", _site(fn), "an operation of no known class is rejected", "falls through silently")
    # per-class generators pass the right traversal to generate_common
    itg = Interp(repo, gen, stubs={"generate_common", "generate_ofm_scaling_for_pooling", "generate_scaling_for_elementwise", "generate_ifm2",
                                    "generate_ifm_precision", "generate_ifm2_broadcast", "quantise"})
    for fn, want in (("generate_conv2d_op", "npu_op.block_traversal"), ("generate_conv_depthwise_op", "NpuBlockTraversal.DEPTH_FIRST"),
                     ("generate_pooling_op", "NpuBlockTraversal.DEPTH_FIRST"), ("generate_elementwise_op", "NpuBlockTraversal.DEPTH_FIRST")):
        f = gen.func(fn)
        cs = calls_in(f, "generate_common")
        ok = len(cs) == 1 and norm(cs[0].args[0]) == "emit" and norm(cs[0].args[1]) == "npu_op" and norm(cs[0].args[2]) == want and norm(cs[0].args[3]) == "arch"
        c = cfg_of(f)
        ok = ok and all(not c.path_avoiding(0, 1, [c.node_of(cs[0])]) for _ in [0])
        rep.check(ok, "C06-a", _site(fn), f"generate_common(emit, npu_op, {want}, arch) on every returning path", "call changed or bypassable")
    # binary elementwise: IFM2 registers on every path of the binary branch
    f = gen.func("generate_elementwise_op")
    c = cfg_of(f)
    for callee in ("generate_ifm2", "generate_ifm_precision", "generate_ifm2_broadcast"):
        cs = calls_in(f, callee)
        rep.check(len(cs) == 1, "C06-a", _site("generate_elementwise_op"), f"{callee} called for binary operations", f"{len(cs)} call sites")
    cs = calls_in(f, "generate_ifm_precision")
    if cs:
        rep.check(norm(cs[0].args[1]) == "npu_op.ifm2" and norm(cs[0].args[3]) == "cmd0.NPU_SET_IFM2_PRECISION", "C06-d", _site("generate_elementwise_op"),
                  "IFM2 precision generated from npu_op.ifm2 into NPU_SET_IFM2_PRECISION", norm(cs[0]))
    sc = [s for s in ast.walk(f) if isinstance(s, ast.Call) and call_name(s) == "emit.cmd0_with_param" and norm(s.args[0]) == "cmd0.NPU_SET_IFM2_SCALAR"]
    rep.check(len(sc) == 1 and norm(sc[0].args[1]) == "quantized_scalar", "C06-d", _site("generate_elementwise_op"), "IFM2_SCALAR <- quantised scalar", "changed")
    # UNARY_ELEMWISE_OPS frozen (ops with a single input)
    un = norm(repo.mod("register_command_stream_util").assign("UNARY_ELEMWISE_OPS"))
    rep.check(set(re.findall(r"NpuElementWiseOp\.(\w+)", un)) == {"ABS", "LRELU", "CLZ"}, "C06-a",
              "ethosu/vela/register_command_stream_util.py:<module>", "UNARY_ELEMWISE_OPS == {ABS, LRELU, CLZ}", un)


# ------------------------------------------------------------------ g: checks before emit


def rule_checks(repo, rep, gen):
    table = [
        # function, check call (name, normalised args), protected emission registers/arg text
        ("generate_addresses", "check_addresses", ["addresses", "layout", "element_size", "arch"], "cmd1_with_address"),
        ("generate_strides", "check_strides", ["fm", "strides"], "cmd1_with_address"),
        ("generate_dma_op", "check_dma_op", ["dma_op", "arch"], None),
    ]
    for fn, chk, args, meth in table:
        f = gen.func(fn)
        c = cfg_of(f)
        cs = calls_in(f, chk)
        if len(cs) != 1:
            rep.bad("C06-g", _site(fn), f"{chk} call", f"{len(cs)} call sites")
            continue
        rep.check([norm(a) for a in cs[0].args] == args, "C06-g", _site(fn), f"{chk}({', '.join(args)})", f"called as {norm(cs[0])}")
        cn = c.node_of(cs[0])
        emits = [x for x in ast.walk(f) if isinstance(x, ast.Call) and isinstance(x.func, ast.Attribute) and x.func.attr.startswith("cmd") and norm(x.func.value) == "emit"]
        for e in emits:
            rep.check(c.dominates(cn, c.node_of(e)), "C06-g", _site(fn), f"{chk} dominates {norm(e)[:70]}", "emission reachable without the check")
    # weights / biases: per-core checks dominate the emission of the same value
    for fn, pairs in (
        ("generate_weights", [("check_alignment", "weights[core].address", "weights[core].address"), ("check_length", "weights[core].length", "weights[core].length"),
                              ("check_alignment", "weights[0].address", "weights[0].address")]),
        ("generate_biases", [("check_length", "biases[core].length", "biases[core].length")]),
    ):
        f = gen.func(fn)
        c = cfg_of(f)
        for chk, carg, earg in pairs:
            cs = [x for x in calls_in(f, chk) if norm(x.args[0]) == carg and norm(x.args[1]) == "16"]
            es = [x for x in ast.walk(f) if isinstance(x, ast.Call) and norm(x.func).startswith("emit.cmd1") and len(x.args) > 1 and norm(x.args[1]) == earg]
            if not es:
                rep.bad("C06-g", _site(fn), f"`{earg}` (the value that is checked) is what is emitted", f"no emit.cmd1 call writes `{earg}`: the register gets another core's / range's value than the one checked")
                continue
            for e in es:
                ok = any(c.dominates(c.node_of(x), c.node_of(e)) for x in cs)
                rep.check(ok, "C06-g", _site(fn), f"{chk}({carg}, 16) dominates emission of {earg}", "unchecked emission")
    # the check helpers themselves raise on misalignment
    util = repo.mod("register_command_stream_util")
    for fn, exc in (("check_alignment", "ByteAlignmentError"), ("check_size", "ByteSizeError")):
        f = util.func(fn)
        ok = False
        for n in ast.walk(f):
            if isinstance(n, ast.If) and re.fullmatch(r"payload % required_\w+ != 0", norm(n.test)):
                ok = any(isinstance(s, ast.Raise) and call_name(s.exc) == exc for s in n.body)
        rep.check(ok, "C06-g", f"ethosu/vela/register_command_stream_util.py:{fn}", f"`payload % m != 0` raises {exc}", "guard changed")
    for fn, inner in (("check_length", "check_size"), ("check_stride", "check_size")):
        f = util.func(fn)
        cs = calls_in(f, inner)
        rep.check(len(cs) == 1 and [norm(a) for a in cs[0].args[:2]] == [f.args.args[0].arg, f.args.args[1].arg], "C06-g",
                  f"ethosu/vela/register_command_stream_util.py:{fn}", f"{fn} forwards to {inner}", "forwarding changed")
    # check_addresses / check_strides / check_dma_op shape
    f = util.func("check_addresses")
    loops = [n for n in ast.walk(f) if isinstance(n, ast.For) and norm(n.iter) == "addresses"]
    ok = len(loops) == 1 and any(call_name(x) == "check_alignment" and norm(x.args[0]) == norm(loops[0].target) for x in calls_in(loops[0], "check_alignment"))
    rep.check(ok, "C06-g", "ethosu/vela/register_command_stream_util.py:check_addresses", "every address is alignment-checked", "loop changed")
    ra = [s for s in ast.walk(f) if isinstance(s, ast.Assign) and norm(s.targets[0]) == "required_alignment"]
    rep.check({norm(s.value) for s in ra} == {"arch.storage_rounding_quantums[TensorFormat.NHCWB16][-1]", "element_size"}, "C06-g",
              "ethosu/vela/register_command_stream_util.py:check_addresses", "alignment = 16-byte brick for NHCWB16, element size otherwise", str([norm(s.value) for s in ra]))
    f = util.func("check_strides")
    lists = {norm(s.value) for s in ast.walk(f) if isinstance(s, ast.Assign) and norm(s.targets[0]) == "strides_to_check"}
    mult = {norm(s.value) for s in ast.walk(f) if isinstance(s, ast.Assign) and norm(s.targets[0]) == "required_multiple"}
    rep.check(lists == {"[strides.depth, strides.height]", "[strides.height, strides.width]"} and mult == {"16", "element_size_in_bytes"}, "C06-g",
              "ethosu/vela/register_command_stream_util.py:check_strides", "stride multiples: 16 for NHCWB16 C/Y strides, element size for NHWC Y/X strides", f"{lists} {mult}")
    loops = [n for n in ast.walk(f) if isinstance(n, ast.For) and norm(n.iter) == "strides_to_check"]
    rep.check(len(loops) == 1 and calls_in(loops[0], "check_stride"), "C06-g", "ethosu/vela/register_command_stream_util.py:check_strides", "every listed stride is checked", "loop changed")
    # check_dma_op: abstract paths
    it = Interp(repo, util, stubs={"check_alignment", "check_length"})

    def mkd():
        return [AObj("dma_op"), AObj("arch")], {}

    for p in it.run("check_dma_op", mkd):
        calls = sorted((c[0], _txt(c[1][0]), c[1][1]) for c in p.calls)
        u65 = [d for t, d in p.decisions if "is_ethos_u65_system" in t]
        if u65 and not u65[0]:
            want = sorted([("check_alignment", "dma_op.src.address", 16), ("check_alignment", "dma_op.dest.address", 16), ("check_length", "dma_op.src.length", 16)])
            rep.check(calls == want, "C06-g", "ethosu/vela/register_command_stream_util.py:check_dma_op", "U55: src, dest and length 16-byte checked", str(calls))
        else:
            src_int = [d for t, d in p.decisions if "src.region" in t]
            dst_int = [d for t, d in p.decisions if "dest.region" in t]
            want = []
            if src_int and src_int[0]:
                want.append(("check_alignment", "dma_op.src.address", 16))
            if dst_int and dst_int[0]:
                want += [("check_alignment", "dma_op.dest.address", 16), ("check_length", "dma_op.src.length", 16)]
            rep.check(calls == sorted(want), "C06-g", "ethosu/vela/register_command_stream_util.py:check_dma_op",
                      f"U65: internal src={bool(src_int and src_int[0])} dest={bool(dst_int and dst_int[0])} checked", str(calls))
    rep.floor("C06-g", 20)


# ------------------------------------------------------------------ h: stop


def rule_stop(repo, rep, gen):
    sites = []
    for m in repo.core_modules():
        for n in ast.walk(m.tree):
            if isinstance(n, ast.Attribute) and n.attr == "NPU_OP_STOP" and norm(n.value) == "cmd0":
                fn = m.enclosing_function(n)
                sites.append((m, fn, n))
    rep.check(len(sites) == 1 and sites[0][0].name == GEN and sites[0][1].name == "generate_command_stream", "C06-h", _site("generate_command_stream"),
              "NPU_OP_STOP referenced at exactly one site", f"{[(m.name, f.name if f else None) for m, f, n in sites]}")
    f = gen.func("generate_command_stream")
    c = cfg_of(f)
    stops = [x for x in calls_in(f, "emit.cmd_do_operation") if norm(x.args[0]) == "cmd0.NPU_OP_STOP"]
    if len(stops) != 1:
        rep.bad("C06-h", _site("generate_command_stream"), "stop emission", f"{len(stops)} stop emissions")
        return
    sn = c.node_of(stops[0])
    loop = [n for n in f.body if isinstance(n, ast.For) and "npu_op_list" in norm(n.iter) and calls_in(n, "generate_operation_code")]
    if len(loop) != 1:
        raise AnalysisError("operation loop of generate_command_stream not recognised")
    body = c.loop_body_nodes(loop[0])
    rep.check(sn not in body and stops[0] in [getattr(s, "value", None) for s in f.body], "C06-h", _site("generate_command_stream"),
              "stop is a top-level statement after the operation loop", "stop inside a loop or branch")
    head = c.node_of(loop[0])
    rep.check(c.dominates(head, sn), "C06-h", _site("generate_command_stream"), "operation loop precedes the stop", "stop can precede the loop")
    rets = [n for n in c.nodes[3:] if isinstance(n.stmt, ast.Return)]
    for r in rets:
        rep.check(c.dominates(sn, r.id), "C06-h", _site("generate_command_stream"), "every return is preceded by the stop", "return without stop")
    # nothing is emitted after the stop
    after = c._reach_from(sn) - {sn}
    later = [n for n in c.nodes[3:] if n.id in after and n.kind in ("stmt", "test") and n.stmt is not None and any(
        isinstance(x, ast.Call) and isinstance(x.func, ast.Attribute) and norm(x.func.value) == "emit" and x.func.attr.startswith("cmd")
        for x in ast.walk(n.expr if n.kind == "test" else n.stmt))]
    rep.check(not later, "C06-h", _site("generate_command_stream"), "no emission after the stop", f"{len(later)} emissions after stop")
    tl = calls_in(f, "emit.to_list")
    rep.check(len(tl) == 1 and c.dominates(sn, c.node_of(tl[0])), "C06-h", _site("generate_command_stream"), "the returned list is taken after the stop", "to_list before stop")
    rep.check(norm(stops[0].keywords[0].value if stops[0].keywords else stops[0].args[1]) == "65535", "C06-h", _site("generate_command_stream"),
              "stop mask parameter 0xFFFF", "changed")
    rep.floor("C06-h", 6)


def rule_zero_point_always(repo, rep):
    from ..cfg import cfg_of as _cfg

    m = repo.mod("register_command_stream_generator")
    for fname, reg in (("generate_ifm", "NPU_SET_IFM_ZERO_POINT"), ("generate_ifm2", "NPU_SET_IFM2_ZERO_POINT"), ("generate_ofm", "NPU_SET_OFM_ZERO_POINT")):
        f = m.func(fname)
        c = _cfg(f)
        em = c.nodes_where(lambda n_: n_.stmt is not None and n_.kind != "test" and not isinstance(n_.stmt, (ast.If, ast.For, ast.While)) and f"cmd0.{reg}" in str(norm(n_.stmt)))
        if not em:
            raise AnalysisError(f"{fname}: no emission of {reg}")
        rep.check(not c.path_avoiding(0, 1, em), "C06-r", f"ethosu/vela/register_command_stream_generator.py:{fname}", f"{reg} is written on every path through {fname}",
                  f"a path through {fname} leaves without writing {reg}: the register keeps the value of an earlier operation (for a scalar IFM2 the hardware applies that stale zero point to IFM2_SCALAR)")


def rule_scalar_field_width(repo, rep):
    """(t) NPU_SET_IFM2_SCALAR is a cmd0 command: its value travels in the 16-bit parameter field, which cmd0_with_param masks. The
    quantised scalar may only be emitted after a test against that width (an assert / raise on a 16-bit range, or a comparison with
    0xFFFF / 65535 / 32767); the test against the operand's data type alone lets an INT32 scalar of 100000 through as 34464."""
    m = repo.mod("register_command_stream_generator")
    f = m.func("generate_elementwise_op")
    site = "ethosu/vela/register_command_stream_generator.py:generate_elementwise_op"
    ems = [c for c in ast.walk(f) if isinstance(c, ast.Call) and "cmd0_with_param" in str(norm(c.func)) and c.args and str(norm(c.args[0])) == "cmd0.NPU_SET_IFM2_SCALAR"]
    if len(ems) != 1:
        raise AnalysisError("generate_elementwise_op: emission of NPU_SET_IFM2_SCALAR not found")
    val = str(norm(ems[0].args[1]))
    checks = []
    for x in ast.walk(f):
        if isinstance(x, (ast.Assert, ast.If)) and x.lineno < ems[0].lineno and val in str(norm(x.test)):
            checks.append(str(norm(x.test)))
    wide = [t for t in checks if any(k in t for k in ("65535", "0xFFFF", "0xffff", "32767", "32768", "1 << 16", "1 << 15", "DataType.int16", "DataType.uint16", "fits_16"))]
    rep.check(bool(wide), "C06-t", site, f"`{val}` is checked against the 16-bit parameter field before NPU_SET_IFM2_SCALAR is emitted",
              f"checks before the emission: {checks or 'none'}: only the operand's data type bounds the value; an INT32 scalar of 100000 is emitted as 34464, -40000 as +25536 (cmd0_with_param masks to 16 bits)")


def rule_quantise_float32(repo, rep):
    """`numeric_util.quantise_float32(f, scale, zero_point)` = zero_point + round-half-away-from-zero(f / scale): interpreted (engine
    interpreter over the repo's source, numeric primitives modelled) on exact ties with even and odd lower neighbours, both signs, and
    ordinary values. Half-to-even (`np.rint`, `round`) and truncation differ on the ties."""
    import math

    from ..absint import Interp
    from .shared import numeric_externs

    nu = repo.mod("numeric_util")
    if nu.func("quantise_float32") is None:
        raise AnalysisError("numeric_util.quantise_float32 not found")
    ext = numeric_externs()

    def astype(i, a, k, n):
        return int(a[0]) if a and isinstance(a[0], (int, float)) else None

    it = Interp(repo, nu, externs=ext)
    wrong = []
    pts = 0
    for f, scale, zp in ((2.5, 1.0, 0), (-4.5, 1.0, 0), (1.5, 1.0, 0), (-1.5, 1.0, 0), (0.5, 1.0, 3), (-0.5, 1.0, 3), (1.25, 0.5, 10), (1.625, 0.25, 0),
                         (2.4, 1.0, 0), (2.6, 1.0, 0), (-2.4, 1.0, 0), (-2.6, 1.0, -7), (6.0, 0.5, 1), (0.0, 1.0, 5)):
        ps = [p_ for p_ in it.run("quantise_float32", lambda f=f, scale=scale, zp=zp: ([f, scale, zp], {})) if p_.kind == "return"]
        pts += 1
        q = f / scale
        want = zp + int(math.trunc(q + (-0.5 if q < 0 else 0.5)))
        if len(ps) != 1 or not isinstance(ps[0].value, (int, float)):
            raise AnalysisError(f"quantise_float32({f}, {scale}, {zp}) not evaluable: {[(p_.kind, p_.value) for p_ in ps][:2]}")
        if int(ps[0].value) != want:
            wrong.append((f, scale, zp, int(ps[0].value), want))
    rep.check(not wrong, "C06-u", "ethosu/vela/numeric_util.py:quantise_float32", f"zero_point + round-half-away-from-zero(f / scale) on {pts} points (8 exact ties)",
              (f"quantise_float32({wrong[0][0]}, {wrong[0][1]}, {wrong[0][2]}) = {wrong[0][3]}, half-away-from-zero gives {wrong[0][4]}: NPU_SET_IFM2_SCALAR / "
               "NPU_SET_ACTIVATION_MIN / MAX encode a different scalar or clamp than the operation asked for") if wrong else "")


def rule_round12(repo, rep):
    """(x) to_upscale, which sizes the IFM partition behind IB_END, is 1 for resampling NONE and 2 for NEAREST and TRANSPOSE (interpreted for
    every member of the register enum).
    (y) quantise() maps a real value to value / scale + zero point; a quantisation without a scale still has its zero point (interpreted
    with a recording stub for quantise_float32: the zero point handed on is the record's own on every path where a record exists)."""
    from ..absint import AObj, EnumMember, Interp

    aa = repo.mod("architecture_allocator")
    regm = None
    for n_, m in repo.modules.items():
        if m.rel.endswith("ethos_u55_regs.py"):
            regm = m
    if regm is None:
        raise AnalysisError("register description module not found")
    cls = regm.cls("resampling_mode")
    members = [st.targets[0].id for st in cls.body if isinstance(st, ast.Assign) and isinstance(st.targets[0], ast.Name)]
    if sorted(members) != ["NEAREST", "NONE", "TRANSPOSE"]:
        raise AnalysisError(f"resampling_mode members: {members}")
    it = Interp(repo, aa)
    for mem in members:
        em = EnumMember(regm, cls, mem, None)
        ps = [p for p in it.run("to_upscale", lambda em=em: ([em], {})) if p.kind == "return"]
        if not ps:
            raise AnalysisError("to_upscale: no returning path")
        want = 1 if mem == "NONE" else 2
        vals = sorted({p.value for p in ps if isinstance(p.value, int)})
        rep.check(vals == [want], "C06-x", "ethosu/vela/architecture_allocator.py:to_upscale", f"to_upscale({mem}) = {want}",
                  f"returns {vals}: the IFM partition of a {mem} operation is sized for the wrong IFM block (IB_END does not match the layout, fitting block configurations are rejected)")
    um = repo.mod("register_command_stream_util")
    iu = Interp(repo, um, stubs={"quantise_float32"})
    site = "ethosu/vela/register_command_stream_util.py:quantise"
    n = 0
    for scale in (None, 0.5):
        q = AObj("quant", {"scale_f32": scale, "zero_point": 7}, cls="NpuQuantization")
        for p in iu.run("quantise", lambda q=q: ([3.0, q], {})):
            if p.kind != "return":
                continue
            calls = [c for c in p.calls if c[0].split(".")[-1] == "quantise_float32"]
            if len(calls) != 1:
                raise AnalysisError("quantise: quantise_float32 call not recorded")
            args = calls[0][1]
            n += 1
            rep.check(len(args) >= 3 and args[2] == 7 and args[1] == (1 if scale is None else scale), "C06-y", site, f"scale_f32 = {scale}: quantise_float32(value, {1 if scale is None else scale}, zero point 7)",
                      f"called with {args[1:]!r}: a quantisation without a scale loses its zero point - ACTIVATION_MIN / MAX and IFM2_SCALAR are encoded without it")
    if n < 2:
        raise AnalysisError("quantise: paths not evaluated")

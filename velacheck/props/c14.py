"""C14 Compilation is deterministic and independent of process history (structural clauses)."""
import ast
import re

from ..astutil import calls_in, call_name, dotted, norm, walk_no_nested
from ..callgraph import CallGraph
from ..cfg import cfg_of
from ..core import AnalysisError

VP = "ethosu/vela/vela.py"
ENTRY = ["process", "convert", "convert_bytes"]
MUTATORS = {"append", "add", "extend", "insert", "update", "setdefault", "pop", "clear", "remove", "popitem", "appendleft"}

# process-wide stores that need no reset, one line of reason each (confirmed by reading)
HISTORY_SAFE = {
    ("architecture_features", "default_arch_cache"): "pure function of its key (the accelerator); the cached object is read-only afterwards",
    ("weight_compressor", "CompressedWeightCache.cache"): "keyed by WeightCompressionConfig whose value_id is a fresh uuid4 per read tensor: an entry cannot be hit by a later compilation",
    ("tensor", "create_equivalence_id"): "memoised uuid per value key: equal keys must give equal ids; ids carry no order (see rule c) and addresses are reset separately",
    ("range_set", "MemoryAccessSet.conflicts"): "identity-keyed on access sets that die with their command stream; a stale entry can only be hit by the same objects",
}
# stores that must be reset at the start of every entry point: (module, qualified store) -> reset call
RESETS = {
    ("tensor", "TensorAddressMap.address_map"): "TensorAddressMap.clear_address_map",
    ("debug_database", "DebugDatabase._sourceUID"): "DebugDatabase.clean_db",
    ("debug_database", "DebugDatabase._sourceTable"): "DebugDatabase.clean_db",
    ("debug_database", "DebugDatabase._optimisedUID"): "DebugDatabase.clean_db",
    ("debug_database", "DebugDatabase._optimisedTable"): "DebugDatabase.clean_db",
    ("debug_database", "DebugDatabase._queueTable"): "DebugDatabase.clean_db",
    ("debug_database", "DebugDatabase._streamUID"): "DebugDatabase.clean_db",
    ("debug_database", "DebugDatabase._streamTable"): "DebugDatabase.clean_db",
}


def _is_container(v):
    if isinstance(v, (ast.Dict, ast.List, ast.Set)):
        return True
    if isinstance(v, ast.Call):
        cn = (call_name(v) or "").split(".")[-1]
        if cn in ("dict", "list", "set", "defaultdict", "OrderedDict", "deque", "Counter", "Random"):
            return True
        # NumPy arrays are mutable in place as well
        return (call_name(v) or "").split(".")[0] in ("np", "numpy") and cn in ("zeros", "ones", "empty", "full", "array", "arange", "zeros_like", "ones_like")
    return False


def run(repo, rep):
    rep.clause("C14-a", "every process-wide mutable store written during compilation is reset at the start of every entry point (process, convert, convert_bytes) or is in the reviewed history-safe table")
    rep.clause("C14-b", "the allocator's random generator is re-seeded with a literal inside every allocation before any random draw; no other source of randomness or time reaches the output")
    rep.clause("C14-c", "no hash- or identity-ordered iteration reaches the written model: sets feeding the serialiser are totally sorted, sort keys over sets are total")
    rep.undecided("byte-identical outputs across runs, entry points and histories (needs running the compiler)")
    rule_state(repo, rep)
    rule_random(repo, rep)
    rule_order(repo, rep)
    rep.clause("C14-g", "no ambient input: the clock is only printed, file-system state beyond the named inputs only guards errors")
    rule_ambient_inputs(repo, rep)
    rep.clause("C14-h", "the configuration word of the driver header is built afresh for every payload (no register image kept at module level) [rule shared with C17-d]; no function rebinds a module-level counter (`global x` with a store): names and ids derived from it depend on earlier compilations")
    from . import c17 as _c17h

    rep.run_borrowed(_c17h, {"C17-d": "C14-h"}, repo)
    rule_global_rebinding(repo, rep)
    rule_singletons(repo, rep)
    rule_shared_tables(repo, rep)
    rule_interpreter_settings(repo, rep)
    # the graph name is the input file's base name (path entry points) or a constant (convert_bytes): nothing that is written to the
    # output model - subgraph names prefix the command-stream / flash / scratch tensor names - may be derived from it
    rd = repo.mod("tflite_reader")
    gi = rd.func("TFLiteGraph.__init__")
    n_nm = 0
    for st in ast.walk(gi):
        if isinstance(st, ast.Assign) and isinstance(st.targets[0], ast.Attribute) and norm(st.targets[0].value) in ("sg", "tens", "op"):
            n_nm += 1
            leak = [str(norm(x)) for x in ast.walk(st.value) if (isinstance(x, ast.Attribute) and norm(x) == "self.name") or (isinstance(x, ast.Name) and x.id == "filename")]
            rep.check(not leak, "C14-b", "ethosu/vela/tflite_reader.py:TFLiteGraph.__init__", f"`{str(norm(st))[:70]}` does not depend on the graph / file name",
                      f"uses {leak}: the same model bytes compile to different output files through convert_bytes and through a file path (or under two file names)")
    if n_nm < 3:
        raise AnalysisError("TFLiteGraph.__init__: subgraph attribute assignments not found")
    rep.clause("C14-d", "a compilation works on private copies of the model's constant data (it neither mutates the caller's buffer nor shares storage between tensors) [rule shared with C11-d3]")
    from . import c11

    rep.run_borrowed(c11, {"C11-d3": "C14-d"}, repo)


# ------------------------------------------------------------------ a


def rule_state(repo, rep):
    stores = {}
    for m in repo.core_modules():
        if m.name.startswith("tosa") or m.name in ("vela",):
            pass
        for st in m.tree.body:
            if isinstance(st, (ast.Assign, ast.AnnAssign)):
                t = st.targets[0] if isinstance(st, ast.Assign) else st.target
                v = st.value
                if isinstance(t, ast.Name) and v is not None and _is_container(v):
                    stores[(m.name, t.id)] = ("module", t.id)
            if isinstance(st, ast.ClassDef):
                for s2 in st.body:
                    if isinstance(s2, (ast.Assign, ast.AnnAssign)):
                        t = s2.targets[0] if isinstance(s2, ast.Assign) else s2.target
                        v = s2.value
                        if isinstance(t, ast.Name) and v is not None and _is_container(v) and not t.id.startswith("__"):
                            stores[(m.name, f"{st.name}.{t.id}")] = ("class", st.name, t.id)
        for q, fn in m.functions.items():
            if any("lru_cache" in norm(d) for d in fn.decorator_list):
                stores[(m.name, q)] = ("lru", q)
    # which stores are written (mutated / rebound) by some function: one pass collecting every mutation target
    targets = []  # (module name, function qualname, dotted base of the mutated object)
    for m in repo.core_modules():
        for q, fn in m.functions.items():
            for n in walk_no_nested(fn):
                bases = []
                if isinstance(n, ast.Call) and isinstance(n.func, ast.Attribute) and n.func.attr in MUTATORS:
                    bases.append(n.func.value)
                elif isinstance(n, (ast.Assign, ast.AugAssign)):
                    for t in (n.targets if isinstance(n, ast.Assign) else [n.target]):
                        b = t
                        while isinstance(b, ast.Subscript):
                            b = b.value
                        if b is not t or isinstance(t, ast.Attribute):
                            bases.append(b)
                for b in bases:
                    while isinstance(b, ast.Subscript):
                        b = b.value
                    d = dotted(b)
                    if d:
                        targets.append((m.name, q, d))
                        # an in-place write through `self.<x>` in a method reaches the class-level container <Cls>.<x> unless the
                        # constructor gives every instance its own (`self.<x> = ...` in __init__)
                        if d.startswith("self.") and d.count(".") == 1 and "." in q and not isinstance(n, ast.Assign):
                            cls_ = q.split(".")[0]
                            if (m.name, f"{cls_}.{d[5:]}") in stores:
                                init = m.functions.get(f"{cls_}.__init__")
                                own = init is not None and any(isinstance(a_, ast.Assign) and any(str(norm(t_)) == d for t_ in a_.targets) for a_ in ast.walk(init))
                                if not own:
                                    targets.append((m.name, q, f"{cls_}.{d[5:]}"))
    # aliases: `obj.attr = <store>` makes every later in-place write through `.attr` a write to the store
    alias = {}
    for m in repo.core_modules():
        for q, fn in m.functions.items():
            for n in walk_no_nested(fn):
                if isinstance(n, ast.Assign) and len(n.targets) == 1 and isinstance(n.targets[0], ast.Attribute):
                    d = dotted(n.value)
                    if d:
                        for key, info in stores.items():
                            if info[0] != "lru" and _refers(d, info, m.name, key[0]):
                                alias.setdefault(key, set()).add(n.targets[0].attr)
    written = {}
    for key, info in stores.items():
        mname = key[0]
        if info[0] == "lru":
            written[key] = ["memoised calls"]
            continue
        pats = [f"{mn}:{q}" for mn, q, d in targets if _refers(d, info, mn, mname)]
        pats += [f"{mn}:{q} (through alias .{d.split('.')[-1]})" for mn, q, d in targets if "." in d and d.split(".")[-1] in alias.get(key, ())]
        if pats:
            written[key] = sorted(set(pats))
    vela = repo.mod("vela")
    n = 0
    for key in sorted(written):
        mname, qn = key
        site = f"ethosu/vela/{mname}.py:{qn}"
        if mname.startswith("tosa") or mname in ("tflite_mapping",):
            continue
        n += 1
        if key in HISTORY_SAFE:
            rep.ok("C14-a", site, f"process-wide store {qn}", "history-safe: " + HISTORY_SAFE[key])
            if key == ("weight_compressor", "CompressedWeightCache.cache"):
                # during one compilation the cache only grows: an eviction makes a later hit depend on how many entries were left.
                # The one place that may empty it is CompressedWeightCache.clear(), callable from the entry points only
                wc_ = repo.mod("weight_compressor")
                ev = []
                for q_, f_ in wc_.functions.items():
                    if q_ == "CompressedWeightCache.clear":
                        continue
                    for x_ in ast.walk(f_):
                        if isinstance(x_, ast.Call) and isinstance(x_.func, ast.Attribute) and x_.func.attr in ("clear", "pop", "popitem") and "cache" in str(norm(x_.func.value)):
                            ev.append(f"{q_}: {norm(x_)}")
                        if isinstance(x_, ast.Delete) and "cache" in str(norm(x_)):
                            ev.append(f"{q_}: {norm(x_)}")
                        if isinstance(x_, ast.Assign) and str(norm(x_.targets[0])).endswith("CompressedWeightCache.cache") and q_ != "CompressedWeightCache.__init__":
                            ev.append(f"{q_}: {norm(x_)}")
                for m_ in repo.core_modules():
                    for q_, f_ in m_.functions.items():
                        for x_ in calls_in(f_):
                            if (call_name(x_) or "").endswith("CompressedWeightCache.clear") and not (m_.name == "vela" and q_ in ENTRY):
                                ev.append(f"{m_.name}.{q_}: {norm(x_)}")
                rep.check(not ev, "C14-a", site, "the compression cache only grows while compiling (no eviction, clear or rebinding outside the entry points' reset)",
                          f"{ev[:2]}: whether two operators sharing a weight tensor get the same encoded tensor now depends on how full earlier compilations left the cache")
                # an entry cannot be hit by a later compilation: either every key component `value_id` is minted per tensor
                # object (uuid4 / copied from a tensor), or the cache is emptied at the start of every entry point
                stale = _memoised_value_ids(repo)
                clr = wc_.functions.get("CompressedWeightCache.clear")
                clears = clr is not None and any(isinstance(x_, ast.Call) and str(norm(x_.func)) in ("CompressedWeightCache.cache.clear", "cls.cache.clear") for x_ in ast.walk(clr)) or \
                    (clr is not None and any(isinstance(x_, ast.Assign) and str(norm(x_.targets[0])) in ("CompressedWeightCache.cache", "cls.cache") and str(norm(x_.value)) in ("{}", "dict()") for x_ in ast.walk(clr)))
                if stale and not clears:
                    rep.bad("C14-a", site, "cache keys are unique to one compilation (value ids minted per tensor), or the cache is reset at every entry point",
                            f"value ids taken from the process-lifetime memo create_equivalence_id at {stale[:3]} and no reset: a later compilation of a network with the same generated constants "
                            "hits the earlier compilation's encoded tensors (demonstrated: MEAN over H,W compiled twice in one process gives different output files)")
                elif stale:
                    for ep in ENTRY:
                        ok, detail = _reset_at_entry(vela, ep, "CompressedWeightCache.clear")
                        rep.check(ok, "C14-a", f"{VP}:{ep}", f"{qn} is reset at the start of {ep}() (its keys are not unique to one compilation: {len(stale)} memoised value ids)", detail)
                else:
                    rep.ok("C14-a", site, "every value id in a cache key is minted per tensor object", "")
            continue
        if key in RESETS:
            reset = RESETS[key]
            for ep in ENTRY:
                ok, detail = _reset_at_entry(vela, ep, reset)
                rep.check(ok, "C14-a", f"{VP}:{ep}", f"{qn} is reset at the start of {ep}()", detail)
            continue
        rep.bad("C14-a", site, f"process-wide mutable store {qn} written by {written[key][:3]}", "not reset by the entry points and not in the reviewed history-safe table")
    rep.floor("C14-a", 10)
    # the reset functions really rebind / clear every table they are responsible for
    dd = repo.mod("debug_database")
    cd = dd.func("DebugDatabase.clean_db")
    cleared = {norm(s.targets[0] if isinstance(s, ast.Assign) else s.target)[4:] for s in cd.body if isinstance(s, (ast.Assign, ast.AnnAssign))}
    want = {k[1].split(".")[1] for k in RESETS if k[0] == "debug_database"}
    rep.check(want <= cleared, "C14-a", "ethosu/vela/debug_database.py:DebugDatabase.clean_db", "clean_db() resets every mutable table of the database", f"not reset: {sorted(want - cleared)}")
    ca = repo.mod("tensor").func("TensorAddressMap.clear_address_map")
    rep.check(any(isinstance(s, ast.Assign) and norm(s.targets[0]) == "cls.address_map" for s in ca.body), "C14-a", "ethosu/vela/tensor.py:TensorAddressMap.clear_address_map", "clear_address_map() rebinds the map", "")


def _reset_at_entry(vela, ep, reset):
    f = vela.func(ep)
    c = cfg_of(f)
    cs = [x for x in calls_in(f) if (call_name(x) or "") == reset or (call_name(x) or "").endswith("." + reset)]
    if not cs:
        return False, f"{ep}() never calls {reset}()"
    first = min(cs, key=lambda x: x.lineno)
    nid = c.node_of(first)
    # at entry: dominates every call that can reach the compiler or the readers / writers
    work = [x for x in calls_in(f) if (call_name(x) or "").split(".")[0] in ("compiler_driver", "model_reader", "tflite_writer", "stats_writer", "rawdata_writer")]
    ok = all(c.dominates(nid, c.node_of(w)) for w in work) and c.postdominates(nid, 0)
    return ok, f"{reset}() in {ep}() does not precede the compilation on every path (a reset after the work is skipped when the compilation raises)"


def _memoised_value_ids(repo):
    """`t.value_id = ...` sites whose right-hand side is (an alias of) a create_equivalence_id(...) result: that function is
    memoised for the life of the process, so the id is the same in every later compilation."""
    out = []
    for m in repo.core_modules():
        if m.name.startswith("tosa"):
            continue
        for q, fn in m.functions.items():
            memo = set()
            for st in sorted((x for x in ast.walk(fn) if isinstance(x, ast.Assign)), key=lambda x: x.lineno):
                v = st.value
                is_memo = (isinstance(v, ast.Call) and (call_name(v) or "").split(".")[-1] == "create_equivalence_id") or str(norm(v)) in memo
                tgt = str(norm(st.targets[0]))
                if is_memo:
                    memo.add(tgt)
                else:
                    memo.discard(tgt)
                if tgt.endswith(".value_id"):
                    fresh = (isinstance(v, ast.Call) and (call_name(v) or "") in ("uuid.uuid4", "uuid4")) or (isinstance(v, ast.Attribute) and v.attr == "value_id") or \
                        (isinstance(v, ast.Attribute) and v.attr == "equivalence_id" and not is_memo)
                    if not fresh:
                        out.append(f"{m.name}.py:{q} `{str(norm(st))[:70]}`")
    return out


def _refers(d, info, here, home):
    """does dotted expression d (in module `here`) denote the store `info` defined in module `home`?"""
    if info[0] == "module":
        nm = info[1]
        return (here == home and d == nm) or d.endswith("." + nm) and d.split(".")[-2] == home
    cls, nm = info[1], info[2]
    if d in (f"{cls}.{nm}", f"cls.{nm}") or d.endswith(f".{cls}.{nm}"):
        return d != f"cls.{nm}" or here == home
    return False


# ------------------------------------------------------------------ b


def rule_random(repo, rep):
    # uninitialised storage is a source of run-to-run variation like a random generator: every array the compiler allocates is
    # created with defined contents (zeros / ones / full / array / copies), never np.empty / np.ndarray(shape)
    n_alloc = 0
    for m in repo.core_modules():
        for x in ast.walk(m.tree):
            if not isinstance(x, ast.Call):
                continue
            d = call_name(x) or ""
            if d.split(".")[0] in ("np", "numpy") and d.split(".")[-1] in ("zeros", "ones", "full", "zeros_like", "ones_like", "full_like", "empty", "empty_like", "ndarray"):
                fn = m.enclosing_function(x)
                n_alloc += 1
                rep.check(d.split(".")[-1] not in ("empty", "empty_like", "ndarray"), "C14-b", f"ethosu/vela/{m.name}.py:{m.qualname_of(fn) if fn else '<module>'}",
                          f"`{str(norm(x))[:70]}` allocates an array with defined contents", "uninitialised allocation: elements the following code does not overwrite hold whatever the heap held, "
                          "which depends on what the process did before (weights, tables and therefore the output differ between runs)")
    if n_alloc < 15:
        raise AnalysisError(f"array allocations: only {n_alloc} found")
    users = []
    for m in repo.core_modules():
        uses_random = "random" in m.imports and m.imports["random"][2] == "random"
        for q, fn in m.functions.items():
            for n in walk_no_nested(fn):
                if isinstance(n, ast.Call):
                    d = call_name(n) or ""
                    if d.startswith("random.") and uses_random:
                        users.append((m, q, n, d))
                    elif d.startswith(("np.random.", "numpy.random.")) or d in ("os.urandom",) or d.startswith("secrets."):
                        users.append((m, q, n, d))
                    elif isinstance(n.func, ast.Attribute) and n.func.attr in ("randint", "random", "choice", "shuffle", "sample", "uniform", "randrange", "getrandbits") and not d.startswith("random."):
                        users.append((m, q, n, d or norm(n.func)))
        # module / class level generators are process-wide state
        for st in ast.walk(m.tree):
            if isinstance(st, ast.Call) and (call_name(st) or "") in ("random.Random", "Random", "np.random.default_rng", "np.random.RandomState"):
                fn = m.enclosing_function(st)
                q = m.qualname_of(fn) if fn else "<class or module level>"
                rep.check(fn is not None and q.split(".")[-1] in ("allocate", "__init__"), "C14-b", f"ethosu/vela/{m.name}.py:{q}", f"generator object {norm(st)[:60]} is created per allocation",
                          "a generator created at class or module level is shared by every compilation in the process and never re-seeded")
    hc = repo.mod("hillclimb_allocation")
    al = hc.func("HillClimbAllocator.allocate")
    c = cfg_of(al)
    seeds = [x for x in calls_in(al) if (call_name(x) or "") in ("random.seed", "self.rng.seed")]
    ok = len(seeds) == 1 and len(seeds[0].args) == 1 and isinstance(seeds[0].args[0], ast.Constant) and isinstance(seeds[0].args[0].value, int)
    rep.check(ok, "C14-b", "ethosu/vela/hillclimb_allocation.py:HillClimbAllocator.allocate", "allocate() seeds the generator with an integer literal", norm(seeds[0]) if seeds else "no seeding in allocate()")
    if ok:
        sn = c.node_of(seeds[0])
        others = [x for x in calls_in(al) if isinstance(x.func, ast.Attribute) and norm(x.func.value) == "self" and x.func.attr in ("search", "allocate_indices", "attempt_bottleneck_fix")]
        rep.check(all(c.dominates(sn, c.node_of(o)) for o in others) and others, "C14-b", "ethosu/vela/hillclimb_allocation.py:HillClimbAllocator.allocate",
                  "the seeding dominates the search (every random draw of an allocation follows the re-seed)", "")
    cg = CallGraph(repo)
    for m, q, n, d in users:
        site = f"ethosu/vela/{m.name}.py:{q}"
        if d in ("random.seed",):
            continue
        if m.name == "hillclimb_allocation" and q.startswith("HillClimbAllocator.") and (d.startswith("random.") or d.startswith("self.rng")):
            # reachable only through allocate()
            callers = set()
            todo = [("hillclimb_allocation", q)]
            seen = set()
            roots = set()
            while todo:
                k = todo.pop()
                if k in seen:
                    continue
                seen.add(k)
                cs = [f.key for f, _ in cg.callers_of(k)]
                if not cs:
                    roots.add(k)
                todo.extend(cs)
            inside = [r for r in roots if r[0] == "hillclimb_allocation"]
            via_alloc = ("hillclimb_allocation", "HillClimbAllocator.allocate") in seen
            rep.check(via_alloc, "C14-b", site, f"{d}(...) is reached through HillClimbAllocator.allocate (after the re-seed)", f"call roots {sorted(roots)}")
        else:
            rep.bad("C14-b", site, f"{d}(...)", "a source of randomness outside the seeded tensor allocator")
    # time / id() only in diagnostics
    for m in repo.core_modules():
        for q, fn in m.functions.items():
            for n in walk_no_nested(fn):
                if isinstance(n, ast.Call) and (call_name(n) or "") in ("time.time", "time.perf_counter", "datetime.now", "datetime.datetime.now"):
                    st = n
                    par = m.parents.get(n)
                    ok = isinstance(par, ast.Assign) and norm(par.targets[0]) in ("start", "stop", "start_time", "end_time", "t0", "t1") or isinstance(par, ast.BinOp)
                    rep.check(ok, "C14-b", f"ethosu/vela/{m.name}.py:{q}", f"{norm(n)} is used for timing output only", "time value flows somewhere else")
    rep.floor("C14-b", 8)


# ------------------------------------------------------------------ c


def rule_mutable_defaults(repo, rep):
    """(a, default arguments) a container created in a parameter default lives as long as the function object: a function that mutates such a
    parameter in place (add / append / update / subscript store) keeps state between calls and between compilations."""
    if not (_is_container(ast.parse("set()").body[0].value) and _is_container(ast.parse("[]").body[0].value)):
        raise AnalysisError("mutable default matcher does not recognise its positive examples")
    n = 0
    for m in repo.core_modules():
        for q, fn in m.functions.items():
            args = fn.args
            pos = args.posonlyargs + args.args
            pairs = list(zip(pos[len(pos) - len(args.defaults):], args.defaults)) + [(a, d) for a, d in zip(args.kwonlyargs, args.kw_defaults) if d is not None]
            for a, d in pairs:
                if not _is_container(d):
                    continue
                n += 1
                muts = []
                for x in walk_no_nested(fn):
                    if isinstance(x, ast.Call) and isinstance(x.func, ast.Attribute) and x.func.attr in MUTATORS and str(norm(x.func.value)) == a.arg:
                        muts.append(str(norm(x))[:50])
                    if isinstance(x, (ast.Assign, ast.AugAssign)):
                        for t in (x.targets if isinstance(x, ast.Assign) else [x.target]):
                            if isinstance(t, ast.Subscript) and str(norm(t.value)) == a.arg:
                                muts.append(str(norm(x))[:50])
                rep.check(not muts, "C14-a", f"{m.rel}:{q}", f"the default container of parameter `{a.arg}` is never mutated", f"`{muts[0] if muts else ''}` mutates the default `{str(norm(d))}`, which is created once: "
                          "what one compilation records (seen tensor ids) is still there in the next one (weights counted once per process, the summary of a second compilation differs)")
    return n


def rule_sort_key_objects(repo, rep):
    """(c, tie-breaks) a tuple sort key built in a generator must never let the comparison reach the object itself: Tensor / Operation /
    LiveRange order by per-run ids (uuid, equivalence id). Where the key tuple carries the generator's own element as a bare name, an
    earlier component must be the position from enumerate(...) of the same generator (total and unique), so the object is never compared."""
    n = 0
    for m in repo.core_modules():
        for q, fn in m.functions.items():
            for c in walk_no_nested(fn):
                if not (isinstance(c, ast.Call) and call_name(c) == "sorted" and c.args and isinstance(c.args[0], (ast.GeneratorExp, ast.ListComp)) and not any(k.arg == "key" for k in c.keywords)):
                    continue
                g = c.args[0]
                if not isinstance(g.elt, ast.Tuple) or len(g.generators) != 1:
                    continue
                gen = g.generators[0]
                tgt = gen.target
                idx_name, obj_names = None, set()
                if isinstance(gen.iter, ast.Call) and call_name(gen.iter) == "enumerate" and isinstance(tgt, ast.Tuple) and len(tgt.elts) == 2 and all(isinstance(e, ast.Name) for e in tgt.elts):
                    idx_name, obj_names = tgt.elts[0].id, {tgt.elts[1].id}
                elif isinstance(tgt, ast.Name):
                    obj_names = {tgt.id}
                elif isinstance(tgt, ast.Tuple):
                    obj_names = {e.id for e in tgt.elts if isinstance(e, ast.Name)}
                pos_obj = [i for i, e in enumerate(g.elt.elts) if isinstance(e, ast.Name) and e.id in obj_names and e.id != idx_name]
                if not pos_obj:
                    continue
                n += 1
                pos_idx = [i for i, e in enumerate(g.elt.elts) if isinstance(e, ast.Name) and e.id == idx_name] if idx_name else []
                ok = bool(pos_idx) and min(pos_idx) < min(pos_obj)
                rep.check(ok, "C14-c", f"{m.rel}:{q}", f"`{str(norm(c))[:90]}`: a position from enumerate precedes the object in the key tuple",
                          "ties in the leading components are broken by comparing the objects themselves (Tensor.__lt__ compares per-run ids): two tensors of the same name change places between runs")
    rep.floor("C14-c", 2)


def rule_order(repo, rep):
    rule_mutable_defaults(repo, rep)
    rule_sort_key_objects(repo, rep)
    n = 0
    for mname in ("tflite_writer", "npu_serialisation", "tensor_allocation", "live_range", "extract_npu_subgraphs", "pass_packing", "high_level_command_stream_generator", "greedy_allocation",
                  "vela", "architecture_features", "compiler_driver", "model_reader", "scheduler", "cascade_builder", "hillclimb_allocation"):
        m = repo.mod(mname)
        for q, fn in m.functions.items():
            sets = set()
            for s in walk_no_nested(fn):
                if isinstance(s, ast.Assign) and len(s.targets) == 1 and isinstance(s.targets[0], ast.Name):
                    v = s.value
                    if isinstance(v, (ast.Set, ast.SetComp)) or (isinstance(v, ast.Call) and call_name(v) in ("set", "frozenset")):
                        sets.add(s.targets[0].id)
            site = f"ethosu/vela/{mname}.py:{q}"
            for node in walk_no_nested(fn):
                # iteration over the set
                it = None
                if isinstance(node, ast.For):
                    it = node.iter
                elif isinstance(node, ast.comprehension):
                    it = node.iter
                if it is not None:
                    src = it
                    wrapped = None
                    if isinstance(src, ast.Call) and call_name(src) in ("enumerate", "list", "tuple", "reversed"):
                        wrapped = call_name(src)
                        src = src.args[0] if src.args else src
                    inline = isinstance(src, (ast.Set, ast.SetComp)) or (isinstance(src, ast.Call) and call_name(src) in ("set", "frozenset"))
                    if inline:
                        src = ast.Name(id=str(norm(src))[:40], ctx=ast.Load())
                    if inline or (isinstance(src, ast.Name) and src.id in sets):
                        n += 1
                        par = m.parents.get(node) if isinstance(node, ast.comprehension) else None
                        gp = m.parents.get(par) if par is not None else None
                        sorted_total = False
                        if isinstance(par, ast.GeneratorExp) and isinstance(gp, ast.Call) and call_name(gp) == "sorted" and not gp.keywords:
                            # sorted(<tuple> for x in S): total iff the tuple does not contain the enumeration index of the set before a unique component
                            elt = par.elt
                            comps = [norm(e) for e in elt.elts] if isinstance(elt, ast.Tuple) else [norm(elt)]
                            idx_names = [norm(e) for e in node.target.elts[:1]] if wrapped == "enumerate" and isinstance(node.target, ast.Tuple) else []
                            sorted_total = not any(c_ in idx_names for c_ in comps)
                            rep.check(sorted_total, "C14-c", site, f"sorted({norm(elt)} for ... in {norm(it)}) does not use the set's iteration index as a tie-breaker",
                                      "ties are broken by the position in a set of identity-hashed objects: the order depends on memory addresses, i.e. on process history")
                            continue
                        if isinstance(par, (ast.SetComp, ast.DictComp)) or (isinstance(gp, ast.Call) and call_name(gp) in ("set", "frozenset", "any", "all", "sum", "max", "min", "len", "sorted")):
                            rep.ok("C14-c", site, f"iteration over set `{src.id}` feeds an order-insensitive consumer", "")
                            continue
                        if isinstance(node, ast.For):
                            body_txt = " ".join(norm(x) for x in node.body)
                            order_free = not re.search(r"\.append\(|\.extend\(|yield |\.insert\(|\+= \[", body_txt)
                            lv = {x.id for x in ast.walk(node.target) if isinstance(x, ast.Name)}
                            for c_ in ast.walk(ast.Module(body=node.body, type_ignores=[])):
                                # handing the element to another function of the compiler: what that function appends to is built in set order
                                if isinstance(c_, ast.Call) and isinstance(c_.func, ast.Name) and c_.func.id in m.functions and any(isinstance(a_, ast.Name) and a_.id in lv for a_ in c_.args):
                                    order_free = False
                            rep.check(order_free, "C14-c", site, f"for ... in {norm(it)}: body does not build an ordered result",
                                      "a list is built in set iteration order (hash / identity order)")
                            continue
                        rep.bad("C14-c", site, f"comprehension over set `{src.id}` builds an ordered result: {norm(par)[:80] if par is not None else ''}", "set iteration order is hash / identity order")
                # sorted(S) over a set of tuples that end in an object: ties on the leading components are decided by the object's
                # __lt__; if that ordering is not total (its last field, e.g. a name, can repeat) equal elements keep the set's order
                if isinstance(node, ast.Call) and call_name(node) == "sorted" and not node.keywords and len(node.args) == 1 and isinstance(node.args[0], ast.Name) and node.args[0].id in sets:
                    sname = node.args[0].id
                    adds = [c_ for c_ in walk_no_nested(fn) if isinstance(c_, ast.Call) and isinstance(c_.func, ast.Attribute) and c_.func.attr == "add" and isinstance(c_.func.value, ast.Name)
                            and c_.func.value.id == sname and c_.args and isinstance(c_.args[0], ast.Tuple)]
                    for a_ in adds:
                        objs = [e_ for e_ in a_.args[0].elts if isinstance(e_, ast.Name)]
                        idx_like = any(isinstance(e_, ast.Name) and e_.id in ("idx", "index", "i", "n") for e_ in a_.args[0].elts[:-1])
                        if not objs:
                            continue
                        n += 1
                        # the final fields of the __lt__ methods defined in the allocation modules
                        last_fields = set()
                        for m2 in (repo.mod("live_range"), repo.mod("hillclimb_allocation")):
                            for q2, f2 in m2.functions.items():
                                if q2.endswith(".__lt__"):
                                    r2 = sorted((r_ for r_ in ast.walk(f2) if isinstance(r_, ast.Return)), key=lambda r_: r_.lineno)
                                    if r2 and isinstance(r2[-1].value, ast.Compare) and isinstance(r2[-1].value.left, ast.Attribute):
                                        last_fields.add(r2[-1].value.left.attr)
                        total = idx_like or last_fields <= {"id", "index", "uid"}
                        rep.check(total, "C14-c", site, f"sorted({sname}): the order of the sorted set is total (ties cannot occur or are broken by a position in a list)",
                                  f"elements `{str(norm(a_.args[0]))}` are ordered by their tuple and finally by the object's __lt__, whose last field {sorted(last_fields)} can repeat (two tensors may carry the same name): "
                                  "fully tied elements keep the set's iteration order, i.e. the objects' memory addresses (demonstrated: --tensor-allocator Greedy, two inputs named alike: two different outputs in 10 runs)")
                # list(S) / tuple(S): materialising a set as a sequence keeps its hash / identity order
                if isinstance(node, ast.Call) and call_name(node) in ("list", "tuple") and len(node.args) == 1:
                    a0 = node.args[0]
                    inline_set = isinstance(a0, (ast.Set, ast.SetComp)) or (isinstance(a0, ast.Call) and call_name(a0) in ("set", "frozenset"))
                    if inline_set or (isinstance(a0, ast.Name) and a0.id in sets):
                        par = m.parents.get(node)
                        consumer = call_name(par) if isinstance(par, ast.Call) else None
                        n += 1
                        rep.check(consumer in ("sorted", "set", "frozenset", "len", "sum", "max", "min", "any", "all"), "C14-c", site, f"`{str(norm(node))[:70]}` does not fix the order of a set's elements",
                                  "a set is turned into a sequence: for strings the order depends on PYTHONHASHSEED, for objects on memory addresses (e.g. which of two configuration files is read last)")
                # sorted(S or derived, key=...) with a projecting key
                if isinstance(node, ast.Call) and call_name(node) == "sorted" and node.keywords and node.args:
                    a0 = node.args[0]
                    base = a0.args[0] if isinstance(a0, ast.Call) and call_name(a0) in ("set", "list") and a0.args else a0
                    is_set = (isinstance(base, ast.Name) and base.id in sets) or isinstance(a0, (ast.Set, ast.SetComp)) or (isinstance(a0, ast.Call) and call_name(a0) == "set")
                    key = next((k.value for k in node.keywords if k.arg == "key"), None)
                    if is_set and key is not None:
                        n += 1
                        proj = isinstance(key, ast.Lambda) and isinstance(key.body, ast.Subscript)
                        rep.check(not proj, "C14-c", site, f"{norm(node)[:90]}: the sort key over a set is total", "the key projects one component: ties keep the set's hash-dependent order")
    # ordering methods and sort keys compare reproducible values only: Tensor.__lt__ orders by equivalence_id, a uuid4, so a
    # comparison that falls through to tensors (or lists of them), to an equivalence / value id, or to id() / hash() gives
    # an order that differs from run to run; allocation order, hence every address in the output, follows it
    ten = repo.mod("tensor").func("Tensor.__lt__")
    if "equivalence_id" not in str(norm(ten)):
        raise AnalysisError("Tensor.__lt__ no longer orders by equivalence_id: review the identity-ordered attribute list")
    IDENTITY = {"tensors", "tensor", "tens", "equivalence_id", "value_id", "src_tensor", "ops", "op", "consumer_list"}
    n_ord = 0

    def identity_operands(expr, fn):
        bad = []
        sa = {str(norm(t_.targets[0])): t_.value for t_ in ast.walk(fn) if isinstance(t_, ast.Assign) and len(t_.targets) == 1 and isinstance(t_.targets[0], ast.Name)} if fn is not None else {}
        todo, seen = [expr], set()
        while todo:
            e = todo.pop()
            if isinstance(e, ast.Compare):
                todo += [e.left] + list(e.comparators)
            elif isinstance(e, ast.BinOp):
                todo += [e.left, e.right]
            elif isinstance(e, ast.UnaryOp):
                todo.append(e.operand)
            elif isinstance(e, (ast.Tuple, ast.List)):
                todo += list(e.elts)
            elif isinstance(e, ast.IfExp):
                todo += [e.body, e.orelse]
            elif isinstance(e, ast.BoolOp):
                todo += list(e.values)
            elif isinstance(e, ast.Subscript):
                todo.append(e.value)
            elif isinstance(e, ast.Attribute):
                if e.attr in IDENTITY:
                    bad.append(str(norm(e)))
            elif isinstance(e, ast.Call):
                if call_name(e) in ("id", "hash"):
                    bad.append(str(norm(e)))
            elif isinstance(e, ast.Name) and e.id in sa and e.id not in seen:
                seen.add(e.id)
                todo.append(sa[e.id])
        return bad

    for m in repo.core_modules():
        if m.name.startswith("tosa"):
            continue
        m_par = m.parents
        for q, fn in m.functions.items():
            if q.split(".")[-1] in ("__lt__", "__gt__", "__le__", "__ge__") and q != "Tensor.__lt__":
                for cmp_ in ast.walk(fn):
                    if isinstance(cmp_, ast.Compare) and any(isinstance(o, (ast.Lt, ast.Gt, ast.LtE, ast.GtE)) for o in cmp_.ops):
                        n_ord += 1
                        bad = identity_operands(cmp_, fn)
                        rep.check(not bad, "C14-c", f"ethosu/vela/{m.name}.py:{q}", f"`{str(norm(cmp_))[:70]}` orders by reproducible values",
                                  f"compares {bad}: tensors order by their uuid4 equivalence id, so ties between otherwise equal live ranges are broken differently in every run")
            for c_ in walk_no_nested(fn):
                if isinstance(c_, ast.Call) and ((call_name(c_) or "") in ("sorted", "min", "max") or (isinstance(c_.func, ast.Attribute) and c_.func.attr == "sort")):
                    key = next((k.value for k in c_.keywords if k.arg == "key"), None)
                    if isinstance(key, ast.Lambda):
                        n_ord += 1
                        bad = identity_operands(key.body, None)
                        rep.check(not bad, "C14-c", f"ethosu/vela/{m.name}.py:{q}", f"sort key `{str(norm(key))[:70]}` is built from reproducible values", f"key uses {bad} (identity / uuid order)")
    if n_ord < 10:
        raise AnalysisError(f"ordering methods / sort keys: only {n_ord} comparisons found")
    tw = repo.mod("tflite_writer")
    init = tw.func("TFLiteSerialiser.__init__")
    oc = [s for s in ast.walk(init) if isinstance(s, ast.Assign) and norm(s.targets[0]) == "self.operator_codes"]
    ok = len(oc) == 1 and call_name(oc[0].value) == "sorted" and not oc[0].value.keywords
    rep.check(ok, "C14-c", "ethosu/vela/tflite_writer.py:TFLiteSerialiser.__init__", "operator codes: sorted(set(...)) on the full (type, custom code, version) tuple", norm(oc[0].value)[:100] if oc else "")
    ss = tw.func("TFLiteSerialiser.serialise_subgraph")
    ts = [s for s in walk_no_nested(ss) if isinstance(s, ast.Assign) and norm(s.targets[0]) == "tensor_set"]
    _dc = len(ts) == 1 and isinstance(ts[0].value, ast.DictComp) and isinstance(ts[0].value.key, ast.Name) and len(ts[0].value.generators) == 1 and norm(ts[0].value.generators[0].target) == ts[0].value.key.id
    rep.check(len(ts) == 1 and (call_name(ts[0].value) in ("dict.fromkeys", "OrderedDict.fromkeys") or _dc), "C14-c", "ethosu/vela/tflite_writer.py:TFLiteSerialiser.serialise_subgraph",
              "the tensor collection is insertion ordered (dict.fromkeys), so equal-named tensors keep a history-independent order", norm(ts[0].value) if ts else "")
    # Tensor ordering falls back to uuid only after the name
    rep.floor("C14-c", 3)


# ------------------------------------------------------------------ e


def rule_singletons(repo, rep):
    """Objects created at module level (the option serializers held in the operator maps) live for the whole process.
    An attribute such an object assigns outside __init__ is process-wide state; it is harmless only if no method
    reads it before (re)assigning it in the same call, i.e. every read is dominated by an assignment in that method."""
    rep.clause("C14-e", "objects instantiated at module level (option serializers) carry no state from one use to the next: an attribute assigned outside __init__ is never read before it is assigned again in the same method")
    allcls = {}
    for m in repo.core_modules():
        for cn in m.classes:
            allcls.setdefault(cn, []).append(m)
    single = {}
    for m in repo.core_modules():
        for st in m.tree.body:
            if isinstance(st, (ast.Assign, ast.AnnAssign, ast.Expr)):
                for n in ast.walk(st):
                    if isinstance(n, ast.Call) and isinstance(n.func, ast.Name) and n.func.id in allcls and len(allcls[n.func.id]) == 1:
                        single[n.func.id] = allcls[n.func.id][0]
    if "CustomOptionsSerializer" not in single:
        raise AnalysisError("module-level serializer instances not found")
    n = 0
    for cn, m in sorted(single.items()):
        methods = {q: f for q, f in m.functions.items() if q.startswith(cn + ".") and q.count(".") == 1}
        late = set()
        for q, f in methods.items():
            if q.endswith(".__init__"):
                continue
            for st in ast.walk(f):
                if isinstance(st, (ast.Assign, ast.AugAssign, ast.AnnAssign)):
                    for t in (st.targets if isinstance(st, ast.Assign) else [st.target]):
                        if isinstance(t, ast.Attribute) and norm(t.value) == "self":
                            late.add(t.attr)
        for attr in sorted(late):
            n += 1
            rep.ok("C14-e", f"ethosu/vela/{m.name}.py:{cn}", f"self.{attr} is assigned outside __init__ (process-wide state of the module-level {cn} instances)", "reads inside the class are checked one by one")
            for q, f in methods.items():
                if q.endswith(".__init__"):
                    continue
                c = cfg_of(f)
                writes = [nd.id for nd in c.nodes[3:] if nd.stmt is not None and isinstance(nd.stmt, (ast.Assign, ast.AnnAssign)) and nd.kind != "test" and
                          any(isinstance(t, ast.Attribute) and norm(t) == f"self.{attr}" for t in (nd.stmt.targets if isinstance(nd.stmt, ast.Assign) else [nd.stmt.target]))]
                for x in ast.walk(f):
                    if isinstance(x, ast.Attribute) and isinstance(x.ctx, ast.Load) and norm(x) == f"self.{attr}":
                        node = c.node_of(x)
                        n += 1
                        ok = node is not None and any(w != node and c.dominates(w, node) for w in writes)
                        rep.check(ok, "C14-e", f"ethosu/vela/{m.name}.py:{q}", f"read of self.{attr} (process-wide {cn} instance) is preceded by an assignment in the same call",
                                  f"`self.{attr}` is read at line {x.lineno} before this call assigns it: the value left by an earlier operator / compilation leaks into the output")
    rep.floor("C14-e", 1)


def rule_shared_tables(repo, rep):
    """(a) objects that live in class-level tables (the rows of ArchitectureFeatures.accelerator_configs and the Block /
    granule objects inside them, reached as arch.config.<field>) are shared by every architecture object of the process: no
    function stores through them or through a local alias of them."""
    import re as _re

    SHARED = _re.compile(r"(^|[.])config[.](ofm_ublock|ifm_ublock|shram_granules)($|[.]|[\[])|accelerator_configs")
    n = 0
    for m in repo.core_modules():
        if m.name.startswith("tosa"):
            continue
        for q, fn in m.functions.items():
            alias = set()
            for st in walk_no_nested(fn):
                if isinstance(st, ast.Assign) and len(st.targets) == 1 and isinstance(st.targets[0], ast.Name) and isinstance(st.value, (ast.Attribute, ast.Subscript)) and SHARED.search(str(norm(st.value))):
                    alias.add(st.targets[0].id)
            reads = [x for x in ast.walk(fn) if isinstance(x, (ast.Attribute, ast.Subscript)) and SHARED.search(str(norm(x)))]
            if not reads and not alias:
                continue
            n += 1
            muts = []
            for st in walk_no_nested(fn):
                tg = []
                if isinstance(st, ast.Assign):
                    tg = [x for t in st.targets for x in (t.elts if isinstance(t, ast.Tuple) else [t])]
                elif isinstance(st, ast.AugAssign):
                    tg = [st.target]
                for t in tg:
                    if isinstance(t, (ast.Attribute, ast.Subscript)):
                        base = t.value
                        if (isinstance(base, ast.Name) and base.id in alias) or SHARED.search(str(norm(base))):
                            muts.append(str(norm(st))[:70])
                if isinstance(st, ast.Expr) and isinstance(st.value, ast.Call) and isinstance(st.value.func, ast.Attribute) and st.value.func.attr in MUTATORS:
                    base = st.value.func.value
                    if (isinstance(base, ast.Name) and base.id in alias) or SHARED.search(str(norm(base))):
                        muts.append(str(norm(st))[:70])
            rep.check(not muts, "C14-a", f"ethosu/vela/{m.name}.py:{q}", "the shared accelerator table objects are only read",
                      f"{muts[:2]}: the object belongs to the class-level accelerator table shared by every compilation of the process; after this statement every later compilation for that "
                      "accelerator derives block sizes and cycle estimates from the changed micro-block")
    if n < 3:
        raise AnalysisError(f"shared accelerator table readers: only {n} found")


def rule_interpreter_settings(repo, rep):
    """(f) interpreter-wide settings are part of the process state that outlives a compilation. The recursion limit decides whether a deep
    network compiles; every entry point sets it to an absolute value (a constant, or the option of this call), unconditionally - a
    'raise it if it is lower' keeps whatever an earlier compilation in the process left."""
    rep.clause("C14-f", "every entry point sets the interpreter's recursion limit to an absolute value of its own (never conditionally on the current limit): whether a deep network compiles does not depend on earlier compilations")
    vm = repo.mod("vela")
    n = 0
    sets = {}
    for q, fn in vm.functions.items():
        for c in walk_no_nested(fn):
            if isinstance(c, ast.Call) and str(norm(c.func)) == "sys.setrecursionlimit":
                n += 1
                cur, cond = c, None
                while cur is not fn and cur is not None:
                    pp = vm.parents.get(cur)
                    if isinstance(pp, (ast.If, ast.IfExp, ast.While)) and "getrecursionlimit" in str(norm(pp.test)):
                        cond = pp
                    cur = pp
                arg_reads_current = "getrecursionlimit" in str(norm(c.args[0])) if c.args else True
                sets.setdefault(q, []).append(c)
                rep.check(cond is None and not arg_reads_current, "C14-f", f"ethosu/vela/vela.py:{q}", f"`{str(norm(c))}` sets an absolute limit unconditionally",
                          f"depends on the limit currently in force (`{str(norm(cond.test)) if cond is not None else str(norm(c.args[0]))}`): a limit raised by an earlier compilation in the process persists, and a "
                          "network that ends in RecursionError when compiled alone compiles after it")
    # every entry point reaches such a call: directly or through a helper of this module
    for entry in ("convert", "convert_bytes", "main"):
        fn = vm.func(entry)
        direct = entry in sets
        via = [str(norm(c.func)) for c in walk_no_nested(fn) if isinstance(c, ast.Call) and isinstance(c.func, ast.Name) and c.func.id in sets]
        rep.check(direct or bool(via), "C14-f", f"ethosu/vela/vela.py:{entry}", "the entry point sets the recursion limit", "no sys.setrecursionlimit reached from this entry point")
    if n < 2:
        raise AnalysisError(f"sys.setrecursionlimit calls in vela.py: {n}")
    rep.floor("C14-f", 5)


_CLOCKS = ("time.time", "time.monotonic", "time.perf_counter", "time.process_time", "time.time_ns", "time.monotonic_ns", "datetime.now", "datetime.datetime.now", "datetime.utcnow", "datetime.datetime.utcnow")
_FILE_STATE = ("os.path.getmtime", "os.path.getctime", "os.path.getatime", "os.path.getsize", "os.path.isfile", "os.path.exists", "os.path.isdir", "os.stat", "os.listdir", "glob.glob", "os.scandir")


_FILE_STATE_EXEMPT = {
    ("vela", "list_config_files"): "implements --list-config-files: prints the bundled configuration files and exits, nothing is compiled",
}


def rule_ambient_inputs(repo, rep):
    """(g) the compilation result depends on the model, the options and the configuration files only. Two ambient inputs are excluded
    structurally: (1) the clock - a time source may be read only into a local that is used for printing elapsed times (never in a
    condition, a bound or an argument of the compiler proper): a search that stops on a deadline gives a host-speed dependent plan;
    (2) the state of the file system beyond the named inputs - existence / time-stamp tests may only guard an error (`raise`), never a
    short cut that returns or skips work: an output left by an earlier compilation must not decide what is returned."""
    n = 0
    for m in repo.core_modules():
        for q, fn in m.functions.items():
            site = f"ethosu/vela/{m.name}.py:{q}"
            clock_names = set()
            for c in walk_no_nested(fn):
                if isinstance(c, ast.Call) and call_name(c) in _CLOCKS:
                    n += 1
                    par = m.parents.get(c)
                    if isinstance(par, ast.Assign) and len(par.targets) == 1 and isinstance(par.targets[0], ast.Name) and par.value is c:
                        clock_names.add(par.targets[0].id)
                    else:
                        rep.bad("C14-g", site, "a clock is read only into a local used for reporting", f"`{str(norm(par))[:80]}` uses the clock value directly: the result depends on the speed and load of the host")
            for nm in clock_names:
                for x in walk_no_nested(fn):
                    if isinstance(x, ast.Name) and x.id == nm and isinstance(x.ctx, ast.Load):
                        cur = m.parents.get(x)
                        ok = False
                        while cur is not None and cur is not fn:
                            if isinstance(cur, ast.Call) and call_name(cur) in ("print", "round", "format"):
                                ok = True
                                break
                            if isinstance(cur, (ast.If, ast.While, ast.IfExp, ast.Compare, ast.Return)) or (isinstance(cur, ast.Call) and call_name(cur) not in ("print", "round", "format", "str", "int", "float")):
                                break
                            if isinstance(cur, ast.Assign):
                                # elapsed = stop - start: follow the new name one level
                                tgt = cur.targets[0].id if isinstance(cur.targets[0], ast.Name) else None
                                uses = [y for y in walk_no_nested(fn) if isinstance(y, ast.Name) and y.id == tgt and isinstance(y.ctx, ast.Load)]
                                ok = bool(tgt) and all(any(isinstance(a_, ast.Call) and call_name(a_) == "print" for a_ in _ancestors(m, y, fn)) for y in uses)
                                break
                            cur = m.parents.get(cur)
                        rep.check(ok, "C14-g", site, f"clock value `{nm}` is only printed", f"`{str(norm(m_parent_stmt_(m, x)))[:80]}`: the clock takes part in the compilation (a deadline, a bound): host-speed dependent result")
            for c in walk_no_nested(fn):
                if isinstance(c, ast.Call) and call_name(c) in _FILE_STATE:
                    n += 1
                    if (m.name, q) in _FILE_STATE_EXEMPT:
                        rep.ok("C14-g", site, f"`{str(norm(c))[:60]}`", "reviewed: " + _FILE_STATE_EXEMPT[(m.name, q)])
                        continue
                    cur = m.parents.get(c)
                    guard = None
                    while cur is not None and cur is not fn:
                        if isinstance(cur, (ast.If, ast.While)) and any(c is y for y in ast.walk(cur.test)):
                            guard = cur
                            break
                        cur = m.parents.get(cur)
                    ok = guard is not None and isinstance(guard, ast.If) and any(isinstance(y, ast.Raise) for y in guard.body) and not any(isinstance(y, (ast.Return, ast.Continue, ast.Break)) for y in ast.walk(guard))
                    rep.check(ok, "C14-g", site, f"`{str(norm(c))[:60]}` only guards an error", f"`{str(norm(guard.test))[:80] if guard is not None else str(norm(c))[:60]}` decides what the compiler does or returns from the state of the file system "
                              "(an output file left by an earlier compilation is returned instead of compiling)")
    if n < 4:
        raise AnalysisError(f"clock / file-state reads: {n} found")


def _ancestors(m, node, fn):
    cur = m.parents.get(node)
    while cur is not None and cur is not fn:
        yield cur
        cur = m.parents.get(cur)


def m_parent_stmt_(m, node):
    cur = node
    while cur is not None and not isinstance(cur, ast.stmt):
        cur = m.parents.get(cur)
    return cur if cur is not None else node


_GLOBAL_REBIND_OK = {
    # (module, function, name): reviewed reason
}


def rule_global_rebinding(repo, rep):
    n = 0
    for m in repo.core_modules():
        for q, fn in m.functions.items():
            for st in walk_no_nested(fn):
                if isinstance(st, ast.Global):
                    for nm in st.names:
                        n += 1
                        stores = [x for x in ast.walk(fn) if isinstance(x, ast.Name) and x.id == nm and isinstance(x.ctx, ast.Store)]
                        if (m.name, q, nm) in _GLOBAL_REBIND_OK:
                            rep.ok("C14-h", f"ethosu/vela/{m.name}.py:{q}", f"global {nm}", "reviewed: " + _GLOBAL_REBIND_OK[(m.name, q, nm)])
                            continue
                        rep.check(not stores, "C14-h", f"ethosu/vela/{m.name}.py:{q}", f"`global {nm}` is not re-bound by the function",
                                  f"`{nm}` is module-level state that {q} updates: what is derived from it (subgraph names `<sg>_split_<n>`, hence tensor names and their order in the output) depends on the compilations that ran before in the process")
    rep.ok("C14-h", "ethosu/vela", f"{n} global declarations in functions", "")

"""C03 No NPU operation consumes memory that was not defined for it (structural clauses)."""
import ast
import re
import copy

from ..astutil import calls_in, call_name, norm, same_texts, try_fold, walk_no_nested
from ..cfg import cfg_of
from ..core import AnalysisError
from ..exprnorm import conjuncts, linear
from .shared import closed_interval_sites

LR = "ethosu/vela/live_range.py"
CB = "ethosu/vela/cascade_builder.py"


class _Sub(ast.NodeTransformer):
    def __init__(self, mapping):
        self.mapping = mapping

    def generic_visit(self, node):
        t = norm(node) if isinstance(node, ast.expr) else None
        if t in self.mapping:
            return ast.Constant(self.mapping[t])
        return super().generic_visit(node)


def eval_with(expr, mapping):
    e = _Sub(mapping).visit(copy.deepcopy(expr))
    return try_fold(ast.fix_missing_locations(e), default=None)


def run(repo, rep):
    rep.clause("C03-a", "every tensor an operation touches (inputs, outputs, intermediates, subgraph outputs) is marked live at that operation's time step")
    rep.clause("C03-b", "live-range end is inclusive everywhere it is consumed")
    rep.clause("C03-c", "scheduler, live-range extraction and command generator agree on which double buffer holds the last depth slice (compared as functions over n in {1,2}, 2..8 slices)")
    rep.clause("C03-d", "pre-buffering extends a weight buffer's live range backwards; only the buffer that is not used last is shortened")
    rep.clause("C03-e", "rolling buffers: height = round_up(producer + consumer stripe, consumer stripe), width = max of both, fresh buffer map per cascade build")
    rep.clause("C03-f", "LUT residency is forgotten after any non-LUT stripe on parts without reserved banks; in-place reuse is forbidden for multi-consumer / subgraph-output tensors (decided before consumers are rewired)")
    rep.undecided("per-byte writer identity, rolling-buffer sufficiency for every stripe sequence, LUT slot reuse for concrete streams")
    lr = repo.mod("live_range")
    # ---------------------------------------------------------------- a
    f = lr.func("extract_live_ranges_from_schedule")
    loops = [l for l in ast.walk(f) if isinstance(l, ast.For) and norm(l.target) == "tens" and "ps." in norm(l.iter)]
    parts = set(norm(loops[0].iter).split(" + ")) if loops else set()
    rep.check(len(loops) == 1 and parts == {"ps.inputs", "ps.outputs", "ps.intermediates"}, "C03-a", f"{LR}:extract_live_ranges_from_schedule",
              "marking loop ranges over ps.inputs + ps.outputs + ps.intermediates", norm(loops[0].iter) if loops else "")
    if loops:
        mk = [c for c in calls_in(loops[0], "rng.mark_usage")]
        c = cfg_of(f)
        # every path through the loop body either `continue`s (tensor not in this area) or marks usage
        rep.check(len(mk) == 1 and norm(mk[0].args[0]) == "time_to_set", "C03-a", f"{LR}:extract_live_ranges_from_schedule", "each selected tensor is marked at the operation's time step", "")
        skip = [n for n in ast.walk(loops[0]) if isinstance(n, ast.If) and any(isinstance(s, ast.Continue) for s in n.body)]
        ok = len(skip) == 1
        if ok:
            cj = [norm(v) for v in skip[0].test.values] if isinstance(skip[0].test, ast.BoolOp) and isinstance(skip[0].test.op, ast.Or) else []
            ok = same_texts(cj, ["tens.purpose == TensorPurpose.Weights", "tens.purpose == TensorPurpose.FSBias", "tens.mem_type not in target_mem_type_set", "tens.mem_area != target_mem_area"])
        rep.check(ok, "C03-a", f"{LR}:extract_live_ranges_from_schedule", "a tensor is skipped only if it is a weight / bias stream or lives in another memory", norm(skip[0].test) if skip else "")
    outs = [l for l in f.body if isinstance(l, ast.For) and norm(l.iter) == "sg.output_tensors"]
    rep.check(len(outs) == 1 and calls_in(outs[0], "rng.mark_usage"), "C03-a", f"{LR}:extract_live_ranges_from_schedule", "subgraph outputs are marked live after the last operation", "")
    g = lr.func("extract_live_ranges_from_cascaded_passes")
    its = [norm(l.iter) for l in ast.walk(g) if isinstance(l, ast.For) and norm(l.target) == "tens"]
    rep.check("cps.inputs" in its and ("cps.intermediates + cps.outputs" in its or "cps.outputs + cps.intermediates" in its) and "sg.output_tensors" in its, "C03-a",
              f"{LR}:extract_live_ranges_from_cascaded_passes", "inputs, intermediates + outputs and subgraph outputs are all marked", str(its))
    c = cfg_of(g)
    li = [l for l in ast.walk(g) if isinstance(l, ast.For) and norm(l.iter) == "cps.inputs"]
    lo = [l for l in ast.walk(g) if isinstance(l, ast.For) and "cps.outputs" in norm(l.iter)]
    desc = calls_in(g, "extract_live_ranges_from_schedule")
    if li and lo and desc:
        rep.check(c.dominates(c.node_of(li[0]), c.node_of(desc[0])) and c.reaches(c.node_of(desc[0]), c.node_of(lo[0])), "C03-a", f"{LR}:extract_live_ranges_from_cascaded_passes",
                  "inputs are marked before descending into the NPU subgraph, outputs after", "")
    mu = lr.func("LiveRange.mark_usage")
    d = {norm(s.targets[0]): norm(s.value) for s in mu.body if isinstance(s, ast.Assign)}
    rep.check(d.get("self.start_time") == "min(self.start_time, op_time_start)" and d.get("self.end_time") == "max(self.end_time, op_time_end)" and d.get("op_time_end") == "op_time + op_length",
              "C03-a", f"{LR}:LiveRange.mark_usage", "marking only ever widens the range: [min(start), max(end)] with end = time + length", str(d))
    fr = lr.func("LiveRangeGraph.fuse_ranges")
    rep.floor("C03-a", 6)

    # ---------------------------------------------------------------- b
    closed_interval_sites(repo, rep, "C03-b")
    rep.floor("C03-b", 12)

    # ---------------------------------------------------------------- c
    sch = repo.mod("scheduler")
    hg = repo.mod("high_level_command_stream_generator")
    # live range: last_idx expression
    li = [s for s in ast.walk(f) if isinstance(s, ast.Assign) and norm(s.targets[0]) == "last_idx"]
    if len(li) != 1:
        raise AnalysisError("live_range last_idx not found")
    # generator: idx = depth_idx % len(...) over enumerate(ofm_depth_slices[:-1])
    gf = hg.func("generate_high_level_commands_for_sched_op")
    gi = [s for s in ast.walk(gf) if isinstance(s, ast.Assign) and norm(s.targets[0]) == "idx" and "buffered_weight_tensors" in norm(s.value)]
    en = [l for l in ast.walk(gf) if isinstance(l, ast.For) and norm(l.target) == "(depth_idx, start_channel)"]
    ok_en = len(en) == 1 and norm(en[0].iter) == "enumerate(ofm_depth_slices[:-1])"
    rep.check(ok_en, "C03-c", "ethosu/vela/high_level_command_stream_generator.py:generate_high_level_commands_for_sched_op", "depth slices are enumerated as ofm_depth_slices[:-1] (slice k uses buffer f(k))", norm(en[0].iter) if en else "")
    if len(gi) != 1:
        raise AnalysisError("generator buffer index not found")
    # scheduler: which buffer the last slice uses when sizing / pre-buffering
    sites = [("live_range", li[0].value, {"len(op_info.ofm_depth_slices)": None, "len(op_info.buffered_weight_tensors)": None})]
    bad = None
    n = 0
    # locals computed just before the index (`n = len(..) - 1; last_idx = n % len(..)`) are inlined before folding
    import copy as _copy

    def _inline(expr, fn_, before, depth=0):
        bases = {a_.value.id for a_ in ast.walk(expr) if isinstance(a_, ast.Attribute) and isinstance(a_.value, ast.Name)}

        class _S(ast.NodeTransformer):
            def visit_Name(self, node):
                if isinstance(node.ctx, ast.Load) and depth < 3 and node.id not in bases:
                    ds = [st_ for st_ in ast.walk(fn_) if isinstance(st_, ast.Assign) and len(st_.targets) == 1 and isinstance(st_.targets[0], ast.Name) and st_.targets[0].id == node.id and st_.lineno < before]
                    if len(ds) == 1:
                        return _inline(_copy.deepcopy(ds[0].value), fn_, ds[0].lineno, depth + 1)
                return node
        return ast.fix_missing_locations(_S().visit(_copy.deepcopy(expr)))

    li_expr = _inline(li[0].value, f, li[0].lineno)
    for nbuf in (1, 2):
        for L in range(2, 9):
            lr_last = eval_with(li_expr, {"len(op_info.ofm_depth_slices)": L, "len(op_info.buffered_weight_tensors)": nbuf})
            gen_last = eval_with(gi[0].value, {"depth_idx": L - 2, "len(op_info.buffered_weight_tensors)": nbuf})
            if lr_last is None or gen_last is None:
                raise AnalysisError("buffer parity expressions not foldable")
            n += 1
            if lr_last % nbuf != gen_last % nbuf and bad is None:
                bad = f"{L - 1} slices, {nbuf} buffers: generator puts the last slice in buffer {gen_last}, live ranges keep buffer {lr_last} alive"
    rep.check(bad is None, "C03-c", f"{LR}:extract_live_ranges_from_schedule", f"buffer of the last depth slice agrees between generator and live ranges ({n} cases)", bad or "")
    sp = [s for s in ast.walk(sch.tree) if isinstance(s, ast.Assign) and "% len(cost.buffered_weight_tensors)" in norm(s.value)]
    for s in sp:
        bad = None
        for L in range(2, 9):
            v = eval_with(s.value, {"len(cost.ofm_depth_slices)": L, "len(cost.buffered_weight_tensors)": 2})
            w = eval_with(li[0].value, {"len(op_info.ofm_depth_slices)": L, "len(op_info.buffered_weight_tensors)": 2})
            if v is None:
                bad = "not foldable"
                break
            if v != w:
                bad = f"{L - 1} slices: scheduler {v}, live range {w}"
        fn = sch.enclosing_function(s)
        rep.check(bad is None, "C03-c", f"ethosu/vela/scheduler.py:{sch.qualname_of(fn)}", f"scheduler's last-buffer index `{norm(s.value)}` agrees with the live-range extraction", bad or "")
    # buffer j of a double-buffered operator holds double_buffer_sizes[j]; the single buffer of the Standard case holds the largest
    # slice of all (the generator DMAs slice k into buffer k % n with the slice's real size) [rule shared with C02-f]
    from . import c02

    rep.run_borrowed(c02, {"C02-f": "C03-c"}, repo, only_sites=("propose_weight_buffering", "generate_high_level_commands_for_sched_op", "encode_weight_and_scale_tensor"))
    from . import c08 as _c08

    rep.run_borrowed(_c08, {"C08-e": "C03-c"}, repo, only_sites=("encode_weight_and_scale_tensor",))
    # scale stream region and Memcpy outputs kept linear [rules shared with C02-k]
    rep.run_borrowed(c02, {"C02-k": "C03-c"}, repo, only_sites=("create_weights", "_avoid_nhcwb16_for_memory_only", "remove_SplitSliceRead"))
    st_ = sch.func("Scheduler.propose_schedule_striping")
    bt = [c for c in calls_in(st_, "self.buffer_tensor")]
    en_ = [l for l in ast.walk(st_) if isinstance(l, ast.For) and "buffered_weight_tensors" in norm(l.iter) and call_name(l.iter) == "enumerate"]
    ok = len(bt) == 1 and len(en_) == 1 and isinstance(en_[0].target, ast.Tuple) and len(bt[0].args) >= 3 and norm(bt[0].args[2]) == f"weight_tensor.double_buffer_sizes[{norm(en_[0].target.elts[0])}]"
    rep.check(ok, "C03-c", "ethosu/vela/scheduler.py:Scheduler.propose_schedule_striping", "re-created buffer k is sized double_buffer_sizes[k]", norm(bt[0].args[2]) if bt and len(bt[0].args) >= 3 else "")
    rep.floor("C03-c", 5)

    # ---------------------------------------------------------------- d
    wl = [l for l in ast.walk(f) if isinstance(l, ast.For) and norm(l.iter) == "enumerate(op_info.buffered_weight_tensors)"]
    ok = len(wl) == 1
    if ok:
        pb = [n_ for n_ in ast.walk(wl[0]) if isinstance(n_, ast.If) and norm(n_.test) == "weight_tens.pre_buffer"]
        ok1 = len(pb) == 1 and {norm(s) for s in pb[0].body} == {"start_time -= 1", "length += 1"}
        rep.check(ok1, "C03-d", f"{LR}:extract_live_ranges_from_schedule", "pre_buffer: start one step earlier and one step longer (never shorter)", "")
        sh = [n_ for n_ in ast.walk(wl[0]) if isinstance(n_, ast.If) and "last_idx" in norm(n_.test)]
        ok2 = len(sh) == 1 and norm(sh[0].test) in ("last_idx != idx", "idx != last_idx") and [norm(s) for s in sh[0].body] == ["length -= 1"]
        rep.check(ok2, "C03-d", f"{LR}:extract_live_ranges_from_schedule", "only the buffer that is not used last is shortened", norm(sh[0].test) if sh else "")
        mu2 = calls_in(wl[0], "rng.mark_usage")
        rep.check(len(mu2) == 1 and [norm(a) for a in mu2[0].args] == ["start_time", "length"], "C03-d", f"{LR}:extract_live_ranges_from_schedule", "the buffer is marked for [start_time, start_time + length]", "")
        init = {norm(s.targets[0]): norm(s.value) for s in wl[0].body[0].body if isinstance(s, ast.Assign)} if isinstance(wl[0].body[0], ast.If) else {}
        rep.check(init.get("start_time") == "time_to_set" and init.get("length") == "1", "C03-d", f"{LR}:extract_live_ranges_from_schedule", "a weight buffer is live at least during its own operation", str(init))
    rep.floor("C03-d", 4)

    # ---------------------------------------------------------------- e
    cb = repo.mod("cascade_builder")
    rb = cb.func("rolling_buffer_shape")
    d = {norm(s.targets[0]): s.value for s in rb.body if isinstance(s, ast.Assign)}
    bh = d.get("buffer_height")
    ok = bh is not None and call_name(bh) == "round_up" and linear(bh.args[0]) == {"producer_stripe.height": 1, "consumer_stripe_input.height": 1} and norm(bh.args[1]) == "consumer_stripe_input.height"
    rep.check(ok, "C03-e", f"{CB}:rolling_buffer_shape", "height = round_up(producer stripe + consumer input stripe, consumer input stripe)", norm(bh) if bh is not None else "")
    bw = d.get("buffer_width")
    ok = bw is not None and call_name(bw) == "max" and {norm(a) for a in bw.args} == {"producer_stripe.width", "consumer_stripe_input.width"}
    rep.check(ok, "C03-e", f"{CB}:rolling_buffer_shape", "width = max(producer stripe width, consumer input width): the producer writes its full width", norm(bw) if bw is not None else "")
    rep.check(norm(rb.body[-1]) == "return Shape4D([1, buffer_height, buffer_width, round_up(producer_stripe.depth, 16)])", "C03-e", f"{CB}:rolling_buffer_shape",
              "depth rounded up to the 16-channel brick", norm(rb.body[-1]))
    # the buffer cache is per build_cascades call (the cached shape depends on that call's stripes)
    ctor = []
    for q, fn in cb.functions.items():
        for c_ in calls_in(fn, "BufferMap"):
            ctor.append((q, c_))
    rep.check(len(ctor) == 1 and ctor[0][0] == "CascadeBuilder.build_cascades", "C03-e", f"{CB}:CascadeBuilder.build_cascades",
              "a fresh BufferMap is created for every build_cascades() call", f"constructed in {[q for q, _ in ctor]}: buffer shapes of an earlier (smaller) stripe proposal are reused")
    bc = cb.func("CascadeBuilder.build_cascades")
    asg = [s for s in walk_no_nested(bc) if isinstance(s, ast.Assign) and norm(s.targets[0]) == "buffers"]
    rep.check(len(asg) == 1 and norm(asg[0].value) == "BufferMap()", "C03-e", f"{CB}:CascadeBuilder.build_cascades", "buffers = BufferMap() is local to the call", norm(asg[0].value) if asg else "")
    gb = cb.func("BufferMap.get_buffer")
    rep.check(len(calls_in(gb, "rolling_buffer_shape")) == 1, "C03-e", f"{CB}:BufferMap.get_buffer", "buffer shapes come from rolling_buffer_shape", "")
    # the live range of a rolling buffer is sized from that shape
    sb = [c_ for c_ in calls_in(f, "rng.set_buffer_size")]
    rep.check(len(sb) == 1 and norm(sb[0].args[0]) == "cascade_info.buffers[sched_op].elements() * sched_op.ifm.dtype.size_in_bytes()", "C03-e", f"{LR}:extract_live_ranges_from_schedule",
              "rolling-buffer live range size = buffer elements x element size", "")
    # a consumer stripe is emitted only after its *own producer* has written the rows it reads: the rows-present box grows
    # only on stripes of the producer's pass (the producer's generator also yields its own producers' stripes and DMAs)
    gfn = hg.func("generate_high_level_commands_for_sched_op")
    upd = [n_ for n_ in ast.walk(gfn) if isinstance(n_, ast.If) and any(isinstance(x, ast.Assign) and norm(x.targets[0]) == "ifm_present.end_coord" for x in n_.body)]
    site_g = "ethosu/vela/high_level_command_stream_generator.py:generate_high_level_commands_for_sched_op"
    if len(upd) != 1:
        raise AnalysisError("generator: update of ifm_present.end_coord not found")
    cj = {norm(x) for x in conjuncts(upd[0].test)}
    tgt = [l for l in ast.walk(gfn) if isinstance(l, ast.For) and upd[0] in l.body]
    v = norm(tgt[0].target) if tgt else "prev_cmd"
    idents = {f"{v}.ps == producer_op.parent_ps", f"producer_op.parent_ps == {v}.ps", f"{v}.ps is producer_op.parent_ps"}
    rep.check(bool(cj & idents), "C03-e", site_g, "rows count as present only when the yielded stripe belongs to the producer's own pass",
              f"guard is `{norm(upd[0].test)}`: a stripe of the producer's producer (or any other pass) extends the present box, and the consumer reads rolling-buffer rows not written yet")
    asg_ = [x for x in upd[0].body if isinstance(x, ast.Assign) and norm(x.targets[0]) == "ifm_present.end_coord"]
    rep.check(len(asg_) == 1 and norm(asg_[0].value) == f"{v}.ofm_box.end_coord", "C03-e", site_g, "the present box ends where the producer stripe's OFM box ends", norm(asg_[0].value) if asg_ else "")
    req = [n_ for n_ in ast.walk(gfn) if isinstance(n_, ast.If) and norm(n_.test) == "not ifm_required.is_subbox_of(ifm_present)"]
    rep.check(len(req) == 1 and any(isinstance(x, ast.For) for x in req[0].body), "C03-e", site_g, "producer stripes are pulled until the required IFM box is inside the present box", "")
    # rows a cascade consumer's IFM box claims (command generator: n * stride + top skirt + bottom skirt, before clipping) vs rows the
    # scheduler reserves for that stripe (get_ifm_area_required: (n - 1) * stride + kernel) - derived from the four source expressions
    from ..exprnorm import poly

    aa_ = repo.mod("architecture_allocator")
    rs_ = aa_.func("_required_size")
    ret_ = [r_ for r_ in ast.walk(rs_) if isinstance(r_, ast.Return)][0].value
    num = [x for x in ast.walk(ret_) if isinstance(x, ast.BinOp) and isinstance(x.op, (ast.Div, ast.FloorDiv))]
    if not num:
        raise AnalysisError("_required_size: quotient by upscale not found")
    area = poly(num[0].left)
    area = {k: v for k, v in area.items() if "nearest" not in k}  # nearest = 0 without upscaling
    # the border actually passed for the height by get_ifm_area_required (kernel extent, possibly plus a safety margin)
    gia = aa_.func("get_ifm_area_required")
    hc = [x.value for x in ast.walk(gia) if isinstance(x, ast.Assign) and str(norm(x.targets[0])) == "h1" and isinstance(x.value, ast.Call) and call_name(x.value) == "_required_size"]
    if len(hc) != 1 or len(hc[0].args) < 3:
        raise AnalysisError("get_ifm_area_required: height call of _required_size not recognised")
    rep.check(norm(hc[0].args[1]) == "kernel.stride.y", "C03-e", "ethosu/vela/architecture_allocator.py:get_ifm_area_required", "the rows needed for a stripe are computed with the vertical stride",
              f"stride argument is `{norm(hc[0].args[1])}`: for a consumer with stride.y > stride.x the rolling buffer gets too few rows")
    ren = {"kernel.area_height()": "filter_size", "kernel.stride.y": "stride"}
    border = {tuple(sorted(ren.get(a_, a_) for a_ in k_)): c_ for k_, c_ in poly(hc[0].args[2]).items()}
    area2 = {}
    for k_, c_ in area.items():
        if "border" in k_:
            rest = tuple(a_ for a_ in k_ if a_ != "border")
            for kb, cb in border.items():
                kk = tuple(sorted(rest + kb))
                area2[kk] = area2.get(kk, 0) + c_ * cb
        else:
            area2[k_] = area2.get(k_, 0) + c_
    area = {k_: c_ for k_, c_ in area2.items() if c_}
    hs_ = repo.mod("high_level_command_stream").func("Box.transform_with_strides_and_skirt")
    st_txt = [str(norm(x.value)) for x in ast.walk(hs_) if isinstance(x, ast.Assign) and str(norm(x.targets[0])) == "new_start_coord[-3]"]
    en_txt = [str(norm(x.value)) for x in ast.walk(hs_) if isinstance(x, ast.Assign) and str(norm(x.targets[0])) == "new_end_coord[-3]"]
    if not any(t.startswith("new_start_coord[-3] * stride - skirt[0]") for t in st_txt) or not any(t.startswith("new_end_coord[-3] * stride + skirt[2]") for t in en_txt):
        raise AnalysisError("transform_with_strides_and_skirt: row formulas not recognised")
    cps = repo.mod("tflite_graph_optimiser").func("calc_padding_and_skirt")
    tup = {str(norm(x.targets[0])): x.value for x in ast.walk(cps) if isinstance(x, ast.Assign) and len(x.targets) == 1 and isinstance(x.targets[0], ast.Name)}
    skv = tup.get("skirt")
    hops = 0
    while isinstance(skv, ast.Name) and skv.id in tup and hops < 4:
        skv, hops = tup[skv.id], hops + 1
    if not (isinstance(skv, ast.Tuple) and len(skv.elts) == 4):
        raise AnalysisError("calc_padding_and_skirt: skirt tuple not found")
    # locals assigned exactly once from an expression (bottom_skirt = ypad - top_pad) are read through
    once = {}
    for x in ast.walk(cps):
        if isinstance(x, ast.Assign) and len(x.targets) == 1 and isinstance(x.targets[0], ast.Name):
            once.setdefault(x.targets[0].id, []).append(x.value)
        elif isinstance(x, (ast.Assign, ast.AugAssign, ast.For)):
            for t_ in ast.walk(x.targets[0] if isinstance(x, ast.Assign) else x.target):
                if isinstance(t_, ast.Name):
                    once.setdefault(t_.id, []).extend([None, None])
    from ..astutil import substitute

    inl = {k_: v_[0] for k_, v_ in once.items() if len(v_) == 1 and v_[0] is not None and isinstance(v_[0], (ast.BinOp, ast.UnaryOp)) and k_ not in ("ypad", "xpad")}
    skv = ast.Tuple(elts=[substitute(e_, inl) for e_ in skv.elts], ctx=ast.Load())
    sk = [skv]
    pad_total = poly(ast.BinOp(left=sk[0].elts[0], op=ast.Add(), right=sk[0].elts[2]))
    pad_total_w = poly(ast.BinOp(left=sk[0].elts[1], op=ast.Add(), right=sk[0].elts[3]))
    rep.check(pad_total == {("ypad",): 1} and pad_total_w == {("xpad",): 1}, "C03-e", "ethosu/vela/tflite_graph_optimiser.py:calc_padding_and_skirt",
              "skirt top + bottom = ypad and left + right = xpad: the skirt is the full reach of the kernel past the stripe (it is what sizes the IFM box of an interior stripe), not the padding clipped to the feature map",
              f"skirt = {str(norm(skv))}: top + bottom = {pad_total}, left + right = {pad_total_w}; with explicit / VALID padding the bottom rows a stripe's kernel reads are not fetched")
    skirt_ok = pad_total == {("ypad",): 1}
    ntp = repo.mod("graph_optimiser_util").func("needed_total_padding")
    rets = sorted((r_ for r_ in ast.walk(ntp) if isinstance(r_, ast.Return)), key=lambda r_: r_.lineno)
    worst = None
    for r_ in (rets if skirt_ok else []):
        v = r_.value
        inner = v.args[0] if isinstance(v, ast.Call) and call_name(v) == "max" and len(v.args) == 2 else v
        yp = poly(inner)
        # box(n) - area(n) with value = n, border = filter_size
        diff = {("n", "stride"): 1}
        for k_, c_ in yp.items():
            diff[k_] = diff.get(k_, 0) + c_
        for k_, c_ in area.items():
            kk = tuple(sorted({"value": "n", "border": "filter_size"}.get(a_, a_) for a_ in k_))
            diff[kk] = diff.get(kk, 0) - c_
        diff = {k_: c_ for k_, c_ in diff.items() if c_}
        # input_size % stride lies in [0, stride - 1]: a difference of the form -(input_size % stride) - c (c >= 0) is never positive
        atoms = {a_ for k_ in diff for a_ in k_}
        if not atoms <= {"stride", "input_size % stride"}:
            raise AnalysisError(f"row difference depends on {sorted(atoms)}: not decidable over the stride / remainder domain")
        divisible = "%" not in str(norm(r_.value))  # the branch taken when input_size % stride == 0
        nonpos = True
        for S_ in (1, 2, 3, 4, 5, 8):
            for m_ in ([0] if divisible else range(1, S_)):
                val = sum(c_ * (S_ if "stride" in k_ else 1) ** k_.count("stride") * (m_ if "input_size % stride" in k_ else 1) for k_, c_ in diff.items())
                if val > 0:
                    nonpos = False
        if diff and not nonpos and worst is None:
            worst = (str(norm(r_.value)), diff)
    rep.check(worst is None, "C03-e", "ethosu/vela/architecture_allocator.py:get_ifm_area_required / high_level_command_stream.py:Box.transform_with_strides_and_skirt",
              "the IFM rows a consumer stripe waits for (n * stride + total vertical padding) never exceed the rows reserved for it in the rolling buffer ((n - 1) * stride + kernel)",
              (f"with total padding `{worst[0]}` the box is {' + '.join(('-' if c_ < 0 else '') + '*'.join(k_) for k_, c_ in sorted(worst[1].items()))} rows larger (1 .. stride - 1 rows when the IFM height is no multiple of the stride): "
               "the consumer waits until the producer has wrapped around and overwritten rows it has not read yet") if worst else "")
    rep.floor("C03-e", 10)

    # ---------------------------------------------------------------- f
    lut = repo.mod("lut").func("optimize_high_level_cmd_stream")
    rs = [n_ for n_ in ast.walk(lut) if isinstance(n_, ast.If) and any(norm(s) == "lut_state = LUTState()" for s in n_.body)]
    ok = len(rs) == 1
    if ok:
        cj = {norm(x) for x in conjuncts(rs[0].test)}
        allowed = {"isinstance(cmd, NpuStripe)", "cmd.ps.lut_tensor is None", "arch.shram_reserved_unused_banks == 0"}
        extra = cj - allowed
        ok = not extra and "isinstance(cmd, NpuStripe)" in cj
        rep.check(ok, "C03-f", "ethosu/vela/lut.py:optimize_high_level_cmd_stream", "LUT residency is reset by every non-LUT stripe on parts without reserved banks (no further exemption)",
                  f"additional exemption {sorted(extra)}: a stripe whose SHRAM layout covers the LUT banks no longer invalidates the resident table")
    else:
        rep.bad("C03-f", "ethosu/vela/lut.py:optimize_high_level_cmd_stream", "LUT state reset", "not found")
    en = repo.mod("extract_npu_subgraphs")
    for fn in ("rewrite_tensor_cpu_producer_npu_consumers", "rewrite_tensor_npu_producer_cpu_consumers"):
        g2 = en.func(fn)
        c2 = cfg_of(g2)
        prot = [n_ for n_ in c2.nodes[3:] if n_.kind == "test" and "len(orig_tens.consumers()) > 1" in norm(n_.expr)]
        loop = [n_ for n_ in c2.nodes[3:] if n_.kind == "iter" and norm(n_.expr) == "list(orig_tens.consumers())"]
        ok = len(prot) == 1 and len(loop) == 1 and c2.dominates(prot[0].id, loop[0].id) and not c2.reaches(loop[0].id, prot[0].id)
        rep.check(ok, "C03-f", f"ethosu/vela/extract_npu_subgraphs.py:{fn}", "write protection for multi-consumer inputs is decided before the consumers are moved to the clone",
                  "the consumer count is taken after rewiring: an input still read elsewhere can be overwritten in place")
        if fn == "rewrite_tensor_cpu_producer_npu_consumers" and prot:
            extra = [str(norm(x)) for x in conjuncts(prot[0].expr) if "len(orig_tens.consumers()) > 1" not in str(norm(x))]
            rep.check(not extra, "C03-f", f"ethosu/vela/extract_npu_subgraphs.py:{fn}", "every tensor with a consumer outside this NPU subgraph is write protected (the consumer count alone decides)",
                      f"protection is additionally restricted by {extra}: a CPU-produced tensor that feeds this NPU subgraph and a later consumer is overwritten in place by an elementwise result")
        outp = [n_ for n_ in c2.nodes[3:] if n_.kind == "test" and "orig_tens in" in norm(n_.expr) and "output_tensors" in norm(n_.expr)]
        rep.check(len(outp) == 1 and any(isinstance(s, ast.Assign) and norm(s) == "new_tens.ifm_write_protected = True" for s in outp[0].stmt.body), "C03-f",
                  f"ethosu/vela/extract_npu_subgraphs.py:{fn}", "subgraph outputs are write protected", "")
    # the table index an operator is given is computed in one unit: the path that loads a table and the path that re-uses a resident
    # equal table must agree (index = SHRAM offset // slot size)
    lu_ = repo.mod("lut")
    oh = lu_.func("optimize_high_level_cmd_stream")
    gi = lu_.func("get_lut_index")
    divs = []
    for fn_ in (oh, gi):
        for b_ in ast.walk(fn_):
            if isinstance(b_, ast.BinOp) and isinstance(b_.op, ast.FloorDiv) and ("lut_start" in str(norm(b_.left)) or "shram_lut_address" in str(norm(b_.left))):
                d_ = b_.right
                if isinstance(d_, ast.Name):
                    one = [s_.value for s_ in ast.walk(fn_) if isinstance(s_, ast.Assign) and str(norm(s_.targets[0])) == d_.id]
                    d_ = one[0] if len(one) == 1 else d_
                divs.append((fn_.name, str(norm(d_)).replace("lut_tensor.", "").replace("lut_tens.", "")))
    if len(divs) != 2:
        raise AnalysisError(f"LUT index computations: {len(divs)} found (2 expected)")
    rep.check(divs[0][1] == divs[1][1], "C03-f", "ethosu/vela/lut.py:optimize_high_level_cmd_stream / get_lut_index", "a loaded table and a re-used resident table get their index in the same unit",
              f"{divs[0][0]} divides the SHRAM offset by `{divs[0][1]}`, {divs[1][0]} by `{divs[1][1]}`: a 1 KiB table at offset 1024 is index 4 when it is loaded and index 1 when an equal table re-uses it without a DMA "
              "- the second operator reads SHRAM bytes that were never loaded (one of the two indices is wrong)")
    fu = lr.func("_get_ifm_to_fuse")
    # every way of choosing an input whose buffer the output takes over excludes write-protected inputs: the test(s) guarding
    # `ifm_tens = <tensor>` contain `not <tensor>.ifm_write_protected` (as a conjunct, or as a disjunct of a negated disjunction)
    n_fuse = 0
    for st in ast.walk(fu):
        if not (isinstance(st, ast.Assign) and str(norm(st.targets[0])) == "ifm_tens") or (isinstance(st.value, ast.Constant) and st.value.value is None):
            continue
        name = str(norm(st.value))
        cur, excluded = st, False
        while cur is not None and cur is not fu:
            par = lr.parents.get(cur)
            if isinstance(par, ast.If) and any(cur is b for b in par.body):
                t = par.test
                if isinstance(t, ast.UnaryOp) and isinstance(t.op, ast.Not):
                    inner = t.operand
                    parts = inner.values if isinstance(inner, ast.BoolOp) and isinstance(inner.op, ast.Or) else [inner]
                    excluded = excluded or any(str(norm(x)) == f"{name}.ifm_write_protected" for x in parts)
                else:
                    excluded = excluded or any(str(norm(x)) == f"not {name}.ifm_write_protected" for x in conjuncts(t))
            cur = par
        n_fuse += 1
        rep.check(excluded, "C03-f", f"{LR}:_get_ifm_to_fuse", f"`{name}` is chosen for reuse only if it is not write protected",
                  f"the branch that sets ifm_tens = {name} never looks at {name}.ifm_write_protected: the copy of a reshape is elided into a protected input (one that is still read "
                  "outside this NPU subgraph), and an in-place elementwise operator on the copy then overwrites that input (demonstrated: x -> RESHAPE -> ABS -> RESHAPE -> z2, FLOOR_DIV(x, z2) on the CPU: x and z2 share offset 0)")
    if n_fuse < 2:
        raise AnalysisError("_get_ifm_to_fuse: fewer than two reuse branches found")
    # graph rewrites that split an operator into several: a tensor cloned from the operator's *input* and then written by a
    # new operation must get its own identity (set_unique=True); otherwise it shares the input's equivalence id, hence its
    # address, and the new operation overwrites the input while later consumers still read it
    go = repo.mod("tflite_graph_optimiser")
    n_cl = 0
    for q, fn in go.functions.items():
        clones = {}
        srcs = {"ifm", "ifm2", "op.ifm", "op.ifm2"}
        # a local that selects one of the operands (`full_ifm = ifm if .. else ifm2`) is an operand
        for st in ast.walk(fn):
            if isinstance(st, ast.Assign) and len(st.targets) == 1 and isinstance(st.targets[0], ast.Name):
                v_ = st.value
                leaves = [v_.body, v_.orelse] if isinstance(v_, ast.IfExp) else [v_]
                if all(str(norm(l_)) in ("ifm", "ifm2", "op.ifm", "op.ifm2") for l_ in leaves):
                    srcs.add(st.targets[0].id)
        for st in ast.walk(fn):
            if isinstance(st, ast.Assign) and isinstance(st.value, ast.Call) and isinstance(st.value.func, ast.Attribute) and st.value.func.attr == "clone" and isinstance(st.targets[0], ast.Name) \
                    and norm(st.value.func.value) in srcs:
                clones[st.targets[0].id] = st.value
        for c in ast.walk(fn):
            if isinstance(c, ast.Call) and isinstance(c.func, ast.Attribute) and c.func.attr == "set_output_tensor" and c.args and isinstance(c.args[0], ast.Name) and c.args[0].id in clones:
                cl = clones[c.args[0].id]
                uniq = any(k.arg == "set_unique" and try_fold(k.value) is True for k in cl.keywords) or (len(cl.args) >= 2 and try_fold(cl.args[1]) is True)
                n_cl += 1
                rep.check(uniq, "C03-f", f"ethosu/vela/tflite_graph_optimiser.py:{q}", f"`{norm(cl)[:70]}` written by `{norm(c)[:50]}` has its own identity (set_unique=True)",
                          "the clone keeps the input's equivalence id and is allocated on the input's address: the new operation overwrites the input in place although it may have later consumers (e.g. a skip connection)")
    rep.check(n_cl >= 5, "C03-f", "ethosu/vela/tflite_graph_optimiser.py", "input clones written by decomposed operators found", str(n_cl))
    rep.floor("C03-f", 10)
    rep.clause("C03-g", "the IFM area a stripe needs (stripe_input, which sizes the rolling buffers) is computed from the stride / kernel extent of the same axis [rule shared with C15-e]; in-place reuse of an input buffer only for single-consumer inputs [rule shared with C12-d]")
    from . import c15

    rep.run_borrowed(c15, {'C15-e': 'C03-g'}, repo)
    from . import c12

    rep.run_borrowed(c12, {'C12-d': 'C03-g'}, repo)

    # ---------------------------------------------------------------- h: a PAD lowered to copies defines every byte of its OFM
    rep.clause("C03-i", "after a Reshape has been bypassed no later rewrite re-derives an operator's OFM shape from the re-shaped tensor (the operator would read IFM positions that its producer never wrote) [rule shared with C02-m]")
    c02.rule_shape_view(repo, rep, "C03-i")
    rule_copy_elision(repo, rep)
    rep.clause("C03-q", "an idle second core gets an empty weight / scale window from every weight operator (the registers persist: a stale window is decoded again) [interpretation shared with C02-o]")
    from .shared import idle_core_windows as _icw

    _icw(repo, rep, "C03-q")
    rep.clause("C03-r", "Operation.clone gives the clone containers of its own (tile base offsets: each interleaved writer keeps its offset) [rule shared with C08-p]; stripes of an upscaling operator in a cascade are even [rule shared with C10-e]")
    from .shared import clone_completeness as _cc3

    _cc3(repo, rep, "C03-r")
    from . import c10 as _c10

    rep.run_borrowed(_c10, {"C10-e": "C03-r"}, repo)
    rep.clause("C03-s", "rolling buffers are sized from the consumer's stripe input (role-named parameters receive the operand of that role) [rule shared with C10-g]; a zero-length usage keeps its one time step [C05-b]; a feature map that leaves its subgraph stays where the next subgraph looks for it: moved to fast storage only if no consumer entry is the subgraph-output marker [C12-e]")
    rep.run_borrowed(_c10, {"C10-g": "C03-s"}, repo, only_sites=("cascade_builder",))
    from . import c05 as _c05

    rep.run_borrowed(_c05, {"C05-b": "C03-s"}, repo, only_sites=("mark_usage",))
    rep.run_borrowed(c12, {"C12-e": "C03-s"}, repo, only_sites=("use_fast_storage_for_feature_maps",))
    rep.clause("C03-p", "equivalence id keys determine the bytes of the tensor: values together with the element type")
    rule_equivalence_keys(repo, rep)
    rep.clause("C03-m", "LUT residency extents are byte extents (address + storage_size())")
    rep.clause("C03-n", "the LUT is (re)loaded for every stripe of an operator: the DMA flag is reset inside the stripe loops")
    rep.clause("C03-o", "constant feature-map operands are copied into the flash image irrespective of their element count")
    rule_round7(repo, rep)
    rep.clause("C03-l", "one activation slot per NPU operation: the activation of a packed activation operator replaces the primary operator's only if that slot is free (guard at the overwrite or in can_pack)")
    rule_activation_slot(repo, rep)
    rep.clause("C03-k", "pass packing automaton (test_sequence explored from the empty state): one main operation per NPU pass; a DMA copy (Memcpy) is packed alone - no activation is fused behind a copy that cannot apply it")
    from .shared import pass_packing_automaton

    if pass_packing_automaton(repo, rep, "C03-k") < 3:
        raise AnalysisError("pass_packing.test_sequence: fewer than 3 rows set the main operation of an NPU pass")
    rep.clause("C03-h", "convert_pad: the copy of the IFM and the up to four border fills tile the padded OFM exactly, for every combination of pad widths (finite evaluation of the five (shape, write offset) pairs)")
    _rule_convert_pad(repo, rep)
    from . import c04, c08

    rep.run_borrowed(c04, {"C04-d": "C03-g"}, repo)
    rep.clause("C03-t", "memory an operation reads is ordered behind whoever defines it: every address-bearing operand (IFM2 included) enters the access set the waits are computed from, and the LUT special case of the block dependency protects the table of the *previous* operation [rules shared with C04-b, C04-e]")
    rep.run_borrowed(c04, {"C04-b": "C03-t", "C04-e": "C03-t"}, repo)
    rep.clause("C03-u", "a rolling buffer has the shape of the stripes that are scheduled through it: adopting an optimised sub-schedule replaces operator costs and cascade records together, the new entries taking precedence")
    rule_sub_schedule_merge(repo, rep)
    rep.clause("C03-v", "a PAD lowered to a concatenation writes the whole padded tensor: convert_pad_to_concat goes ahead only where the padding of every axis other than the concatenation axis is zero")
    rule_pad_to_concat_rows(repo, rep)
    rep.clause("C03-x", "an operator outside every cascade gets the fallback cost whose SRAM use is accounted next to it (cost / estimate pairs of build_cascades use one table)")
    rep.clause("C03-y", "the feature map of IFM2 is built from IFM2's own shape and tile offsets (operand index agreement inside create_feature_map calls)")
    rule_round11(repo, rep)
    rep.clause("C03-w", "producer and consumer address a brick-format tensor alike: the format is refused unless every operator's view equals the tensor shape [rule shared with C02-w]")
    from . import c02 as _c02w

    rep.run_borrowed(_c02w, {"C02-w": "C03-w"}, repo)
    rep.run_borrowed(c08, {"C08-f": "C03-g"}, repo)


def _rule_convert_pad(repo, rep):
    import itertools

    go = repo.mod("tflite_graph_optimiser")
    cp = go.func("convert_pad")
    site = "ethosu/vela/tflite_graph_optimiser.py:convert_pad"

    def ev(e, env):
        if isinstance(e, ast.Constant):
            return e.value
        if isinstance(e, ast.Name):
            if e.id in env:
                return env[e.id]
            raise AnalysisError(f"convert_pad: unbound name {e.id}")
        if isinstance(e, ast.BinOp) and isinstance(e.op, (ast.Add, ast.Sub, ast.Mult)):
            a, b = ev(e.left, env), ev(e.right, env)
            return a + b if isinstance(e.op, ast.Add) else a - b if isinstance(e.op, ast.Sub) else a * b
        if isinstance(e, ast.Attribute) and e.attr in ("height", "width", "depth", "batch"):
            v = ev(e.value, env)
            return v[("batch", "height", "width", "depth").index(e.attr)]
        if isinstance(e, ast.Call) and call_name(e) == "Shape4D" and len(e.args) == 4:
            return tuple(ev(a, env) for a in e.args)
        if isinstance(e, ast.Call) and isinstance(e.func, ast.Attribute) and e.func.attr in ("with_height", "with_width", "with_depth") and len(e.args) == 1:
            v = list(ev(e.func.value, env))
            v[{"with_height": 1, "with_width": 2, "with_depth": 3}[e.func.attr]] = ev(e.args[0], env)
            return tuple(v)
        raise AnalysisError(f"convert_pad: expression not evaluable: {norm(e)}")

    pieces = []
    top_assign = {norm(s_.targets[0]): s_.value for s_ in cp.body if isinstance(s_, ast.Assign) and len(s_.targets) == 1 and isinstance(s_.targets[0], ast.Name)}
    for node in ast.walk(cp):
        if isinstance(node, ast.Call) and call_name(node) == "create_avg_pool_for_concat" and len(node.args) >= 5:
            guard = None
            local = {}
            for par in ast.walk(cp):
                if isinstance(par, ast.If) and any(node is x for b in par.body for x in ast.walk(b)):
                    guard = par.test
                    local = {norm(s_.targets[0]): s_.value for s_ in par.body if isinstance(s_, ast.Assign) and len(s_.targets) == 1 and isinstance(s_.targets[0], ast.Name)}
            pieces.append((norm(node.args[1]), guard, node.args[3], node.args[4], local))
    if len(pieces) != 5:
        raise AnalysisError(f"convert_pad: expected 5 copy operations, found {len(pieces)}")
    bad = None
    n = 0
    for top, left, bottom, right, h, w in itertools.product((0, 1, 2), (0, 1, 3), (0, 1, 2), (0, 2), (1, 3), (1, 2)):
        env = {"top": top, "left": left, "bottom": bottom, "right": right, "ifm_shape": (1, h, w, 4), "ofm_shape": (1, top + h + bottom, left + w + right, 4)}
        for k_ in ("shp0", "shp_top"):
            if k_ in top_assign:
                env[k_] = ev(top_assign[k_], env)
        cover = {}
        for name, guard, shp_e, off_e, local in pieces:
            if guard is not None:
                gl, gr = ev(guard.left, env), ev(guard.comparators[0], env)
                if not (gl > gr if isinstance(guard.ops[0], ast.Gt) else gl != gr if isinstance(guard.ops[0], ast.NotEq) else gl >= gr):
                    continue
            e2 = dict(env)
            for k_, v_ in local.items():
                if k_ == "shape":
                    e2["shape"] = ev(v_, e2)
            shp = ev(shp_e, e2)
            off = ev(off_e, e2)
            for r in range(off[1], off[1] + shp[1]):
                for c in range(off[2], off[2] + shp[2]):
                    cover[(r, c)] = cover.get((r, c), 0) + 1
        n += 1
        H, W = top + h + bottom, left + w + right
        want = {(r, c) for r in range(H) for c in range(W)}
        if (set(cover) != want or any(v != 1 for v in cover.values())) and bad is None:
            missing = sorted(want - set(cover))[:3]
            extra = sorted(k_ for k_, v in cover.items() if v != 1 or k_ not in want)[:3]
            bad = f"pads (top {top}, left {left}, bottom {bottom}, right {right}) on a {h}x{w} IFM: rows/cols never written {missing}, written twice or outside {extra}"
    rep.check(bad is None, "C03-h", site, f"the IFM copy and the border fills tile the OFM exactly ({n} pad / shape combinations)", (bad or "") + ": the consumer of the padded tensor reads bytes no operation defined")



def rule_activation_slot(repo, rep):
    """(l) An NPU operation has one activation slot. The command generator gives the pass's primary operator the activation of every
    activation operator packed into the pass (`ps.primary_op.activation = create_activation_function(op.type ..)`), an overwrite.
    That is only right if the slot was free: a TANH already lowered to a table lookup, or a convolution with a fused RELU6, followed
    by a RELU would lose its own activation - the table is then neither applied nor kept (its SHRAM banks are handed to the IFM
    buffers while the LUT tracker still believes it resident: the next user of the same table reads clobbered banks). Either the
    overwrite is guarded by `activation is None`, or pass packing refuses to pack an activation operator behind a producer whose
    `activation` is set."""
    gen = repo.mod("high_level_command_stream_generator")
    pp = repo.mod("pass_packing")
    site = "ethosu/vela/pass_packing.py:pack_into_passes.can_pack"
    over = []
    for q, fn in gen.functions.items():
        for x in ast.walk(fn):
            if isinstance(x, ast.Assign) and any(str(norm(t)).endswith("primary_op.activation") for t in x.targets):
                over.append((q, fn, x))
    if not over:
        rep.ok("C03-l", "ethosu/vela/high_level_command_stream_generator.py", "no overwrite of the primary operator's activation", "nothing to guard")
        return
    for q, fn, x in over:
        parents = {}
        for n in ast.walk(fn):
            for ch in ast.iter_child_nodes(n):
                parents[ch] = n
        p_ = x
        guarded = False
        while p_ in parents:
            p_ = parents[p_]
            if isinstance(p_, ast.If) and "primary_op.activation is None" in str(norm(p_.test)) and x in list(ast.walk(p_))and not any(x in list(ast.walk(o)) for o in p_.orelse):
                guarded = True
        if guarded:
            rep.ok("C03-l", f"ethosu/vela/high_level_command_stream_generator.py:{q}", f"`{str(norm(x))[:70]}`", "only fills a free activation slot")
            continue
        # the packing side
        cp = None
        for q2, f2 in pp.functions.items():
            for n in ast.walk(f2):
                if isinstance(n, ast.FunctionDef) and n.name == "can_pack":
                    cp = n
        if cp is None:
            raise AnalysisError("pass_packing: can_pack not found")
        prod = {str(norm(a.targets[0])) for a in ast.walk(cp) if isinstance(a, ast.Assign) and len(a.targets) == 1 and str(norm(a.value)) == "inp.ops[0]"}
        if not prod:
            raise AnalysisError("pass_packing.can_pack: the producer (`inp.ops[0]`) is not named")
        found = None
        for n in ast.walk(cp):
            if isinstance(n, ast.If) and n.body and isinstance(n.body[0], ast.Return) and str(norm(n.body[0].value)) == "False":
                cj = [str(norm(c)) for c in conjuncts(n.test)]
                has_act = any(any(c in (f"{p}.activation is not None", f"{p}.activation") for p in prod) for c in cj)
                others = [c for c in cj if not any(c in (f"{p}.activation is not None", f"{p}.activation") for p in prod)]
                ok_others = all(("curr_op.type" in c and ("activation_ops" in c or "npu_post_ops" in c or "is_relu_op" in c)) for c in others)
                if has_act and ok_others:
                    found = n
        rep.check(found is not None, "C03-l", site, "an activation operator is not packed behind a producer whose activation slot is taken (the generator overwrites the slot)",
                  f"`{str(norm(x))[:80]}` in {q} overwrites the activation of the primary operator and can_pack has no `<producer>.activation is not None -> False` test: "
                  "TANH (table lookup) -> RELU loses the table (the next TANH with the same table reads clobbered SHRAM banks on ethos-u55-32); CONV_2D with fused RELU6 -> RELU is emitted with the clamp [0, inf)")
    rep.floor("C03-l", 1)


def rule_copy_elision(repo, rep):
    """(j) the copy that implements a memory-only operator is replaced by a NOP only if source and destination are the same bytes: the same
    offset *and* the same memory (offsets are relative to a region: in Dedicated_Sram a DRAM tensor and an SRAM tensor can both sit at 0).
    The test that selects the DMA is a disjunction that contains the address inequality and a memory-area (or region) inequality."""
    rep.clause("C03-j", "a feature-map copy is elided only for equal addresses in the same memory: the DMA is selected by `src_addr != dst_addr or <memory areas differ>`")
    hg = repo.mod("high_level_command_stream_generator")
    fn = hg.func("dma_feature_map_if_necessary")
    sel = [i for i in ast.walk(fn) if isinstance(i, ast.If) and any(isinstance(x, ast.Call) and call_name(x) == "DMA" for b in i.body for x in ast.walk(b))
           and any(isinstance(x, ast.Call) and call_name(x) == "NOP" for b in i.orelse for x in ast.walk(b))]
    if len(sel) != 1:
        raise AnalysisError("dma_feature_map_if_necessary: the DMA / NOP selection was not found")
    t = sel[0].test
    dis = [str(norm(v)) for v in (t.values if isinstance(t, ast.BoolOp) and isinstance(t.op, ast.Or) else [t])]
    has_addr = any(d in ("src_addr != dst_addr", "dst_addr != src_addr") for d in dis)
    has_area = any(("mem_area" in d or "region" in d) and "!=" in d for d in dis)
    rep.check(has_addr and has_area, "C03-j", "ethosu/vela/high_level_command_stream_generator.py:dma_feature_map_if_necessary", "DMA unless the addresses are equal and the memories are the same",
              f"selected by `{str(norm(t))}`: with equal offsets in different memories (Dedicated_Sram: both at 0) the copy becomes a NOP and the destination is never written")
    rep.floor("C03-j", 1)


def rule_round7(repo, rep):
    """(m) LUT residency is tracked on byte intervals of SHRAM: every extent in lut.LUTState is address + storage_size() (a table of 256
    uint32 entries occupies 1 KiB; counting entries evicts a quarter of what the DMA overwrites). (n) the LUT DMA flag is reset for every
    stripe of the operator (inside the stripe loops): on 16-bank parts the operators interleaved with a cascaded LUT operator use the LUT
    banks, the table has to be reloaded before each stripe. (o) a constant feature-map operand is copied into the flash image whatever
    its element count: only rank-0 constants travel in the command stream, a [1]- or [1,1,1,1]-shaped constant is still read from region 0."""
    lu = repo.mod("lut")
    n = 0
    for q in ("LUTState.put", "LUTState.find_best_address"):
        f = lu.func(q)
        for a in ast.walk(f):
            if isinstance(a, ast.Assign) and len(a.targets) == 1 and isinstance(a.targets[0], ast.Name) and a.targets[0].id.startswith("end"):
                n += 1
                v = a.value
                ok = isinstance(v, ast.BinOp) and isinstance(v.op, ast.Add) and any(isinstance(x, ast.Call) and isinstance(x.func, ast.Attribute) and x.func.attr == "storage_size" for x in (v.left, v.right))
                rep.check(ok, "C03-m", f"ethosu/vela/lut.py:{q}", f"`{str(norm(a))}`: extent in bytes (address + storage_size())",
                          "the extent is not the tensor's byte size: a 1 KiB / 2 KiB table (uint32 entries) evicts only the first quarter of the SHRAM range its DMA overwrites; a 256-byte table further inside stays "
                          "'resident' and the next operator with an equal table reuses the clobbered slot")
    if n < 3:
        raise AnalysisError(f"lut.LUTState: {n} extents found")
    hg = repo.mod("high_level_command_stream_generator")
    f = hg.func("generate_high_level_commands_for_sched_op")
    site = "ethosu/vela/high_level_command_stream_generator.py:generate_high_level_commands_for_sched_op"
    resets = [a for a in ast.walk(f) if isinstance(a, ast.Assign) and len(a.targets) == 1 and str(norm(a.targets[0])) == "lut_dma_done" and str(norm(a.value)) == "False"]
    if not resets:
        raise AnalysisError("generate_high_level_commands_for_sched_op: lut_dma_done reset not found")
    for a in resets:
        loops = []
        cur = hg.parents.get(a)
        while cur is not None and cur is not f:
            if isinstance(cur, ast.For):
                loops.append(str(norm(cur.target)))
            cur = hg.parents.get(cur)
        rep.check(any("start_height" in l for l in loops), "C03-n", site, "lut_dma_done is reset inside the stripe loops (the table is loaded before every stripe)",
                  f"reset outside the stripe loops (enclosing loops: {loops}): the LUT is loaded before the first stripe only; in a cascade on ethos-u55-32 / -64 the interleaved operators use the LUT banks as accumulators "
                  "and later stripes look up in clobbered SHRAM")
    ns = repo.mod("npu_serialisation")
    g = ns.func("serialise_npu_subgraph_into_tensors")
    site = "ethosu/vela/npu_serialisation.py:serialise_npu_subgraph_into_tensors"
    k = 0
    for i in ast.walk(g):
        if isinstance(i, ast.If) and any(isinstance(c, ast.Call) and call_name(c) == "copy_ifm_values_to_memory_tensor" for st in i.body for c in ast.walk(st)):
            k += 1
            extra = [str(norm(c)) for c in conjuncts(i.test) if any(w in str(norm(c)) for w in ("elements(", "shape", "size", "len(", "values", "ndim"))]
            rep.check(not extra, "C03-o", site, f"`{str(norm(i.test))[:70]}`: constant operands are copied into the flash image whatever their size",
                      f"conjunct {extra}: a one-element constant of rank >= 1 is still emitted as a broadcast IFM2 in region 0 but its value is never written there: the NPU reads the zero fill")
    if k < 2:
        raise AnalysisError(f"serialise_npu_subgraph_into_tensors: {k} guarded copies of constant operands")


def rule_equivalence_keys(repo, rep):
    """(p) tensors with equal equivalence ids share one live range and one address (the range keeps the size of the tensor that created
    it). The id is memoised per key (tensor.create_equivalence_id), so the key has to determine the tensor's *bytes*: equal values of another
    element type are another byte string (256 int8 zeros are 256 bytes, 256 int16 zeros 512). Every key is a tuple that contains the
    element type next to the values."""
    n = 0
    for m in repo.core_modules():
        for q, fn in m.functions.items():
            for c in ast.walk(fn):
                if isinstance(c, ast.Call) and call_name(c) in ("create_equivalence_id", "tensor.create_equivalence_id") and len(c.args) == 1:
                    # weights and biases reach memory only through the encoder (their sharing is the compression cache's matter, C08-g):
                    # the rule concerns constants that are placed as they are (feature-map constants, lookup tables)
                    par = m.parents.get(c)
                    tgt = str(norm(par.targets[0].value)) if isinstance(par, ast.Assign) and isinstance(par.targets[0], ast.Attribute) else None
                    made = [a for a in ast.walk(fn) if isinstance(a, ast.Assign) and len(a.targets) == 1 and str(norm(a.targets[0])) == tgt and isinstance(a.value, ast.Call) and call_name(a.value) == "create_const_tensor"]
                    if tgt is None or (tgt in ("bias", "weight_tensor", "weights") or any("TensorPurpose.Weights" in str(norm(a.value)) for a in made)):
                        continue
                    n += 1
                    k = c.args[0]
                    has_type = isinstance(k, ast.Tuple) and any("dtype" in str(norm(e)) or "data_type" in str(norm(e)) for e in k.elts)
                    rep.check(has_type, "C03-p", f"ethosu/vela/{m.name}.py:{q}", f"`{str(norm(c))[:80]}`: the key contains the element type",
                              "the key is the value tuple alone: np.int8(0) and np.int16(0) hash and compare equal, so the border zeros of an int8 PAD and of an int16 PAD with the same count share one live range "
                              "of the smaller size; the 512-byte int16 zeros are written over a convolution's encoded weights (87 of 1344 weight bytes differ)")
    if n < 5:
        raise AnalysisError(f"create_equivalence_id: {n} call sites for constants placed as they are")


def rule_sub_schedule_merge(repo, rep):
    """(u) when optimize_schedule adopts an optimised sub-schedule it takes over the operator costs (stripes) *and* the cascade records
    (rolling-buffer shapes) that were built for those stripes. Both merges must give the sub-schedule's entries precedence over the old ones:
    `old.update(new)` or `{**old, **new}`. A merge in which the old CascadeInfo survives pairs enlarged stripes with the rolling buffers of
    the MIN schedule - a producer overwrites rows its consumer has not read yet."""
    sm = repo.mod("scheduler")
    fn = sm.func("Scheduler.optimize_schedule")
    site = "ethosu/vela/scheduler.py:Scheduler.optimize_schedule"
    blocks = [i for i in ast.walk(fn) if isinstance(i, ast.If) and str(norm(i.test)) in ("opt_sub_schedule", "opt_sub_schedule is not None")]
    if len(blocks) != 1:
        raise AnalysisError(f"optimize_schedule: {len(blocks)} adoption blocks found")
    seen = {}
    for st in blocks[0].body:
        for member in ("cost_map", "cascades"):
            tgt = f"schedule.{member}"
            new = f"opt_sub_schedule.{member}"
            if isinstance(st, ast.Expr) and isinstance(st.value, ast.Call) and str(norm(st.value.func)) == f"{tgt}.update":
                seen[member] = (str(norm(st.value.args[0])) == new, str(norm(st)))
            elif isinstance(st, ast.Assign) and str(norm(st.targets[0])) == tgt:
                v = st.value
                ok = False
                if isinstance(v, ast.Dict) and all(k is None for k in v.keys):
                    order = [str(norm(x)) for x in v.values]
                    ok = tgt in order and new in order and order.index(tgt) < order.index(new)
                elif isinstance(v, ast.BinOp) and isinstance(v.op, ast.BitOr):
                    ok = str(norm(v.left)) == tgt and str(norm(v.right)) == new
                seen[member] = (ok, str(norm(st)))
    for member in ("cost_map", "cascades"):
        if member not in seen:
            rep.bad("C03-u", site, f"`schedule.{member}` takes over the optimised sub-schedule's entries", "no merge found in the adoption block")
        else:
            rep.check(seen[member][0], "C03-u", site, f"`{seen[member][1][:90]}`: the optimised sub-schedule's entries take precedence",
                      "the existing entries win: the cascade keeps the rolling-buffer shapes of the schedule it replaces while the cost map gets the enlarged stripes (rolling buffer of 6 rows for 5-row stripes that need 14)")


def rule_pad_to_concat_rows(repo, rep):
    """(v) convert_pad_to_concat rewrites a PAD that pads the last (or first) axis into a concatenation along that axis whose border tensors
    take every other extent from the *input* (`shape = inp.shape.copy(); shape[axis] = ..`). The concatenation therefore writes an output
    whose other extents equal the input's: the rewrite may go ahead only where the function has established that the padding of every
    other axis is zero (a returning test over the other rows of the paddings tensor). Otherwise the rows / columns the PAD was to add are
    never written and the consumers read undefined bytes."""
    go = repo.mod("tflite_graph_optimiser")
    fn = go.func("convert_pad_to_concat")
    site = "ethosu/vela/tflite_graph_optimiser.py:convert_pad_to_concat"
    retype = [st for st in ast.walk(fn) if isinstance(st, ast.Assign) and str(norm(st)) == "op.type = Op.ConcatTFLite"]
    borders = [st for st in ast.walk(fn) if isinstance(st, ast.Assign) and isinstance(st.targets[0], ast.Name) and (str(norm(st.value)).endswith(".shape.copy()") or re.match(r"^list\(\w+(\.\w+)*\.shape\)$", str(norm(st.value))))]
    if len(retype) != 1 or not borders:
        raise AnalysisError("convert_pad_to_concat: re-typing / border shapes not found")
    # a test that looks at the rows other than `axis`: any early return (or enclosing condition) whose test reduces the paddings over a
    # row set excluding the chosen one - recognised forms: np.delete(<vals>, axis, ..), a comprehension with `i != axis`, np.count_nonzero
    # over a masked copy, or separate sums over every row index
    guards = []
    for i_ in ast.walk(fn):
        if isinstance(i_, ast.If) and i_.lineno < retype[0].lineno and i_.body and isinstance(i_.body[-1], ast.Return):
            t = str(norm(i_.test))
            if "np.delete(" in t or "!= axis" in t or "count_nonzero" in t or ("any(" in t and "axis" in t):
                guards.append(t)
    for st in ast.walk(fn):
        if isinstance(st, ast.Assign) and isinstance(st.targets[0], ast.Name) and ("np.delete(" in str(norm(st.value)) or "!= axis" in str(norm(st.value))):
            nm = st.targets[0].id
            for i_ in ast.walk(fn):
                if isinstance(i_, ast.If) and nm in str(norm(i_.test)) and i_.body and isinstance(i_.body[-1], ast.Return) and i_.lineno < retype[0].lineno:
                    guards.append(str(norm(i_.test)))
    rep.check(bool(guards), "C03-v", site, "the PAD is turned into a concatenation only where the padding of every other axis is zero",
              "no returning test over the other rows of the paddings tensor precedes `op.type = Op.ConcatTFLite`: a PAD of depth *and* height / width ([[0,0],[1,1],[1,1],[4,4]]) becomes a depth concatenation "
              "of input-sized pieces - 864 bytes of the [1,10,10,24] result are never written and are read by the next operator")


def rule_round11(repo, rep):
    """(x) CascadeBuilder.build_cascades gives an operator that ends up outside every cascade the cost of the *fallback* schedule - whole
    feature maps, one H stripe, weights buffered for that - and accounts the SRAM use of that same cost: in each block `cost[v] = T[v]` is
    followed by `_estimate_sram_usage(v, U[v])` with T == U. Taking the striped reference cost for an operator without a cascade runs it in
    several stripes whose weight slices are only moved in by the first.
    (y) create_feature_map receives, for the operand it is called for, that operand's shape and tile offsets: when the tensor argument is
    `cmd.ifm2_tensor` every `ifm_shapes[k]` / `tile_base_offsets_ifm[k]` argument has k = 1, for `cmd.ifm_tensor` k = 0."""
    cb = repo.mod("cascade_builder")
    fn = cb.func("CascadeBuilder.build_cascades")
    site = "ethosu/vela/cascade_builder.py:CascadeBuilder.build_cascades"
    n = 0
    for blk_owner in ast.walk(fn):
        for fld in ("body", "orelse"):
            blk = getattr(blk_owner, fld, None)
            if not isinstance(blk, list):
                continue
            for i, st in enumerate(blk):
                if not (isinstance(st, ast.Assign) and isinstance(st.targets[0], ast.Subscript) and str(norm(st.targets[0].value)) == "cost" and isinstance(st.value, ast.Subscript)
                        and str(norm(st.value.slice)) == str(norm(st.targets[0].slice))):
                    continue
                v, table = str(norm(st.targets[0].slice)), str(norm(st.value.value))
                ests = [c for s2 in blk[i + 1:] for c in ast.walk(s2) if isinstance(c, ast.Call) and str(norm(c.func)) == "self._estimate_sram_usage" and len(c.args) == 2 and str(norm(c.args[0])) == v]
                for c in ests:
                    n += 1
                    used = str(norm(c.args[1].value)) if isinstance(c.args[1], ast.Subscript) else str(norm(c.args[1]))
                    rep.check(used == table, "C03-x", site, f"`cost[{v}] = {table}[{v}]` and the SRAM estimate that follows use the same cost table",
                              f"the estimate uses `{used}[{v}]`: the operator is given the striped reference cost without being in a cascade - its depth-sliced weights are moved in for the first H stripe only and later stripes read "
                              "another slice from the buffer")
    if n < 2:
        raise AnalysisError(f"build_cascades: {n} cost / estimate pairs found")
    hm = repo.mod("high_level_command_to_npu_op")
    m_ = 0
    for q, f in hm.functions.items():
        for c in ast.walk(f):
            if not (isinstance(c, ast.Call) and (call_name(c) or "") == "create_feature_map" and c.args):
                continue
            a0 = str(norm(c.args[0]))
            want = 1 if a0.endswith("ifm2_tensor") else (0 if a0.endswith("ifm_tensor") else None)
            if want is None:
                continue
            idx = [(str(norm(x.value)), x.slice.value) for a in list(c.args[1:]) + [k.value for k in c.keywords] for x in ast.walk(a)
                   if isinstance(x, ast.Subscript) and isinstance(x.slice, ast.Constant) and isinstance(x.slice.value, int) and re.search(r"(ifm_shapes|tile_base_offsets_ifm|read_offsets|read_shapes)$", str(norm(x.value)))]
            if not idx:
                continue
            m_ += 1
            wrong = [f"{nm}[{k}]" for nm, k in idx if k != want]
            rep.check(not wrong, "C03-y", f"ethosu/vela/high_level_command_to_npu_op.py:{q}", f"create_feature_map({a0}, ..) takes shape and tile offsets of operand {want}",
                      f"{wrong}: the second operand is addressed with the first operand's shape - a broadcast IFM2 ([1,8,12,1]) is read with the strides of [1,8,12,16], far outside its own tensor")
    if m_ < 2:
        raise AnalysisError(f"create_feature_map calls with operand-indexed arguments: {m_} found")

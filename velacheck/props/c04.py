"""C04 Conflicting NPU/DMA accesses are separated by a wait or block dependency.

Decides the structural clauses: hazard kinds, access-set coverage, memo
typestate, queue discipline (symbolic path enumeration of get_wait_dependency
over every queue configuration), emission order, geometry roles and
comparison polarity. Sufficiency of BLOCKDEP under the hardware timing model
is not decided."""
import ast
import itertools
import re

from ..absint import AList, AObj, Interp, Unknown
from ..astutil import try_fold, calls_in, call_name, get_kwarg, norm, single_assignments, substitute
from ..exprnorm import linear
from ..cfg import cfg_of
from ..core import AnalysisError
from ..roles import RoleChecker
from ..tables import subclasses

UTIL = "register_command_stream_util"
UFILE = "ethosu/vela/register_command_stream_util.py"
GFILE = "ethosu/vela/register_command_stream_generator.py"
RFILE = "ethosu/vela/range_set.py"


def run(repo, rep):
    rep.clause("C04-a", "MemoryAccessSet.conflicts reports RAW, WAR and WAW (and only those); RangeSet keeps the sorted order its sweep relies on")
    rep.clause("C04-b", "every address-bearing field of the API operation classes enters the access set with the right direction; LUT/SHRAM ranges present")
    rep.clause("C04-l", "the kernel seen by the block dependency calculation is the kernel that is programmed: to_kernel forwards width, height, strides and dilations")
    rep.clause("C04-m", "the address ranges of an area cover every row: get_h_ranges yields one range per row y0..y1 (interpreted with a recording stub for get_address_range)")
    rule_h_ranges(repo, rep)
    rep.clause("C04-n", "the queue depths the wait model is sized with are the hardware's: two kernels in flight on every accelerator, two DMAs on Ethos-U65 and one on Ethos-U55 (single writer, literals)")
    rule_queue_depths(repo, rep)
    rep.clause("C04-o", "the SHRAM banks a kernel is modelled to own exclude the LUT banks only for a LUT-using kernel on a part without reserved banks (available_shram_banks interpreted on a 12-point grid)")
    rule_available_banks(repo, rep)
    rule_kernel_forwarding(repo, rep)
    rep.clause("C04-k", "block dependency: the operator kinds that consume the whole IFM depth agree between the stripe transform and get_ifm_ofm_block_depth (Conv2D and REDUCE_SUM)")
    rule_depth_consuming_kinds(repo, rep)
    rep.clause("C04-j", "the emitted BLOCKDEP always derives from calc_blockdep for the operation and its predecessor kernel (no shortcut under a side condition)")
    rule_blockdep_source(repo, rep)
    rep.clause("C04-h", "the SHRAM extents that hazards are tracked on are the hardware's: which banks are reserved for the LUT decides whether a LUT DMA conflicts with a kernel's accumulators [rule shared with C15-c]")
    from . import c15 as _c15

    rep.run_borrowed(_c15, {"C15-c": "C04-h"}, repo, only_sites=("ArchitectureFeatures.__init__",))
    rep.clause("C04-c", "access sets are immutable once published (add() only inside the two constructors; conflicts() is memoised)")
    rep.clause("C04-d", "get_wait_dependency: for every queue configuration and conflict pattern, own-queue bound, scanned queue, wait kind/count and retirement match the hardware queue model")
    rep.clause("C04-e", "waits and BLOCKDEP are computed for every operation and emitted before its NPU_OP")
    rep.clause("C04-f", "block-dependency geometry is axis-consistent (role homogeneity)")
    rep.clause("C04-f'", "overlap predicates are at least as conservative as half-open interval overlap")
    rep.undecided("sufficiency of the chosen BLOCKDEP / wait counts under the hardware overlap model; exact byte overlap of tiled strided footprints")
    from .shared import none_skip_lint, operand_stem_lint

    if operand_stem_lint(repo, rep, "C04-f", ["register_command_stream_util", "register_command_stream_generator", "high_level_command_to_npu_op"]) < 8:
        raise AnalysisError("operand-named call arguments not found")
    # the SHRAM / LUT guard of calc_blockdep decides before any return that allows overlap
    from ..cfg import cfg_of as _cfg

    cbf = repo.mod(UTIL).func("calc_blockdep")
    cg_ = _cfg(cbf)
    gtests = cg_.nodes_where(lambda n_: n_.kind == "test" and "prev_uses_lut" in str(norm(n_.expr)))
    rets = [n_ for n_ in cg_.nodes[3:] if n_.stmt is not None and isinstance(n_.stmt, ast.Return) and not (isinstance(n_.stmt.value, ast.Constant) and n_.stmt.value.value == 0)]
    if len(gtests) != 1 or not rets:
        raise AnalysisError("calc_blockdep: LUT guard / returns not recognised")
    for r_ in rets:
        rep.check(cg_.dominates(gtests[0], r_.id), "C04-e", f"{UFILE}:calc_blockdep", f"`{str(norm(r_.stmt))[:50]}` (overlap allowed) is only reached after the SHRAM / LUT guard",
                  "a return that allows overlap precedes the guard: after a LUT kernel on a 16-bank part the next kernel may start writing the LUT banks while they are still read")

    none_skip_lint(repo, rep, "C04-f'", ['register_command_stream_util', 'register_command_stream_generator', 'range_set'])
    rep.assume("Python asserts are enabled")
    rule_conflicts(repo, rep)
    rule_access_sets(repo, rep)
    rule_wait_dependency(repo, rep)
    rule_emission_order(repo, rep)
    rule_roles(repo, rep)
    rule_polarity(repo, rep)
    rep.clause("C04-c'", "the functions that build access sets are not memoised and no process-wide store keeps them across streams (an operation object retargeted between two streams gets a fresh access set) [rule shared with C14-a]")
    from . import c14

    rep.run_borrowed(c14, {'C14-a': "C04-c'"}, repo)
    from . import c15

    rep.run_borrowed(c15, {"C15-e": "C04-f"}, repo, only_sites=("architecture_features", "register_command_stream_util"))
    rule_round5(repo, rep)


# ------------------------------------------------------------------ a


def rule_conflicts(repo, rep):
    rs = repo.mod("range_set")
    it = Interp(repo, rs)
    site = f"{RFILE}:MemoryAccessSet.conflicts"
    f = rs.func("MemoryAccessSet.conflicts")
    deco = [norm(d) for d in f.decorator_list]
    ad = {k: v for k, v in _int_enum(rs, "AccessDirection").items()}
    if ad.get("Read") is None or ad.get("Write") is None:
        raise AnalysisError("AccessDirection.Read/Write not found")

    def mk():
        a = AObj("self", {"accesses": AList([None, None])})
        b = AObj("other", {"accesses": AList([None, None])})
        for o, n in ((a, "a"), (b, "b")):
            o.fields["accesses"].items[ad["Read"]] = AObj(n + "R")
            o.fields["accesses"].items[ad["Write"]] = AObj(n + "W")
        return [a, b], {}

    hazards = {("aW", "bR"): "RAW", ("aR", "bW"): "WAR", ("aW", "bW"): "WAW"}
    npaths = 0
    for p in it.run("MemoryAccessSet.conflicts", mk):
        npaths += 1
        asked = {}
        for t, d in p.decisions:
            m = re.fullmatch(r"(\w+)\.intersects\((\w+)\)", t)
            if not m:
                raise AnalysisError(f"unrecognised decision in conflicts(): {t}")
            asked[(m.group(1), m.group(2))] = d
        if p.kind != "return":
            rep.bad("C04-a", site, "conflicts() raises", str(p.decisions))
            continue
        any_hazard = any(d for k, d in asked.items() if k in hazards)
        if p.value is True:
            rep.check(any_hazard, "C04-a", site, f"True only for a hazard ({asked})", "reports a conflict without RAW/WAR/WAW overlap")
        else:
            missing = [hazards[k] for k in hazards if k not in asked]
            rep.check(p.value is False and not any_hazard and not missing, "C04-a", site, "False only after RAW, WAR and WAW were all tested and absent",
                      f"untested hazards {missing}, decisions {asked}")
    rep.check(npaths >= 4, "C04-a", site, "paths enumerated", f"{npaths}")
    # sortedness invariant of RangeSet.ranges (intersects is a two-pointer sweep over ascending starts)
    for q in ("RangeSet.__or__", "RangeSet.__ior__"):
        fn = rs.func(q)
        vals = []
        for n in ast.walk(fn):
            if isinstance(n, ast.Assign) and norm(n.targets[0]) in ("combined_ranges", "self.ranges"):
                vals.append(n.value)
        ok = bool(vals) and all(_is_sorted_concat(v) for v in vals)
        rep.check(ok, "C04-a", f"{RFILE}:{q}", "merged range list is sorted(self.ranges + other.ranges)", "; ".join(norm(v) for v in vals))
    # RangeSet.intersects touches range endpoints only through comparisons, so its verdict depends only on the
    # order type of the endpoints: interpret it on every pair of start-sorted lists over a small ordered domain
    # and require that no overlapping pair is answered False (True without overlap is merely conservative)
    k, nmax = (6, 2) if rep.tier == "quick" else (6, 3)
    rngs = [(s_, e_) for s_ in range(k) for e_ in range(s_ + 1, k)]
    lists = [[]]
    for n_ in range(1, nmax + 1):
        lists += [sorted(c) for c in itertools.combinations_with_replacement(rngs, n_)]
    site_i = f"{RFILE}:RangeSet.intersects"
    missed, npairs = None, 0
    for a in lists:
        for b in lists:
            want = any(max(x[0], y[0]) < min(x[1], y[1]) for x in a for y in b)
            if not want:
                continue
            npairs += 1
            ps = list(it.run("RangeSet.intersects", lambda: ([AObj("self", {"ranges": AList(list(a))}), AObj("other", {"ranges": AList(list(b))})], {})))
            if len(ps) != 1:
                raise AnalysisError(f"RangeSet.intersects not decided by endpoint order alone on {a} / {b}: {[q.decisions for q in ps]}")
            if ps[0].kind == "return" and ps[0].value is False and missed is None:
                missed = (a, b)
    rep.check(missed is None, "C04-a", site_i, f"no overlapping pair of start-sorted range lists (<= {nmax} ranges each, every endpoint order type) is answered False",
              f"{npairs} overlapping pairs interpreted; self.ranges={missed[0]} other.ranges={missed[1]} overlap but intersects() returns False" if missed else f"{npairs} pairs")
    # other writers of .ranges
    for m in repo.core_modules():
        if "RangeSet" not in m.src:
            continue  # `.ranges` of other classes (e.g. LiveRangeGraph.ranges) is unrelated
        for n in ast.walk(m.tree):
            if isinstance(n, (ast.Assign, ast.AugAssign)):
                for t in (n.targets if isinstance(n, ast.Assign) else [n.target]):
                    if isinstance(t, ast.Attribute) and t.attr == "ranges" and not (m.name == "range_set"):
                        rep.bad("C04-a", f"ethosu/vela/{m.name}.py", f"foreign write to .ranges: {norm(n)}", "RangeSet order invariant can be broken")
            if isinstance(n, ast.Call) and call_name(n) == "RangeSet" and any(k.arg == "ranges" for k in n.keywords) and m.name != "range_set":
                rep.bad("C04-a", f"ethosu/vela/{m.name}.py", f"RangeSet(ranges=...) outside range_set: {norm(n)}", "unsorted list may enter")
    init = rs.func("RangeSet.__init__")
    app = calls_in(init, ".append")
    rep.check(len(app) == 1 and norm(app[0]) == "self.ranges.append((start, end))", "C04-a", f"{RFILE}:RangeSet.__init__", "constructor adds at most the single (start, end)", "changed")
    # MemoryRangeSet.intersects: all common regions
    f = rs.func("MemoryRangeSet.intersects")
    loops = [n for n in ast.walk(f) if isinstance(n, ast.For)]
    ok = len(loops) == 1 and norm(loops[0].iter) in ("self.regions.keys() & other.regions.keys()", "other.regions.keys() & self.regions.keys()")
    rep.check(ok, "C04-a", f"{RFILE}:MemoryRangeSet.intersects", "iterates every region common to both sets", norm(loops[0].iter) if loops else "no loop")
    # MemoryRangeSet union keeps both sides' regions
    for q in ("MemoryRangeSet.__or__", "MemoryRangeSet.__ior__"):
        fn = rs.func(q)
        comp = [n for n in ast.walk(fn) if isinstance(n, ast.DictComp)]
        ok = len(comp) == 1 and norm(comp[0].generators[0].iter) in ("self.regions.keys() | other.regions.keys()", "other.regions.keys() | self.regions.keys()") and \
            "self.regions.get(mem_area, RangeSet()) | other.regions.get(mem_area, RangeSet())" in norm(comp[0].value)
        rep.check(ok, "C04-a", f"{RFILE}:{q}", "union covers the regions of both operands", norm(comp[0]) if comp else "changed")
    f = rs.func("MemoryAccessSet.add")
    rep.check(norm(f.body[-1]) == "self.accesses[access] |= memory_range_set", "C04-a", f"{RFILE}:MemoryAccessSet.add", "add() unions into the slot of its direction", norm(f.body[-1]))
    # c: memoisation + who-may-call add
    rep.check(any("lru_cache" in d for d in deco), "C04-c", site, "conflicts() is memoised (so access sets must be frozen)", "not memoised any more: rule c is moot but harmless")
    util = repo.mod(UTIL)
    allowed = {(UTIL, "get_dma_memory_accesses"), (UTIL, "get_op_memory_accesses")}
    n_add = 0
    for m in repo.core_modules():
        for n in ast.walk(m.tree):
            if isinstance(n, ast.Call) and isinstance(n.func, ast.Attribute) and n.func.attr == "add" and len(n.args) == 2 and "AccessDirection" in norm(n.args[1]):
                fn = m.enclosing_function(n)
                q = m.qualname_of(fn) if fn else None
                n_add += 1
                ok = (m.name, q) in allowed
                if ok:
                    c = cfg_of(fn)
                    rets = [x for x in c.nodes[3:] if isinstance(x.stmt, ast.Return)]
                    ok = all(not c.reaches(r.id, c.node_of(n)) for r in rets)
                rep.check(ok, "C04-c", f"ethosu/vela/{m.name}.py:{q}", f"{norm(n)[:80]} happens inside a constructor function before its return", "access set mutated after publication")
    rep.floor("C04-c", 5)


def _is_sorted_concat(v):
    t = norm(v)
    return t in ("list(sorted(self.ranges + other.ranges))", "sorted(self.ranges + other.ranges)", "list(sorted(other.ranges + self.ranges))",
                 "sorted(other.ranges + self.ranges)")


def _int_enum(mod, cls):
    out = {}
    for st in mod.cls(cls).body:
        if isinstance(st, ast.Assign) and isinstance(st.value, ast.Constant) and isinstance(st.value.value, int):
            out[st.targets[0].id] = st.value.value
    return out


# ------------------------------------------------------------------ b


def _vt(v):
    return v.text if isinstance(v, Unknown) else repr(v)


def _shram_form(repo, v, dec, depth=0):
    """Normal form of an SHRAM byte quantity: an int, or [("banks", x)] meaning
    arch.shram_bank_size * <bank count x> with x in {True, False, "total"} (the argument of
    available_shram_banks, resolved through the path's decisions). Attributes of `arch` are expanded through
    their single assignment in ArchitectureFeatures.__init__. None = not recognised."""
    if isinstance(v, bool):
        return None
    if isinstance(v, int):
        return v
    if not isinstance(v, Unknown):
        return None
    try:
        e = ast.parse(v.text, mode="eval").body
    except SyntaxError:
        return None
    arch = repo.mod("architecture_features")
    init = arch.func("ArchitectureFeatures.__init__")

    def attr_def(name):
        defs = [st.value for st in ast.walk(init) if isinstance(st, ast.Assign) and len(st.targets) == 1 and norm(st.targets[0]) == f"self.{name}"]
        return defs[0] if len(defs) == 1 else None

    def factors(n, who, depth=0):
        if depth > 4:
            return None
        if isinstance(n, ast.BinOp) and isinstance(n.op, ast.Mult):
            a, b = factors(n.left, who, depth), factors(n.right, who, depth)
            return None if a is None or b is None else a + b
        if isinstance(n, ast.Constant) and isinstance(n.value, int) and not isinstance(n.value, bool):
            return [n.value]
        if isinstance(n, ast.Call) and norm(n.func) == f"{who}.available_shram_banks" and len(n.args) == 1 and not n.keywords:
            a = n.args[0]
            if isinstance(a, ast.Constant) and isinstance(a.value, bool):
                return [("avail", a.value)]
            t = norm(a)
            if t in dec:
                return [("avail", bool(dec[t]))]
            return None
        if isinstance(n, ast.Attribute) and norm(n.value) == who:
            if n.attr == "shram_bank_size":
                return ["bank_size"]
            if n.attr == "shram_total_banks":
                return [("avail", "total")]
            d = attr_def(n.attr)
            return factors(d, "self", depth + 1) if d is not None else None
        return None

    fs = factors(e, "arch")
    if fs is None:
        return None
    ints = [f for f in fs if isinstance(f, int)]
    rest = [f for f in fs if not isinstance(f, int)]
    k = 1
    for i in ints:
        k *= i
    if not rest:
        return k
    if k == 1 and sorted(map(str, rest)) == sorted(map(str, ["bank_size", rest[0] if rest[0] != "bank_size" else rest[1]])) and len(rest) == 2:
        av = [f for f in rest if f != "bank_size"]
        if len(av) == 1 and isinstance(av[0], tuple):
            return [("banks", av[0][1])]
    return None


def rule_access_sets(repo, rep):
    api = repo.mod("api")
    util = repo.mod(UTIL)

    def addr_fields(cls):
        out = []
        init = api.func(f"{cls}.__init__")
        params = {a.arg: norm(a.annotation) for a in init.args.args if a.annotation is not None}
        for st in ast.walk(init):
            if isinstance(st, ast.AnnAssign) and isinstance(st.target, ast.Attribute) and norm(st.target.value) == "self":
                ann = norm(st.annotation)
                if "NpuFeatureMap" in ann or "NpuAddressRange" in ann:
                    out.append(st.target.attr)
            elif isinstance(st, ast.Assign) and isinstance(st.targets[0], ast.Attribute) and norm(st.targets[0].value) == "self":
                if isinstance(st.value, ast.Name) and ("NpuFeatureMap" in params.get(st.value.id, "") or "NpuAddressRange" in params.get(st.value.id, "")):
                    out.append(st.targets[0].attr)
        return out

    blk = addr_fields("NpuBlockOperation")
    dma = addr_fields("NpuDmaOperation")
    if set(blk) < {"ifm", "ifm2", "ofm", "weights", "biases"} or set(dma) < {"src", "dest"}:
        raise AnalysisError(f"address-bearing API fields not recognised: {blk} {dma}")
    write_fields = {"ofm", "dest"}

    def ranges_extern(interp, args, kwargs, node):
        fm = args[0]
        nm = fm.name if isinstance(fm, AObj) else (fm.text if isinstance(fm, Unknown) else repr(fm))
        return AList([AObj(f"ranges({nm})[{i}]") for i in range(4)])

    it = Interp(repo, util, stubs={"memory_range_set", "has_ifm2"}, externs={"get_address_ranges": ranges_extern})
    site = f"{UFILE}:get_op_memory_accesses"

    def mk():
        op = AObj("npu_op", {"weights": AList([AObj("npu_op.weights[0]")]), "biases": AList([AObj("npu_op.biases[0]")]),
                             "ifm": AObj("npu_op.ifm"), "ifm2": AObj("npu_op.ifm2"), "ofm": AObj("npu_op.ofm"), "activation": AObj("npu_op.activation")})
        return [op, AObj("arch")], {}

    npaths = 0
    for p in it.run("get_op_memory_accesses", mk):
        if p.kind != "return":
            continue
        npaths += 1
        res = p.value
        if not isinstance(res, AObj) or not res.name.startswith("MemoryAccessSet"):
            rep.bad("C04-b", site, "return value", f"not a MemoryAccessSet: {res!r}")
            continue
        adds = [(c[1][0].text if isinstance(c[1][0], Unknown) else repr(c[1][0]), c[1][1]) for c in res.calls if c[0] == "add"]
        has2 = [d for t, d in p.decisions if "has_ifm2" in t]
        lut = [d for t, d in p.decisions if "TABLE_LOOKUP" in t]
        for fld in blk:
            if fld == "ifm2" and has2 and not has2[0]:
                continue
            want_dir = 1 if fld in write_fields else 0
            hit = [d for t, d in adds if f"npu_op.{fld}" in t.replace("npu_op.ifm2", "npu_op.IFM2" if fld == "ifm" else "npu_op.ifm2")]
            rep.check(bool(hit) and all(d == want_dir for d in hit), "C04-b", site,
                      f"npu_op.{fld} enters the access set as {'Write' if want_dir else 'Read'}" + (" (ifm2 present)" if fld == "ifm2" else ""),
                      f"adds {hit} on path {p.decisions}")
        shram_w = [t for t, d in adds if d == 1 and "NpuAddressRange" in t]
        rep.check(len(shram_w) == 1, "C04-b", site, "SHRAM write range (accumulators) present on every path", f"{shram_w}")
        shram_r = [t for t, d in adds if d == 0 and "NpuAddressRange" in t]
        if lut and all(lut):
            rep.check(len(shram_r) == 1, "C04-b", site, "LUT SHRAM read range present for TABLE_LOOKUP", f"{shram_r}")
        elif lut and not any(lut):
            rep.check(not shram_r, "C04-b", site, "no LUT read range without TABLE_LOOKUP", f"{shram_r}")
        # extent of the SHRAM ranges: the write range starts at 0 and covers every bank the operation may use as
        # accumulator/IFM buffer (all banks unless a LUT occupies the top ones); the read range is the LUT slot
        is_lut = bool(lut and all(lut))
        dec = {t: d for t, d in p.decisions}
        for t, d, rng in [(t, d, c[1][0].parts[2][0]) for (t, d), c in zip(adds, [c for c in res.calls if c[0] == "add"])
                          if "NpuAddressRange" in t and isinstance(c[1][0], Unknown) and c[1][0].parts and c[1][0].parts[0] == "call"]:
            addr, length = (_shram_form(repo, rng.fields.get(k), dec) for k in ("address", "length"))
            if d == 1:
                full = [("banks", False)], [("banks", "total")]
                want = [("banks", is_lut)]
                ok = addr == 0 and length is not None and (length in full or length == want)
                rep.check(ok, "C04-b", site, "SHRAM write range is [0, available_shram_banks(uses LUT) * bank size)" + (" (LUT path)" if is_lut else " (no-LUT path: all banks)"),
                          f"address={_vt(rng.fields.get('address'))} length={_vt(rng.fields.get('length'))} normalised to {addr}, {length}")
            else:
                ok = addr == [("banks", True)] and length == 2048
                rep.check(ok, "C04-b", site, "LUT read range is [available_shram_banks(True) * bank size, +2048)",
                          f"address={_vt(rng.fields.get('address'))} length={_vt(rng.fields.get('length'))} normalised to {addr}, {length}")
    rep.check(npaths >= 4, "C04-b", site, "paths enumerated", str(npaths))
    # the SHRAM ranges name the mem2mem region
    f = util.func("get_op_memory_accesses")
    ars = calls_in(f, "NpuAddressRange")
    rep.check(len(ars) == 2 and all(any(k.arg == "region" and norm(k.value) == "BASE_PTR_INDEX_MEM2MEM" for k in a.keywords) for a in ars), "C04-b", site,
              "both SHRAM ranges use region BASE_PTR_INDEX_MEM2MEM", "; ".join(norm(a) for a in ars))
    # None entries are skipped, everything else is added: loops cover the whole lists
    for lst, d in (("read_ranges", "Read"), ("write_ranges", "Write")):
        loops = [n for n in ast.walk(f) if isinstance(n, ast.For) and norm(n.iter) == lst]
        ok = len(loops) == 1 and any(norm(c.args[1]) == f"AccessDirection.{d}" for c in calls_in(loops[0], ".add"))
        rep.check(ok, "C04-b", site, f"every entry of {lst} is added as {d}", "loop changed")
    # dma
    site = f"{UFILE}:get_dma_memory_accesses"
    it2 = Interp(repo, util, stubs={"memory_range_set"})
    for p in it2.run("get_dma_memory_accesses", lambda: ([AObj("dma_op")], {})):
        res = p.value
        adds = [(c[1][0].text, c[1][1]) for c in res.calls if c[0] == "add"] if isinstance(res, AObj) else []
        for fld in dma:
            want = 1 if fld in write_fields else 0
            hit = [d for t, d in adds if f"dma_op.{fld}" in t]
            rep.check(hit == [want], "C04-b", site, f"dma_op.{fld} enters the access set as {'Write' if want else 'Read'}", f"{adds}")
    f = util.func("memory_range_set")
    rep.check(norm(f.body[-1]) == "return MemoryRangeSet(range.region, range.address, range.address + range.length)", "C04-b", f"{UFILE}:memory_range_set",
              "range -> [address, address + length) in its region", norm(f.body[-1]))
    # get_address_ranges covers the 4 tiles
    f = util.func("get_address_ranges")
    rep.check(norm(f.body[-1]) == "return [t0, t1, t2, t3]", "C04-b", f"{UFILE}:get_address_ranges", "returns the ranges of all four tiles", norm(f.body[-1]))
    # ... and builds each tile's range exactly when the hardware (and get_address) uses that tile: tile 1 iff width > width_0,
    # tile 2 iff height > height_0, tile 3 iff width > width_0 and height > height_1 (tile 3 starts at row height_1 of the right column)
    from ..exprnorm import comparison as _cmp, conjuncts as _cj

    def _guard(tname):
        for i_ in ast.walk(f):
            if isinstance(i_, ast.If) and any(isinstance(s_, ast.Assign) and norm(s_.targets[0]) == tname and not (isinstance(s_.value, ast.Constant) and s_.value.value is None) for s_ in i_.body):
                return i_.test
        return None

    def _key(k):
        return str((sorted(k[0].items()), sorted(k[1])))

    def _forms(t):
        if t is None:
            return None
        out = set()
        for c_ in _cj(t):
            txt = str(norm(c_))
            # `t1 is not None` stands for t1's own condition
            mm = re.fullmatch(r"(t[12]) is not None", txt)
            if mm:
                sub = _forms(_guard(mm.group(1)))
                if sub is None:
                    return None
                out |= sub
            else:
                k = _cmp(c_)
                if k is None:
                    return None
                out.add(_key(k))
        return out

    want3 = {_key(_cmp(ast.parse("width > width_0", mode="eval").body)), _key(_cmp(ast.parse("height > height_1", mode="eval").body))}
    got3 = _forms(_guard("t3"))
    rep.check(got3 == want3, "C04-b", f"{UFILE}:get_address_ranges", "tile 3's range is built iff width > width_0 and height > height_1 (the rows get_address sends to tile 3)",
              f"built under {sorted(got3) if got3 else 'an unrecognised condition'}: a feature map with height_1 < height <= height_0 and width > width_0 uses tile 3 but its memory is missing from the access set "
              "(no wait between a DMA on that memory and the kernel; demonstrated: 8x8x16 IFM, NpuTileBox(8, 4, 4, ...), DMA to BASE3 -> DMA_START, POOL without DMA_WAIT)")
    for tn, w_ in (("t1", "width > width_0"), ("t2", "height > height_0")):
        g_ = _forms(_guard(tn))
        rep.check(g_ == {_key(_cmp(ast.parse(w_, mode="eval").body))}, "C04-b", f"{UFILE}:get_address_ranges", f"tile {tn[1]}'s range is built iff {w_}", str(sorted(g_) if g_ else g_))
    rep.floor("C04-b", 20)


# ------------------------------------------------------------------ d


def rule_wait_dependency(repo, rep):
    util = repo.mod(UTIL)
    it = Interp(repo, util, max_paths=4096)
    site = f"{UFILE}:get_wait_dependency"
    n = 0
    for kind in ("dma", "npu"):
        for cap_dma, cap_npu in ((1, 2), (2, 2)):
            for n_dma in range(0, cap_dma + 1):
                for n_npu in range(0, cap_npu + 1):
                    def mk():
                        op = AObj("X", cls="NpuDmaOperation" if kind == "dma" else "NpuConv2DOperation")
                        dmas = [AObj(f"d{i}", cls="NpuDmaOperation") for i in range(n_dma)]
                        npus = [AObj(f"k{i}", cls="NpuConv2DOperation") for i in range(n_npu)]
                        acc = {o: AObj("acc_" + o.name) for o in dmas + npus + [op]}
                        arch = AObj("arch", {"max_outstanding_dma": cap_dma, "max_outstanding_kernels": cap_npu})
                        return [arch, op, acc, AList(dmas, "outstanding_dma_ops"), AList(npus, "outstanding_npu_ops")], {}

                    for p in it.run("get_wait_dependency", mk):
                        n += 1
                        cfgtxt = f"{kind} op, caps dma={cap_dma}/npu={cap_npu}, queues dma={n_dma}/npu={n_npu}"
                        if p.kind != "return":
                            rep.bad("C04-d", site, cfgtxt, f"raises on {p.decisions}")
                            continue
                        arch, op, acc, dq, nq = p.args[0]
                        own_before = [f"d{i}" for i in range(n_dma)] if kind == "dma" else [f"k{i}" for i in range(n_npu)]
                        other_before = [f"k{i}" for i in range(n_npu)] if kind == "dma" else [f"d{i}" for i in range(n_dma)]
                        cap = cap_dma if kind == "dma" else cap_npu
                        # model
                        own = own_before + ["X"]
                        if len(own) > cap:
                            own = own[len(own) - cap:]
                        conflicts = {}
                        for t, d in p.decisions:
                            m = re.fullmatch(r"acc_(\w+)\.conflicts\(acc_X\)", t) or re.fullmatch(r"acc_X\.conflicts\(acc_(\w+)\)", t)
                            if not m:
                                raise AnalysisError(f"unrecognised decision in get_wait_dependency: {t}")
                            conflicts[m.group(1)] = d
                        wait = -1
                        other = list(other_before)
                        scanned = []
                        for idx in range(len(other_before) - 1, -1, -1):
                            o = other_before[idx]
                            scanned.append(o)
                            if o not in conflicts:
                                wait = None  # the code did not ask about an operation that may still run
                                break
                            if conflicts[o]:
                                wait = len(other_before) - 1 - idx
                                other = other_before[idx + 1:]
                                break
                        got_own = [o.name for o in (dq if kind == "dma" else nq).items]
                        got_other = [o.name for o in (nq if kind == "dma" else dq).items]
                        wm = p.value
                        okw = isinstance(wm, AObj) and wm.name.startswith("Watermark")
                        g_npu = wm.fields.get("npu") if okw else None
                        g_dma = wm.fields.get("dma") if okw else None
                        want_npu, want_dma = (wait, -1) if kind == "dma" else (-1, wait)
                        detail = f"decisions {p.decisions}: waits npu={g_npu} dma={g_dma}, own queue {got_own}, other queue {got_other}; model: npu={want_npu} dma={want_dma}, own {own}, other {other}"
                        rep.check(wait is not None and (g_npu, g_dma) == (want_npu, want_dma) and got_own == own and got_other == other,
                                  "C04-d", site, f"{cfgtxt}, conflicts {sorted(k for k, v in conflicts.items() if v)}", detail)
    rep.check(n >= 50, "C04-d", site, "queue configurations x conflict patterns enumerated", str(n))
    rep.floor("C04-d", 50)
    # generate_cmd_waits: field -> wait command
    gen = repo.mod("register_command_stream_generator")
    it2 = Interp(repo, gen)
    for npu, dma in itertools.product((-1, 0, 1), (-1, 0, 1)):
        def mkw():
            return [AObj("emit"), AObj("cmd_waits", {"npu": npu, "dma": dma})], {}
        for p in it2.run("generate_cmd_waits", mkw):
            em = [(c[1][0].name, c[1][1], c[1][2]) for c in p.args[0][0].calls if c[0] == "cmd_wait"]
            want = ([("NPU_OP_KERNEL_WAIT", 0, npu)] if npu >= 0 else []) + ([("NPU_OP_DMA_WAIT", 0, dma)] if dma >= 0 else [])
            rep.check(em == want, "C04-d", f"{GFILE}:generate_cmd_waits", f"waits for npu={npu}, dma={dma}", f"emitted {em}")
    wm = repo.mod(UTIL).cls("Watermark")
    flds = [st.target.id for st in wm.body if isinstance(st, ast.AnnAssign)]
    rep.check(flds == ["npu", "dma"], "C04-d", f"{UFILE}:Watermark", "Watermark fields (npu, dma)", str(flds))


# ------------------------------------------------------------------ e


def rule_emission_order(repo, rep):
    gen = repo.mod("register_command_stream_generator")
    f = gen.func("generate_command_stream")
    c = cfg_of(f)
    site = f"{GFILE}:generate_command_stream"
    loop = [n for n in f.body if isinstance(n, ast.For) and calls_in(n, "generate_operation_code")]
    if len(loop) != 1:
        raise AnalysisError("operation loop not recognised")
    loop = loop[0]
    tgt = norm(loop.target)
    if "npu_op" not in tgt or "npu_op_list" not in norm(loop.iter):
        raise AnalysisError("operation loop header not recognised")

    def one(name):
        cs = [x for x in calls_in(loop, name)]
        if len(cs) != 1:
            raise AnalysisError(f"{name}: {len(cs)} call sites in the operation loop")
        return cs[0], c.node_of(cs[0])

    wd, n_wd = one("get_wait_dependency")
    gr, n_gr = one("generate_registers_for_op")
    gw, n_gw = one("generate_cmd_waits")
    go, n_go = one("generate_operation_code")
    cm, n_cm = one("check_mem_limits")
    head = c.node_of(loop)
    body = c.loop_body_nodes(loop)

    def dom_in_body(a, b):
        # every path from the loop head to b passes a
        return not c.path_avoiding(head, b, [a])

    rep.check(dom_in_body(n_wd, n_go), "C04-e", site, "get_wait_dependency precedes the NPU_OP of every iteration", "NPU_OP reachable without computing waits")
    rep.check(dom_in_body(n_gw, n_go), "C04-e", site, "generate_cmd_waits precedes the NPU_OP of every iteration", "NPU_OP reachable without emitting waits")
    rep.check(dom_in_body(n_gr, n_go), "C04-e", site, "registers are generated before the NPU_OP", "NPU_OP reachable without registers")
    rep.check(dom_in_body(n_wd, n_gw), "C04-e", site, "waits are computed before they are emitted", "stale waits")
    # the waits emitted are the ones computed for this op
    asg = c.nodes[n_wd].stmt
    ok = isinstance(asg, ast.Assign) and norm(asg.targets[0]) == "cmd_waits" and norm(gw.args[1]) == "cmd_waits" and norm(gw.args[0]) == "emit"
    rep.check(ok, "C04-e", site, "generate_cmd_waits(emit, cmd_waits) uses the result of get_wait_dependency", norm(gw))
    args = [norm(a) for a in wd.args]
    rep.check(args == ["arch", "npu_op", "memory_accesses", "outstanding_dma_ops", "outstanding_npu_ops"], "C04-e", site,
              "get_wait_dependency(arch, npu_op, memory_accesses, outstanding_dma_ops, outstanding_npu_ops)", str(args))
    rep.check(norm(go.args[1]) == "npu_op" and norm(gr.args[1]) == "npu_op", "C04-e", site, "registers and NPU_OP are generated for the loop's operation", "changed")
    # no NPU_OP between wait emission and operation code
    between = [n for n in body if c.reaches(n_gw, n) and c.reaches(n, n_go) and n not in (n_gw, n_go)]
    bad = [n for n in between if c.nodes[n].stmt is not None and calls_in(c.nodes[n].stmt, ".cmd_do_operation")]
    rep.check(not bad, "C04-e", site, "nothing starts an operation between the waits and the NPU_OP", "operation started in between")
    # outstanding lists are created once, before the loop
    for nm in ("outstanding_dma_ops", "outstanding_npu_ops"):
        defs = [s for s in ast.walk(f) if isinstance(s, (ast.Assign, ast.AnnAssign)) and norm(s.targets[0] if isinstance(s, ast.Assign) else s.target) == nm]
        ok = len(defs) == 1 and c.node_of(defs[0]) not in body and norm(defs[0].value) in ("list()", "[]")
        rep.check(ok, "C04-e", site, f"{nm} is one list for the whole stream", "re-created per operation")
    # BLOCKDEP for block operations
    bd = [x for x in calls_in(loop, "calc_blockdep")]
    if len(bd) != 1:
        raise AnalysisError("calc_blockdep call not recognised")
    n_bd = c.node_of(bd[0])
    rep.check([norm(a) for a in bd[0].args] == ["arch", "prev_op", "npu_op"], "C04-e", site, "calc_blockdep(arch, prev_op, npu_op)", norm(bd[0]))
    em = [x for x in ast.walk(loop) if isinstance(x, ast.Call) and norm(x.func) == "emit.cmd0_with_param" and norm(x.args[0]) == "cmd0.NPU_SET_BLOCKDEP"]
    ok = len(em) == 1 and norm(em[0].args[1]) == "blockdep"
    rep.check(ok, "C04-e", site, "NPU_SET_BLOCKDEP <- blockdep", "changed")
    if ok:
        n_em = c.node_of(em[0])
        rep.check(not c.path_avoiding(n_bd, n_go, [n_em]), "C04-e", site, "BLOCKDEP is emitted before the NPU_OP whenever it is computed", "skippable")
        mins = [s for s in ast.walk(loop) if isinstance(s, ast.Assign) and norm(s.targets[0]) == "blockdep" and "min(" in norm(s.value)]
        rep.check(len(mins) == 1 and norm(mins[0].value) in ("min(blockdep, arch.max_blockdep)", "min(arch.max_blockdep, blockdep)") and
                  not c.path_avoiding(n_bd, n_em, [c.node_of(mins[0])]), "C04-e", site, "blockdep is clamped by arch.max_blockdep before emission", "clamp missing")
        pv = [s for s in ast.walk(loop) if isinstance(s, ast.Assign) and norm(s.targets[0]) == "prev_op"]
        rep.check(len(pv) == 1 and norm(pv[0].value) == "npu_op" and not c.path_avoiding(n_bd, n_go, [c.node_of(pv[0])]), "C04-e", site,
                  "prev_op = npu_op after every block operation", "prev_op not advanced")
        # guard: block operations exactly
        guard = None
        for n in ast.walk(loop):
            if isinstance(n, ast.If) and any(x is bd[0] for x in ast.walk(n)):
                guard = n
        gt = norm(guard.test) if guard else ""
        rep.check("isinstance(npu_op, NpuBlockOperation)" in gt and "not isinstance(npu_op, NpuDmaOperation)" in gt or gt == "isinstance(npu_op, NpuBlockOperation)",
                  "C04-e", site, "BLOCKDEP computed for every block operation", gt)
    init = [s for s in f.body if isinstance(s, ast.Assign) and norm(s.targets[0]) == "prev_op"]
    rep.check(len(init) == 1 and norm(init[0].value) == "None", "C04-e", site, "prev_op starts as None (first operation gets BLOCKDEP 0)", "changed")
    # calc_blockdep: conservative exits
    util = repo.mod(UTIL)
    cb = util.func("calc_blockdep")
    first = [s for s in cb.body if isinstance(s, ast.If)][0]
    rep.check(norm(first.test) == "prev_op is None" and norm(first.body[0]) == "return 0", "C04-e", f"{UFILE}:calc_blockdep", "no previous operation -> 0", norm(first.test))
    rets = {}
    for n in ast.walk(cb):
        if isinstance(n, ast.If):
            for s in n.body:
                if isinstance(s, ast.Return):
                    rets[norm(n.test)] = norm(s.value)
    want = {
        "ifm_overlaps and ifm2_overlaps": "0",
        "not ifm_overlaps and (not ifm2_overlaps)": "ArchitectureFeatures.MAX_BLOCKDEP",
        "prev_uses_lut and arch.shram_reserved_unused_banks == 0 and (not curr_uses_lut)": "0",
    }
    for t, v in want.items():
        rep.check(rets.get(t) == v, "C04-e", f"{UFILE}:calc_blockdep", f"`{t}` -> {v}", f"returns {rets.get(t)}")
    rep.floor("C04-e", 18)


# ------------------------------------------------------------------ f


def rule_roles(repo, rep):
    util = repo.mod(UTIL)
    rc = RoleChecker(
        index_conventions={r"(^|_)coord$|start_coord|end_coord|ofm_coord": {0: "W", 1: "H", 2: "C"}},
    )
    scope = ["get_offset_block_coords", "get_first_job_input_volume", "get_prev_job_output_volume", "coords_intersect", "get_address",
             "get_address_ranges_for_area", "get_address_ranges", "shape3d_to_rect", "shape3d_to_block"]
    exempt = {
        # memory-stride arithmetic: byte strides multiply extents of other axes by design
        "get_strides",
    }
    n = 0
    for fn in scope:
        f = util.func(fn)
        for kind, txt, detail in rc.check_function(f):
            n += 1
            if kind == "bad":
                rep.bad("C04-f", f"{UFILE}:{fn}", txt, detail)
            else:
                rep.ok("C04-f", f"{UFILE}:{fn}", txt)
    # positional constructors: Block(width, height, depth), Rect(x, y, z, x2, y2, z2), PointXYZ(x, y, z)
    conv = {"Block": ["W", "H", "C"], "Rect": ["W", "H", "C", "W", "H", "C"], "PointXYZ": ["W", "H", "C"], "Kernel": ["W", "H", "W", "H", "W", "H"],
            "NpuKernel": ["W", "H", "W", "H", "W", "H"]}
    for fn in list(util.functions):
        if "." in fn:
            continue
        f = util.func(fn)
        for call in ast.walk(f):
            if isinstance(call, ast.Call) and call_name(call) in conv and call.args and not call.keywords:
                want = conv[call_name(call)]
                for a, w in zip(call.args, want):
                    leaves = rc.axes(a)
                    if not leaves:
                        continue
                    n += 1
                    bad = [(x, s) for x, s in leaves if x != w]
                    txt = f"{call_name(call)}(... {norm(a)} ...) position {w}"
                    if bad:
                        rep.bad("C04-f", f"{UFILE}:{fn}", txt, f"{w}-axis position receives {bad}")
                    else:
                        rep.ok("C04-f", f"{UFILE}:{fn}", txt)
    rep.floor("C04-f", 40)


# ------------------------------------------------------------------ f'


def rule_polarity(repo, rep):
    # (the verdict of RangeSet.intersects itself is decided semantically in C04-a over all endpoint order types)
    nu = repo.mod("numeric_util").func("overlaps")
    rep.check(norm(nu.body[-1]) in ("return start1 < end2 and start2 < end1", "return start2 < end1 and start1 < end2",
                                    "return start1 <= end2 and start2 <= end1"), "C04-f'", "ethosu/vela/numeric_util.py:overlaps",
              "overlaps() is half-open interval overlap (or stricter)", norm(nu.body[-1]))
    util = repo.mod(UTIL)
    ro = util.func("ranges_overlap")
    t = norm(ro.body[-1])
    ok = "range1.region == range2.region" in t and "numeric_util.overlaps(range1.address, range1.address + range1.length, range2.address, range2.address + range2.length)" in t
    rep.check(ok, "C04-f'", f"{UFILE}:ranges_overlap", "same region and [address, address+length) overlap", t)
    ci = util.func("coords_intersect")
    ret = norm(ci.body[-1])
    conj = re.findall(r"end_(\w) - start_\1 > 0", ret)
    rep.check(sorted(conj) == ["x", "y", "z"] and " or " not in ret, "C04-f'", f"{UFILE}:coords_intersect", "volume overlap = overlap on all three axes", ret)
    for ax in "xyz":
        s = [n for n in ast.walk(ci) if isinstance(n, ast.Assign) and norm(n.targets[0]) == f"start_{ax}"]
        e = [n for n in ast.walk(ci) if isinstance(n, ast.Assign) and norm(n.targets[0]) == f"end_{ax}"]
        ok = len(s) == 1 and len(e) == 1 and norm(s[0].value) in (f"max(start_a.{ax}, start_b.{ax})", f"max(start_b.{ax}, start_a.{ax})") and \
            norm(e[0].value) in (f"min(end_a.{ax}, end_b.{ax})", f"min(end_b.{ax}, end_a.{ax})")
        rep.check(ok, "C04-f'", f"{UFILE}:coords_intersect", f"{ax}: [max(starts), min(ends))", "changed")
    # first-job input volume: a job covers every sub-kernel of its OFM block, so the sub-kernel limit handed to
    # get_ifm_block_size must not clip the kernel: each of its extents is the dilated kernel extent itself
    # (or a min/max-free expression >= it); the hardware sub-kernel size or a fixed block size clips large kernels
    fj = util.func("get_first_job_input_volume")
    arch = repo.mod("architecture_features")
    callee = arch.func("ArchitectureFeatures.get_ifm_block_size")
    calls = calls_in(fj, ".get_ifm_block_size")
    if len(calls) != 1:
        raise AnalysisError("get_first_job_input_volume no longer calls get_ifm_block_size exactly once")
    params = [a_.arg for a_ in callee.args.args][1:]
    if "subkernel" not in params or "kernel" not in params:
        raise AnalysisError("get_ifm_block_size signature not recognised")
    lim = get_kwarg(calls[0], "subkernel", params.index("subkernel"))
    karg = get_kwarg(calls[0], "kernel", params.index("kernel"))
    if lim is None:
        lim = callee.args.defaults[params.index("subkernel") - (len(params) - len(callee.args.defaults))]
    sa = single_assignments(fj)
    while isinstance(lim, ast.Name) and lim.id in sa:
        lim = sa[lim.id]
    kcls = repo.mod("operation")
    site_fj = f"{UFILE}:get_first_job_input_volume"
    for axis, idx, meth in (("width", 0, "area_width"), ("height", 1, "area_height")):
        want = [st.value for st in ast.walk(callee) if isinstance(st, ast.Assign) and norm(st.targets[0]) == f"dilated_kernel_{axis}"]
        if len(want) != 1:
            raise AnalysisError(f"dilated_kernel_{axis} not found in get_ifm_block_size")
        want_form = linear(substitute(want[0], {"kernel": karg}))
        got = None
        if isinstance(lim, ast.Call) and call_name(lim) == "Block" and len(lim.args) >= 2:
            e = lim.args[idx]
            if isinstance(e, ast.Call) and isinstance(e.func, ast.Attribute) and not e.args and norm(e.func.value) == norm(karg):
                try:
                    m = kcls.func(f"Kernel.{e.func.attr}")
                except Exception:
                    m = None
                if m is not None and isinstance(m.body[-1], ast.Return):
                    e = substitute(m.body[-1].value, {"self": karg})
            got = linear(e)
        rep.check(got is not None and got == want_form, "C04-f'", site_fj,
                  f"sub-kernel limit {axis} passed to get_ifm_block_size is the dilated kernel {axis} (no clipping of the first job's receptive field)",
                  f"limit is `{norm(lim)}`; kernels whose dilated {axis} exceeds it get a first-job volume that misses IFM rows/columns the job reads")
    rl = util.func("range_lists_overlap")
    loops = [n for n in ast.walk(rl) if isinstance(n, ast.For)]
    ok = len(loops) == 2 and {norm(l.iter) for l in loops} == {"list1", "list2"} and calls_in(rl, "ranges_overlap")
    rep.check(ok, "C04-f'", f"{UFILE}:range_lists_overlap", "all pairs of the two lists are compared", "loops changed")
    # tile clamps in get_address_ranges_for_area: inside the branch of one tile, the clamps use the same tile
    # extents (height_0 / height_1 / width_0) as the guard that selects the tile
    ga = util.func("get_address_ranges_for_area")
    ifs = [n for n in ga.body if isinstance(n, ast.If) and calls_in(n, "get_h_ranges")]
    rep.check(len(ifs) == 4, "C04-f'", f"{UFILE}:get_address_ranges_for_area", "four tile branches", str(len(ifs)))
    ext = {"height_0", "height_1", "width_0"}
    for i in ifs:
        g = {x.id for x in ast.walk(i.test) if isinstance(x, ast.Name)} & ext
        for call in calls_in(i, "get_h_ranges"):
            a = {x.id for a_ in call.args for x in ast.walk(a_) if isinstance(x, ast.Name)} & ext
            rep.check(a <= g, "C04-f'", f"{UFILE}:get_address_ranges_for_area", f"tile selected by `{norm(i.test)}` is clamped by its own extents {sorted(g)}",
                      f"clamps use {sorted(a - g)} which the guard does not mention")
    rep.floor("C04-f'", 14)


def rule_round5(repo, rep):
    """(g) what the hardware is told is what the wait logic reasoned about: a register write is elided only if the whole emitted word
    pair equals the last one [shared with C06-e]; the coordinate fast path of intersects() is taken only for the very same feature
    map geometry; the programmed DMA length is the length of the modelled ranges."""
    from . import c06
    from .shared import require_conjuncts

    rep.clause("C04-g", "the accesses the waits are computed for are the accesses emitted: register elision compares the complete command word and payload [rule shared with C06-e]; "
               "intersects() compares coordinates only when shape and the whole tile box (base addresses and split) agree; DMA0_LEN is the modelled source length")
    rep.run_borrowed(c06, {"C06-e": "C04-g"}, repo, only_sites=("CommandStreamEmitter",))
    ut = repo.mod("register_command_stream_util")
    it = ut.func("intersects")
    fast = [i_ for i_ in ast.walk(it) if isinstance(i_, ast.If) and any(isinstance(c_, ast.Call) and call_name(c_) == "coords_intersect" for b in i_.body for c_ in ast.walk(b))]
    if len(fast) != 1:
        raise AnalysisError("intersects: coordinate fast path not found")
    require_conjuncts(rep, "C04-g", "ethosu/vela/register_command_stream_util.py:intersects", fast[0].test, ["ifm.shape == prev_ofm.shape", "ifm.tiles == prev_ofm.tiles"],
                      "coordinates are compared instead of addresses", "equal coordinates of two feature maps with different tile geometry are different bytes: a consumer job that reads what the producer's last blocks write gets BLOCKDEP 3")
    # the same for every other field that the address of a coordinate depends on: the fields are read off the functions of the general
    # (address comparing) path. `region` is left out: treating two regions as one only adds conflicts
    fields = set()
    for fname in ("get_strides", "get_address", "get_address_ranges_for_area", "get_h_ranges"):
        f_ = ut.func(fname)
        p0 = f_.args.args[0].arg
        for a_ in ast.walk(f_):
            if isinstance(a_, ast.Attribute) and isinstance(a_.value, ast.Name) and a_.value.id == p0:
                fields.add(a_.attr)
    fields.discard("region")
    if not {"shape", "tiles", "data_type", "layout", "strides"} <= fields:
        raise AnalysisError(f"address functions read {sorted(fields)} off the feature map: expected at least shape, tiles, data_type, layout, strides")
    from ..exprnorm import conjuncts as _cj

    have = set()
    for c_ in _cj(fast[0].test):
        if isinstance(c_, ast.Compare) and len(c_.ops) == 1 and isinstance(c_.ops[0], ast.Eq):
            l_, r_ = c_.left, c_.comparators[0]
            if isinstance(l_, ast.Attribute) and isinstance(r_, ast.Attribute) and l_.attr == r_.attr and {str(norm(l_.value)), str(norm(r_.value))} == {"ifm", "prev_ofm"}:
                have.add(l_.attr)
    missing = sorted(fields - have)
    rep.check(not missing, "C04-g", "ethosu/vela/register_command_stream_util.py:intersects", f"the coordinate fast path requires equality of every field that addresses depend on ({', '.join(sorted(fields))})",
              f"not compared: {missing}: equal coordinates of the same buffer seen with another element size, layout or row pitch are different bytes (demonstrated: int8 8x8x24 producer, NHCWB16 consumer of the "
              "same buffer: BLOCKDEP 1 although job 0 reads a byte of the producer's last block)")
    gen = repo.mod("register_command_stream_generator")
    gd = gen.func("generate_dma_op")
    ln = [c_ for c_ in ast.walk(gd) if isinstance(c_, ast.Call) and c_.args and str(norm(c_.args[0])) == "cmd1.NPU_SET_DMA0_LEN"]
    if len(ln) != 1 or len(ln[0].args) < 2:
        raise AnalysisError("generate_dma_op: DMA0_LEN emission not found")
    acc = ut.func("get_dma_memory_accesses")
    modelled = {str(norm(c_.args[0])) + ".length" for c_ in ast.walk(acc) if isinstance(c_, ast.Call) and call_name(c_) == "memory_range_set" and c_.args}
    got = str(norm(ln[0].args[1]))
    rep.check(got in modelled and got == "dma_op.src.length", "C04-g", "ethosu/vela/register_command_stream_generator.py:generate_dma_op", "DMA0_LEN is the source range's length, the length the access set models",
              f"programs `{got}` while the access set is built from {sorted(modelled)}: the transfer touches bytes the wait logic does not know about")
    rep.floor("C04-g", 4)


def rule_blockdep_source(repo, rep):
    """(j) The block dependency emitted for a kernel is what calc_blockdep computes for it and its predecessor kernel, at most clamped to
    the architecture's maximum. The value may not be replaced by a constant under a condition the command stream generator tracks on
    the side: whether the predecessor has finished is known only after KERNEL_WAIT 0 - a wait for an *earlier* kernel (KERNEL_WAIT 1)
    leaves the predecessor running. Every definition of the emitted value that reaches the emission is followed back through
    min(.., <clamp>) / copies: its leaves must be the one calc_blockdep(arch, prev_op, npu_op) call."""
    m = repo.mod("register_command_stream_generator")
    f = m.func("generate_command_stream")
    site = "ethosu/vela/register_command_stream_generator.py:generate_command_stream"
    em = [c for c in ast.walk(f) if isinstance(c, ast.Call) and "cmd0_with_param" in str(norm(c.func)) and c.args and str(norm(c.args[0])) == "cmd0.NPU_SET_BLOCKDEP"]
    if len(em) != 1 or len(em[0].args) != 2:
        raise AnalysisError("generate_command_stream: emission of NPU_SET_BLOCKDEP not found")
    leaves = []

    def follow(e, depth=0):
        if depth > 6:
            leaves.append(("deep", str(norm(e))))
            return
        if isinstance(e, ast.Name):
            defs = [a for a in ast.walk(f) if isinstance(a, ast.Assign) and len(a.targets) == 1 and str(norm(a.targets[0])) == e.id and a.lineno <= em[0].lineno]
            if not defs:
                leaves.append(("free", e.id))
            for a in defs:
                if any(isinstance(x, ast.Name) and x.id == e.id for x in ast.walk(a.value)):
                    # x = min(x, clamp): follow the other operands only
                    if isinstance(a.value, ast.Call) and call_name(a.value) == "min":
                        for arg in a.value.args:
                            if not (isinstance(arg, ast.Name) and arg.id == e.id):
                                t = str(norm(arg))
                                if not ("max_blockdep" in t.lower() or "MAX_BLOCKDEP" in t):
                                    follow(arg, depth + 1)
                        continue
                    leaves.append(("self", str(norm(a.value))))
                    continue
                follow(a.value, depth + 1)
            return
        if isinstance(e, ast.Call) and call_name(e) == "min":
            for arg in e.args:
                t = str(norm(arg))
                if not ("max_blockdep" in t.lower() or "MAX_BLOCKDEP" in t):
                    follow(arg, depth + 1)
            return
        if isinstance(e, ast.IfExp):
            leaves.append(("cond", str(norm(e.test))))
            follow(e.body, depth + 1)
            follow(e.orelse, depth + 1)
            return
        leaves.append(("expr", str(norm(e))))

    follow(em[0].args[1])
    good = [l for l in leaves if l[0] == "expr" and l[1] in ("calc_blockdep(arch, prev_op, npu_op)",)]
    other = [l for l in leaves if l not in good]
    rep.check(bool(good) and not other, "C04-j", site, "the emitted BLOCKDEP is calc_blockdep(arch, prev_op, npu_op), clamped to the maximum, on every path",
              f"other sources of the emitted value: {other[:3]}: a constant chosen under a side condition skips the overlap calculation (after KERNEL_WAIT 1 the previous kernel is still running, its consumer would start on unwritten blocks)")


def rule_depth_consuming_kinds(repo, rep):
    """(k) calc_blockdep asks get_ifm_ofm_block_depth how many IFM channels the first jobs of the consumer read. For operators that
    consume the whole IFM depth for every OFM element that is the IFM block depth, for depth-wise ones the OFM depth. Which operators
    consume the whole depth is stated by a sibling, Box.transform_with_strides_and_skirt: ConvolutionMxN, VectorProduct *and* ReduceSum
    ('a dot product or sum over the entire IFM'). In the API's terms: Conv2D and Pooling with sub-type REDUCE_SUM. Both must agree: a
    REDUCE_SUM judged by its OFM depth (1) is given BLOCKDEP 1 where its first job reads channels the producer's last block writes."""
    hs = repo.mod("high_level_command_stream")
    tf = hs.func("Box.transform_with_strides_and_skirt")
    kinds = set()
    for c in ast.walk(tf):
        if isinstance(c, ast.Compare) and len(c.ops) == 1 and isinstance(c.ops[0], ast.In) and str(norm(c.left)) == "npu_block_type" and isinstance(c.comparators[0], (ast.Tuple, ast.List, ast.Set)):
            kinds = {str(norm(e)).split(".")[-1] for e in c.comparators[0].elts}
    if not kinds:
        raise AnalysisError("transform_with_strides_and_skirt: the set of operator kinds that read the whole IFM depth was not found")
    ru = repo.mod("register_command_stream_util")
    f = ru.func("get_ifm_ofm_block_depth")
    site = "ethosu/vela/register_command_stream_util.py:get_ifm_ofm_block_depth"
    txt = " ".join(str(norm(x)) for x in ast.walk(f) if isinstance(x, (ast.Compare, ast.BoolOp)))
    need = []
    if kinds & {"ConvolutionMxN", "VectorProduct"}:
        need.append(("NpuOperationType.Conv2D", "Conv2D"))
    if "ReduceSum" in kinds:
        need.append(("NpuPoolingOp.REDUCE_SUM", "REDUCE_SUM"))
    missing = [nm for full, nm in need if full not in txt]
    rep.check(not missing, "C04-k", site, f"the operators judged by their IFM block depth are those that read the whole IFM depth ({sorted(kinds)} in the stripe transform)",
              f"{missing} is judged by its OFM depth: ABS (two depth blocks) -> REDUCE_SUM gets BLOCKDEP 1, the first REDUCE_SUM job reads channels 16..31 which the producer's last block writes (RAW)")


def rule_kernel_forwarding(repo, rep):
    """(l) to_kernel converts the API kernel into the internal Kernel that calc_blockdep uses for the IFM volume of the first block jobs:
    every member of NpuKernel that Kernel.__init__ has a parameter for is forwarded, at that parameter's position (a dropped dilation
    makes the volume too small: the overlap with the producer's last blocks is missed and BLOCKDEP is too large)."""
    ru = repo.mod("register_command_stream_util")
    f = ru.func("to_kernel")
    api = repo.mod("api")
    opm = repo.mod("operation")
    ki = opm.func("Kernel.__init__")
    kparams = [a.arg for a in ki.args.args][1:]
    ni = api.func("NpuKernel.__init__")
    members = [a.arg for a in ni.args.args][1:]
    alias = {"w": "width", "h": "height"}
    want = [f"kernel.{alias.get(p, p)}" for p in kparams if alias.get(p, p) in [alias.get(mm, mm) for mm in members]]
    calls = [c for c in ast.walk(f) if isinstance(c, ast.Call) and call_name(c) == "Kernel" and len(c.args) > 2]
    if len(calls) != 1:
        raise AnalysisError("to_kernel: the Kernel construction was not found")
    got = [str(norm(a)) for a in calls[0].args] + [f"{k.arg}={str(norm(k.value))}" for k in calls[0].keywords]
    ok = got[: len(want)] == want or all(f"{p}=kernel.{alias.get(p, p)}" in got or (i < len(calls[0].args) and got[i] == want[i]) for i, p in enumerate(kparams[: len(want)]))
    rep.check(ok and len(want) >= 6, "C04-l", "ethosu/vela/register_command_stream_util.py:to_kernel", f"every kernel member is forwarded in order: Kernel({', '.join(want)})",
              f"Kernel({', '.join(got)}): a member is dropped or misplaced; without the dilation calc_blockdep under-estimates the IFM rows of the first jobs (BLOCKDEP 2 for 1, 3 for 2 on dilated convolutions)")


def rule_h_ranges(repo, rep):
    """(m) `calc_blockdep` / the wait logic compare areas row by row: get_h_ranges(fm, strides, y0, x0, c0, y1, x1, c1) must return the range
    of every row y0..y1. The function is interpreted with `get_address_range` replaced by a stub that returns its row arguments."""
    from ..absint import AList, Interp

    ru = repo.mod("register_command_stream_util")
    if ru.func("get_h_ranges") is None:
        raise AnalysisError("register_command_stream_util.get_h_ranges not found")

    def stub(interp, args, kwargs, node):
        return ("row", args[2], args[5]) if len(args) >= 6 else None

    it = Interp(repo, ru, externs={"get_address_range": stub})
    wrong = None
    pts = 0
    for y0, y1 in ((0, 0), (0, 1), (0, 2), (3, 9), (4, 11), (5, 5), (7, 10)):
        ps = [p_ for p_ in it.run("get_h_ranges", lambda y0=y0, y1=y1: (["fm", "strides", y0, 0, 0, y1, 7, 15], {})) if p_.kind == "return"]
        if len(ps) != 1 or not isinstance(ps[0].value, (AList, list)):
            raise AnalysisError(f"get_h_ranges({y0}..{y1}) not evaluable: {[(p_.kind, p_.value) for p_ in ps][:2]}")
        items = ps[0].value.items if isinstance(ps[0].value, AList) else ps[0].value
        rows = [x[1] for x in items if isinstance(x, tuple) and x and x[0] == "row" and x[1] == x[2]]
        pts += 1
        if (len(rows) != len(items) or rows != list(range(y0, y1 + 1))) and wrong is None:
            wrong = (y0, y1, rows)
    rep.check(wrong is None, "C04-m", "ethosu/vela/register_command_stream_util.py:get_h_ranges", f"one single-row range for each row y0..y1 ({pts} areas)",
              (f"rows {wrong[0]}..{wrong[1]} give ranges for rows {wrong[2]}: an OFM block of the previous kernel that lies strictly inside a taller IFM area is not seen by `intersects`: BLOCKDEP too "
               "large, the consumer's first job reads rows that are not written yet") if wrong else "")


def rule_queue_depths(repo, rep):
    """(n) the queue model of get_wait_dependency is sized by two architecture constants. The hardware keeps two kernels in flight on every
    accelerator; DMA: two on Ethos-U65, one on Ethos-U55. ArchitectureFeatures.__init__ writes each constant at exactly the reviewed places
    with the reviewed literal, and nothing else writes them (a U55 branch with max_outstanding_kernels = 1 drops KERNEL_WAIT 1 for a DMA that
    conflicts with the older of two kernels)."""
    am = repo.mod("architecture_features")
    fn = am.func("ArchitectureFeatures.__init__")
    site = "ethosu/vela/architecture_features.py:ArchitectureFeatures.__init__"
    want = {"max_outstanding_kernels": {(None, 2)}, "max_outstanding_dma": {("u65", 2), ("u55", 1)}}
    got = {k: set() for k in want}

    def walk(body, ctx):
        for st in body:
            if isinstance(st, ast.If):
                t = str(norm(st.test))
                if t == "self.is_ethos_u65_system":
                    walk(st.body, "u65")
                    walk(st.orelse, "u55")
                else:
                    walk(st.body, ctx if ctx else "?" + t[:30])
                    walk(st.orelse, ctx if ctx else "?" + t[:30])
            elif isinstance(st, ast.Assign):
                for tg in st.targets:
                    if isinstance(tg, ast.Attribute) and tg.attr in want and str(norm(tg.value)) == "self":
                        got[tg.attr].add((ctx, try_fold(st.value, default=str(norm(st.value)))))
            elif isinstance(st, (ast.For, ast.While, ast.With, ast.Try)):
                walk(getattr(st, "body", []), ctx)

    walk(fn.body, None)
    for k in want:
        rep.check(got[k] == want[k], "C04-n", site, f"`self.{k}` is written as {sorted(want[k], key=str)} (branch on is_ethos_u65_system, literal)",
                  f"written as {sorted(got[k], key=str)}: get_wait_dependency waits only for operations older than the queue depth - a depth below the hardware's drops the wait for the older outstanding operation")
    others = []
    for m in repo.core_modules():
        for q, f in m.functions.items():
            if m.rel.endswith("architecture_features.py") and q == "ArchitectureFeatures.__init__":
                continue
            for st in ast.walk(f):
                if isinstance(st, (ast.Assign, ast.AugAssign)):
                    for tg in (st.targets if isinstance(st, ast.Assign) else [st.target]):
                        if isinstance(tg, ast.Attribute) and tg.attr in want:
                            others.append(f"{m.rel}:{q}")
    rep.check(not others, "C04-n", site, "no other writer of the queue depths", f"also written in {others}")


def rule_available_banks(repo, rep):
    """(o) the SHRAM extent a kernel is modelled to write (the conflict model asks available_shram_banks) ends below the two LUT banks only if
    the kernel uses a LUT on a part without reserved banks; a kernel without a LUT on such a part owns all banks - its accumulators reach
    the last bank, and a following LUT DMA must wait for it. Interpreted for total banks 16 / 24 / 48, reserved 0 / 2, LUT used or not."""
    from ..absint import AObj, Interp

    am = repo.mod("architecture_features")
    it = Interp(repo, am)
    site = "ethosu/vela/architecture_features.py:ArchitectureFeatures.available_shram_banks"
    n = 0
    for total in (16, 24, 48):
        for reserved in (0, 2):
            for lut in (False, True):
                self_ = AObj("arch", {"shram_total_banks": total, "shram_reserved_unused_banks": reserved}, cls="ArchitectureFeatures")
                ps = [p for p in it.run("ArchitectureFeatures.available_shram_banks", lambda s_=self_, l_=lut: ([s_, l_], {})) if p.kind == "return"]
                if not ps:
                    raise AnalysisError("available_shram_banks: no returning path for concrete arguments")
                want = total - (2 if lut and reserved == 0 else 0)
                n += 1
                # a test of something other than the two inputs forks: the result must be right on every path
                vals = sorted({p.value if isinstance(p.value, int) else str(p.value) for p in ps}, key=str)
                rep.check(vals == [want], "C04-o", site, f"total {total}, reserved {reserved}, LUT {lut}: {want} banks", f"returns {vals}: a kernel without a LUT on a 16-bank part is modelled as leaving the last two banks alone - "
                          "the LUT DMA that follows gets no KERNEL_WAIT although the kernel's accumulators occupy them")
    if n < 12:
        raise AnalysisError("available_shram_banks: grid not evaluated")

"""Rules shared by several properties."""
import ast

from ..astutil import call_name, norm
from ..exprnorm import EQ, GT, LT, comparison, conjuncts, linear, sub

ALLOC_MODULES = ("greedy_allocation", "hillclimb_allocation", "tensor_allocation", "live_range", "scheduler")
# sites where the time interval is deliberately not the closed [start, end]
INTERVAL_EXEMPT = {
    ("tensor_allocation", "mark_sram_used_for_cascaded_passes"): "per-pass SRAM statistics of the legacy cascaded-pass report, not an allocation decision",
}


def closed_interval_sites(repo, rep, rule):
    """Live-range end_time is inclusive wherever a time interval is expanded:
    range(x.start_time, x.end_time + 1) / [x.start_time : x.end_time + 1]."""
    n = 0
    for mname in ALLOC_MODULES:
        m = repo.mod(mname)
        for node in ast.walk(m.tree):
            lo = hi = None
            if isinstance(node, ast.Call) and call_name(node) == "range" and len(node.args) == 2:
                lo, hi = node.args
            elif isinstance(node, ast.Slice) and node.lower is not None and node.upper is not None:
                lo, hi = node.lower, node.upper
            if lo is None or "end_time" not in norm(hi) or "start_time" not in norm(lo):
                continue
            fn = m.enclosing_function(node)
            q = m.qualname_of(fn) if fn else "<module>"
            site = f"ethosu/vela/{mname}.py:{q}"
            txt = f"{norm(lo)} .. {norm(hi)}"
            if (mname, q) in INTERVAL_EXEMPT:
                rep.info(rule, site, txt, "exempt: " + INTERVAL_EXEMPT[(mname, q)])
                continue
            base = norm(lo).replace("start_time", "end_time")
            form = sub(linear(hi), linear(ast.parse(base, mode="eval").body))
            n += 1
            rep.check(form == {"": 1}, rule, site, f"time interval {txt} is the closed [start_time, end_time]", "upper bound is not end_time + 1: the last time step of the range is dropped or an extra one added")
    # time-slot counts: 1 + max(end_time)
    for mname in ("tensor_allocation", "hillclimb_allocation"):
        m = repo.mod(mname)
        for node in ast.walk(m.tree):
            if isinstance(node, ast.Assign) and norm(node.targets[0]) == "nr_time_slots":
                fn = m.enclosing_function(node)
                n += 1
                rep.check(norm(node.value).replace(" ", "") in ("1+max((lr.end_timeforlrinlive_ranges.lrs))", "1+max((lr.end_timeforlrinself.lrs))",
                                                               "max((lr.end_timeforlrinlive_ranges.lrs))+1", "max((lr.end_timeforlrinself.lrs))+1"),
                          rule, f"ethosu/vela/{mname}.py:{m.qualname_of(fn)}", "nr_time_slots = 1 + max(end_time)", norm(node.value))
    return n

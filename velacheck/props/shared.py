"""Rules shared by several properties."""
import ast

from ..astutil import call_name, norm, walk_no_nested
from ..exprnorm import EQ, GT, LT, comparison, conjuncts, linear, sub

ALLOC_MODULES = ("greedy_allocation", "hillclimb_allocation", "tensor_allocation", "live_range", "scheduler")
# sites where the time interval is deliberately not the closed [start, end]
INTERVAL_EXEMPT = {
    ("tensor_allocation", "mark_sram_used_for_cascaded_passes"): "per-pass SRAM statistics of the legacy cascaded-pass report, not an allocation decision",
}


def closed_interval_sites(repo, rep, rule):
    """Live-range end_time is inclusive wherever a time interval is expanded:
    range(x.start_time, x.end_time + 1) / [x.start_time : x.end_time + 1]."""
    n = 0
    for mname in ALLOC_MODULES:
        m = repo.mod(mname)
        for node in ast.walk(m.tree):
            lo = hi = None
            if isinstance(node, ast.Call) and call_name(node) == "range" and len(node.args) == 2:
                lo, hi = node.args
            elif isinstance(node, ast.Slice) and node.lower is not None and node.upper is not None:
                lo, hi = node.lower, node.upper
            if lo is None or "end_time" not in norm(hi) or "start_time" not in norm(lo):
                continue
            fn = m.enclosing_function(node)
            q = m.qualname_of(fn) if fn else "<module>"
            site = f"ethosu/vela/{mname}.py:{q}"
            txt = f"{norm(lo)} .. {norm(hi)}"
            if (mname, q) in INTERVAL_EXEMPT:
                rep.info(rule, site, txt, "exempt: " + INTERVAL_EXEMPT[(mname, q)])
                continue
            base = norm(lo).replace("start_time", "end_time")
            form = sub(linear(hi), linear(ast.parse(base, mode="eval").body))
            n += 1
            rep.check(form == {"": 1}, rule, site, f"time interval {txt} is the closed [start_time, end_time]", "upper bound is not end_time + 1: the last time step of the range is dropped or an extra one added")
    # time-slot counts: 1 + max(end_time)
    for mname in ("tensor_allocation", "hillclimb_allocation"):
        m = repo.mod(mname)
        for node in ast.walk(m.tree):
            if isinstance(node, ast.Assign) and norm(node.targets[0]) == "nr_time_slots":
                fn = m.enclosing_function(node)
                n += 1
                rep.check(norm(node.value).replace(" ", "") in ("1+max((lr.end_timeforlrinlive_ranges.lrs))", "1+max((lr.end_timeforlrinself.lrs))",
                                                               "max((lr.end_timeforlrinlive_ranges.lrs))+1", "max((lr.end_timeforlrinself.lrs))+1"),
                          rule, f"ethosu/vela/{mname}.py:{m.qualname_of(fn)}", "nr_time_slots = 1 + max(end_time)", norm(node.value))
    return n


ROUND_POINTS = [0.0, 0.25, 0.5, 0.75, 1.0, 1.5, 2.5, 3.5, 4.5, 1073741824.5, 1073741825.5]


def numeric_externs():
    """Models of the scalar numeric primitives the repo's arithmetic helpers are built from (math / numpy spellings), for
    concrete-number interpretation; anything applied to a non-number stays Unknown."""
    import math

    from ..absint import Unknown

    def lift(fn):
        def ext(interp, args, kwargs, node):
            if len(args) != 1 or not isinstance(args[0], (int, float)) or kwargs:
                return Unknown("numeric-primitive(?)")
            r = fn(args[0])
            return r if isinstance(r, tuple) else float(r)
        return ext

    half_even = lift(lambda x: round(x))
    externs = {
        "np.trunc": lift(math.trunc), "math.trunc": lift(math.trunc), "np.fix": lift(math.trunc),
        "np.floor": lift(math.floor), "math.floor": lift(math.floor), "np.ceil": lift(math.ceil), "math.ceil": lift(math.ceil),
        "np.round": half_even, "np.rint": half_even, "np.around": half_even,
        "np.sign": lift(lambda x: (x > 0) - (x < 0)), "np.abs": lift(abs), "np.fabs": lift(abs), "math.fabs": lift(abs),
        "np.float64": lift(float), "np.double": lift(float), "np.float32": lift(float),
        "np.log2": lift(math.log2), "math.log2": lift(math.log2), "math.frexp": lift(math.frexp), "np.frexp": lift(math.frexp),
    }
    externs.update({"numpy." + k[3:]: v for k, v in externs.items() if k.startswith("np.")})
    return externs



def pass_packing_automaton(repo, rep, rule):
    """pass_packing.build_pass packs operators into a pass by walking from the last operator towards its producers under the table
    `test_sequence`: (operator set, incompatible flags, flags to set, flags to clear). The table is a finite automaton over flag sets.
    It is read from the source (flag values from the PassFlags class body) and explored from the empty state, with every row
    applicable whenever its incompatible flags are clear (a superset of what first-match dispatch allows). Decided on the reachable
    states: (1) an NPU pass has one main operation - every row that sets Npu and Main is refused once Main is set (memory-only and start-up
    passes chain several operators by design); (2) a pass executed by the DMA
    engine (Memcpy) holds that operator alone - the DMA applies no fused activation and writes no brick format, so an activation
    packed behind a copy is never computed while its output is read as if it had been."""
    import ast

    from ..core import AnalysisError
    from ..exprnorm import norm

    m = repo.mod("pass_packing")
    site = "ethosu/vela/pass_packing.py:test_sequence"
    flags = {}
    table = None
    for n in m.tree.body:
        if isinstance(n, ast.ClassDef) and n.name == "PassFlags":
            for b in n.body:
                if isinstance(b, ast.Assign) and isinstance(b.value, ast.Constant) and isinstance(b.value.value, int):
                    flags[b.targets[0].id] = b.value.value
        if isinstance(n, ast.Assign) and len(n.targets) == 1 and isinstance(n.targets[0], ast.Name) and n.targets[0].id == "test_sequence":
            table = n.value
    if not flags or table is None or not isinstance(table, ast.List):
        raise AnalysisError("pass_packing: PassFlags / test_sequence not found")

    def ev(e):
        if isinstance(e, ast.BinOp) and isinstance(e.op, ast.BitOr):
            return ev(e.left) | ev(e.right)
        if isinstance(e, ast.Attribute) and isinstance(e.value, ast.Name) and e.value.id == "PassFlags" and e.attr in flags:
            return flags[e.attr]
        raise AnalysisError(f"pass_packing.test_sequence: flag expression `{norm(e)}` not evaluable")

    rows = []
    for el in table.elts:
        if not isinstance(el, ast.Tuple) or len(el.elts) != 4:
            raise AnalysisError("pass_packing.test_sequence: row is not a 4-tuple")
        rows.append((str(norm(el.elts[0])), ev(el.elts[1]), ev(el.elts[2]), ev(el.elts[3])))
    if len(rows) < 8:
        raise AnalysisError(f"pass_packing.test_sequence: {len(rows)} rows")
    names = {v: k for k, v in flags.items()}

    def show(st):
        return "|".join(names[b] for b in sorted(names) if b and st & b) or "Empty"

    seen = {0: ()}
    work = [0]
    while work:
        st = work.pop()
        for nm, inc, sets, clr in rows:
            if st & inc:
                continue
            st2 = (st & ~clr) | sets
            if st2 not in seen:
                seen[st2] = seen[st] + (nm,)
                work.append(st2)
    MAIN, MEMCPY = flags.get("Main"), flags.get("Memcpy")
    if MAIN is None or MEMCPY is None:
        raise AnalysisError("pass_packing.PassFlags: Main / Memcpy missing")
    n = 0
    for nm, inc, sets, clr in rows:
        if sets & MAIN and sets & flags.get("Npu", 0):
            n += 1
            rep.check(bool(inc & MAIN), rule, site, f"row `{nm}` sets the main operation of an NPU pass and is refused once a main operation is packed", f"incompatible flags {show(inc)}")
    CPU = flags.get("Cpu", 0)
    for nm, inc, sets, clr in rows:
        if sets & MAIN and sets & CPU:
            n += 1
            rep.check(bool(inc & MAIN), rule, site, f"row `{nm}` sets the main operation of a CPU pass and is refused once a main operation is packed",
                      f"incompatible flags {show(inc)}: two CPU operators are packed into one pass; the tensor between them is never allocated (offset 0 in the written model, overlapping whatever lives there)")
    mem_rows = [r for r in rows if r[2] & MEMCPY]
    if not mem_rows:
        raise AnalysisError("pass_packing.test_sequence: no row sets Memcpy")
    for nm, inc, sets, clr in mem_rows:
        before = sorted(st for st in seen if st and not (st & inc))
        rep.check(not before, rule, site, f"row `{nm}` (DMA copy) only starts a pass: refused in each of the {len(seen) - 1} reachable non-empty states",
                  "; ".join(f"accepted after {' <- '.join(seen[st])} (state {show(st)}): the operators packed so far run after the copy in the same pass, "
                            "but the DMA applies no activation and writes a linear buffer - the consumer reads bytes that were never produced in the format it addresses" for st in before[:2]))
    for st, path in seen.items():
        if st & MEMCPY:
            after = [nm for nm, inc, sets, clr in rows if not (st & inc)]
            rep.check(not after, rule, site, f"nothing is packed in front of a DMA copy (state {show(st)})", f"rows {after} still accepted")
    return n



def register_operand_agreement(repo, rep, rule):
    """A helper call of the register command stream generator that is told which register to write (cmd0.NPU_SET_IFM2_PRECISION,
    cmd1.NPU_SET_OFM_BASE0 ...) and which feature map to describe (`npu_op.ifm2`, `npu_op.ofm` ...) names the same operand on both
    sides: IFM2 registers carry the second operand's type and layout while its addresses and strides are emitted from `npu_op.ifm2`."""
    import ast
    import re as _re

    from ..exprnorm import norm

    m = repo.mod("register_command_stream_generator")
    n = 0
    for q, fn in m.functions.items():
        for c in ast.walk(fn):
            if not isinstance(c, ast.Call):
                continue
            regs, opers = set(), set()
            cn_ = str(norm(c.func))
            mc = _re.fullmatch(r"generate_(ifm2|ifm|ofm)", cn_)
            if mc:
                regs.add(mc.group(1))
            for a in list(c.args) + [k.value for k in c.keywords]:
                for x in ([a] + (list(a.elts) if isinstance(a, (ast.List, ast.Tuple)) else [])):
                    t = str(norm(x))
                    mm = _re.fullmatch(r"cmd[01]\.NPU_SET_(IFM2|IFM|OFM)_\w+", t)
                    if mm:
                        regs.add(mm.group(1).lower())
                    elif not t.startswith("cmd"):
                        opers |= set(_re.findall(r"(?<![A-Za-z0-9_])(ifm2|ifm|ofm)(?![A-Za-z0-9_])", t))
            if len(regs) == 1 and len(opers) == 1:
                n += 1
                r_, o_ = next(iter(regs)), next(iter(opers))
                rep.check(r_ == o_, rule, f"ethosu/vela/register_command_stream_generator.py:{q}", f"`{str(norm(c))[:80]}` writes {r_.upper()} registers from the {r_} operand",
                          f"the {r_.upper()} register is generated from `{o_}`: type / layout bits of one operand with the addresses and strides of the other (an NHWC second operand walked with the NHCWB16 pitch reads past its tensor)")
    return n



_CLONE_EXEMPT = {
    # slot: why Operation.clone does not copy it (confirmed by reading the callers)
    "type": "constructor argument", "name": "constructor argument (with the suffix)",
    "activation_lut": "the LUT tensor is an input of the operator; callers that clone LUT operators call set_activation_lut themselves",
    "_kernel": "derived lazily from attrs by the kernel property", "ifm_shapes": "re-derived by every caller (set_ifm_ofm_shapes) for the clone's own operands",
    "ofm_shapes": "as ifm_shapes", "rescale": "not a member any code sets (TOSA leftover slot)",
}


def clone_completeness(repo, rep, rule):
    """Operation.clone builds a fresh Operation and copies the members one by one. Every slot of the class is either copied
    (`res.<slot> = ..`, through the property where the slot is private) or in the reviewed exemption table: a member that is silently
    left at its default changes what the clone encodes (rounding mode: the AwayZero +1 of the scale records; explicit scaling; tile
    offsets). A property setter that validates against another member (rounding_mode reads original_type) must run after that member
    has been copied."""
    import ast

    from ..core import AnalysisError
    from ..exprnorm import norm

    m = repo.mod("operation")
    cls = [c for c in m.tree.body if isinstance(c, ast.ClassDef) and c.name == "Operation"]
    if not cls:
        raise AnalysisError("operation.Operation not found")
    cls = cls[0]
    slots = [e.value for n in cls.body if isinstance(n, ast.Assign) and str(norm(n.targets[0])) == "__slots__" for e in getattr(n.value, "elts", []) if isinstance(e, ast.Constant)]
    cl = [f for f in cls.body if isinstance(f, ast.FunctionDef) and f.name == "clone"]
    if len(slots) < 20 or len(cl) != 1:
        raise AnalysisError(f"Operation: {len(slots)} slots, {len(cl)} clone methods")
    cl = cl[0]
    order = []
    for a in ast.walk(cl):
        if isinstance(a, ast.Assign):
            for t in a.targets:
                if isinstance(t, ast.Attribute) and isinstance(t.value, ast.Name) and t.value.id == "res":
                    order.append((a.lineno, t.attr))
    order.sort()
    assigned = [x for _, x in order]
    site = "ethosu/vela/operation.py:Operation.clone"
    n = 0
    for sl in slots:
        if sl in _CLONE_EXEMPT:
            continue
        n += 1
        rep.check(sl in assigned or sl.lstrip("_") in assigned, rule, site, f"`{sl}` is copied to the clone", f"`{sl}` stays at the default of a fresh Operation: the clone no longer encodes what the original does "
                  "(rounding mode: three of the four half-pixel RESIZE_BILINEAR convolutions lose the AwayZero +1 of their scale records)")
    # members whose default is a mutable container get a container of their own
    init = [f_ for f_ in cls.body if isinstance(f_, ast.FunctionDef) and f_.name == "__init__"]
    mutable = set()
    if init:
        for a in ast.walk(init[0]):
            tg = a.targets[0] if isinstance(a, ast.Assign) and len(a.targets) == 1 else (a.target if isinstance(a, ast.AnnAssign) else None)
            v_ = getattr(a, "value", None)
            if isinstance(tg, ast.Attribute) and isinstance(tg.value, ast.Name) and tg.value.id == "self" and isinstance(v_, (ast.List, ast.Dict, ast.Set)):
                mutable.add(tg.attr)
    for a in ast.walk(cl):
        if isinstance(a, ast.Assign) and len(a.targets) == 1 and isinstance(a.targets[0], ast.Attribute) and isinstance(a.targets[0].value, ast.Name) and a.targets[0].value.id == "res" and a.targets[0].attr in mutable:
            n += 1
            shared = isinstance(a.value, ast.Attribute) and isinstance(a.value.value, ast.Name) and a.value.value.id == "self"
            rep.check(not shared, rule, site, f"`{a.targets[0].attr}` (a list / dict member) is copied, not shared (`{str(norm(a.value))[:50]}`)",
                      f"`{str(norm(a))}`: original and clone share one container: the four half-pixel RESIZE_BILINEAR convolutions, each cloned after `tile_base_offsets_ofm[0] = ..`, all end up with the last offset "
                      "(three quarters of the interleaved OFM are never written)")
    # setters that read other members
    for f in cls.body:
        if isinstance(f, ast.FunctionDef) and any(isinstance(d, ast.Attribute) and d.attr == "setter" for d in f.decorator_list):
            reads = {x.attr for x in ast.walk(f) if isinstance(x, ast.Attribute) and isinstance(x.value, ast.Name) and x.value.id == "self" and isinstance(x.ctx, ast.Load)}
            deps = set()
            for r_ in reads:
                for cand in (r_, "_" + r_):
                    if cand in slots and cand.lstrip("_") != f.name and cand not in ("type", "name"):
                        deps.add(cand)
            if f.name in assigned:
                pos = assigned.index(f.name)
                for d_ in sorted(deps):
                    dn = d_ if d_ in assigned else d_.lstrip("_")
                    if dn in assigned:
                        n += 1
                        rep.check(assigned.index(dn) < pos, rule, site, f"`{d_}` is copied before the `{f.name}` setter that validates against it runs",
                                  f"`res.{f.name} = ..` runs while `{d_}` still has the default of a fresh Operation: the setter judges the clone by the wrong value "
                                  "(AwayZero on a DepthwiseConv2DBias whose original type is not yet ResizeBilinear: AssertionError out of vela.main)")
    return n



_OWNED_EXEMPT = {
    # (module, function, aliased member): reviewed reason
    ("tflite_graph_optimiser", "fixup_strided_conv", "weight_tensor.shape"): "the rewrite replaces values, all shapes (set_all_shapes) and the value id of the NPU operator's own weight tensor together",
}
_OWNED_MUTATORS = ("insert", "append", "extend", "pop", "remove", "reverse", "sort", "clear", "fill", "resize", "itemset", "put")


def owned_member_mutation_lint(repo, rep, rule, modules, report=True):
    """A tensor owns its `shape` list and its `values` array; both are shared (the shape list is the same object as
    `_original_shape` and is carried over by the CPU-visible clone, the values array is the model's constant data). A rewrite or a
    constraint check that wants to edit them works on a copy. Flagged: a local bound to a bare `<expr>.shape` / `<expr>.values`
    (no copy(), list(), slicing, int()) that is afterwards mutated in place (list mutators, subscript store, `del x[..]`, augmented
    assignment - in place for lists and arrays), and an augmented assignment / mutator applied to `<expr>.shape` itself."""
    import ast

    from ..astutil import walk_no_nested
    from ..exprnorm import norm

    n = 0
    hits = []
    for mname in modules:
        m = repo.mod(mname)
        for q, fn in m.functions.items():
            alias = {}
            for st in sorted((x for x in walk_no_nested(fn) if isinstance(x, (ast.Assign, ast.AugAssign, ast.Delete, ast.Expr))), key=lambda x: x.lineno):
                if isinstance(st, ast.Assign) and len(st.targets) == 1 and isinstance(st.targets[0], ast.Name):
                    v = st.value
                    if isinstance(v, ast.Attribute) and v.attr in ("shape", "values") and not (isinstance(v.value, ast.Name) and v.value.id in ("np", "numpy")):
                        alias[st.targets[0].id] = (v.attr, str(norm(v)), st.lineno, st)
                        n += 1
                    elif st.targets[0].id in alias:
                        # a later binding ends the alias only if it is in the same block as the aliasing one or in an enclosing block
                        # (a binding in a sibling branch - the else of the aliasing if - leaves the alias alive on the other path)
                        anc = set()
                        cur = m.parents.get(alias[st.targets[0].id][3])
                        while cur is not None:
                            anc.add(id(cur))
                            cur = m.parents.get(cur)
                        par = m.parents.get(st)
                        in_else_of = isinstance(par, ast.If) and id(par) in anc and st in par.orelse and alias[st.targets[0].id][3] in par.body
                        if id(par) in anc and not in_else_of:
                            alias.pop(st.targets[0].id, None)
                    continue
                tgt = None
                how = None
                if isinstance(st, ast.AugAssign):
                    t = st.target
                    if isinstance(t, ast.Name):
                        tgt, how = t.id, f"`{str(norm(st))[:50]}`"
                    elif isinstance(t, ast.Subscript) and isinstance(t.value, ast.Name):
                        tgt, how = t.value.id, f"`{str(norm(st))[:50]}`"
                    elif isinstance(t, ast.Attribute) and t.attr == "shape":
                        n += 1
                        hits.append((mname, q, f"`{str(norm(st))[:60]}` extends the tensor's own shape list in place", str(norm(t))))
                elif isinstance(st, ast.Assign):
                    for t in st.targets:
                        if isinstance(t, ast.Subscript) and isinstance(t.value, ast.Name):
                            tgt, how = t.value.id, f"`{str(norm(st))[:50]}`"
                elif isinstance(st, ast.Delete):
                    for t in st.targets:
                        if isinstance(t, ast.Subscript) and isinstance(t.value, ast.Name):
                            tgt, how = t.value.id, f"`{str(norm(st))[:50]}`"
                elif isinstance(st, ast.Expr) and isinstance(st.value, ast.Call) and isinstance(st.value.func, ast.Attribute) and st.value.func.attr in _OWNED_MUTATORS:
                    b = st.value.func.value
                    if isinstance(b, ast.Name):
                        tgt, how = b.id, f"`{str(norm(st))[:50]}`"
                    elif isinstance(b, ast.Attribute) and b.attr == "shape":
                        n += 1
                        hits.append((mname, q, f"{str(norm(st))[:60]} edits the tensor's own shape list in place", str(norm(b))))
                if tgt in alias:
                    kind, src, ln, _ast = alias[tgt]
                    hits.append((mname, q, f"`{tgt}` is `{src}` itself (line {ln}, no copy) and {how} edits it in place", src))
    if report:
        seen = set()
        for mname, q, txt, src in hits:
            if (mname, q, txt) in seen:
                continue
            if (mname, q, src) in _OWNED_EXEMPT:
                seen.add((mname, q, txt))
                rep.ok(rule, f"ethosu/vela/{mname}.py:{q}", txt[:80], "reviewed: " + _OWNED_EXEMPT[(mname, q, src)])
                continue
            seen.add((mname, q, txt))
            rep.bad(rule, f"ethosu/vela/{mname}.py:{q}", "a tensor's shape list / constant values are edited only through a copy",
                    txt + ": the list is shared with `_original_shape` and the CPU-visible clone (a [1,4] interface tensor is written as [1,1,1,4]); a values array is the model's constant data "
                    "(an axis constant -1 becomes 3 in the output file)")
        if not hits:
            rep.ok(rule, "ethosu/vela", f"{n} bare aliases of tensor shape / values in {len(modules)} modules", "none is mutated in place")
    return n, hits



def address_truth_lint(repo, rep, rule, modules, report=True):
    """An address (or offset) is a number for which 0 is a legal value - the first tensor of a region lives at 0. A truth test on it
    (`if t.address:`, `t and t.address`) treats the tensor at offset 0 as absent. Flagged: `.address` / `.offset` attributes used
    directly as a condition or as an operand of and / or / not; comparisons and `is None` tests are what the code means."""
    import ast

    from ..exprnorm import norm

    n = 0
    bad = []
    for mname in modules:
        m = repo.mod(mname)
        for q, fn in m.functions.items():
            for x in ast.walk(fn):
                conds = []
                if isinstance(x, (ast.If, ast.While, ast.IfExp)):
                    conds.append(x.test)
                elif isinstance(x, ast.BoolOp):
                    conds.extend(x.values)
                elif isinstance(x, ast.UnaryOp) and isinstance(x.op, ast.Not):
                    conds.append(x.operand)
                elif isinstance(x, ast.Assert):
                    conds.append(x.test)
                for c in conds:
                    if isinstance(c, ast.Attribute) and c.attr in ("address", "offset", "address_offset"):
                        bad.append((mname, q, str(norm(x))[:80] if not isinstance(x, (ast.If, ast.While)) else str(norm(x.test))[:80], str(norm(c))))
            n += sum(1 for x in ast.walk(fn) if isinstance(x, ast.Attribute) and x.attr == "address" and isinstance(x.ctx, ast.Load))
    if report:
        for mname, q, txt, c in bad:
            rep.bad(rule, f"ethosu/vela/{mname}.py:{q}", "addresses are compared, never truth-tested (0 is a legal address)",
                    f"`{txt}` truth-tests `{c}`: a tensor at offset 0 of its region is treated as absent (a lookup table that is the first constant of the NPU subgraph is never copied into the flash image: "
                    "the command stream DMAs 256 zero bytes)")
        if not bad:
            rep.ok(rule, "ethosu/vela", f"{n} reads of `.address` in {len(modules)} modules", "none is used as a truth value")
    return n, bad



def stale_loop_variable_lint(repo, rep, rule, modules, report=True):
    """A `for` target that is read after its loop has ended (and has not been bound again) still holds the last element of the finished
    loop. Where a later loop has a variable of its own for the same role, the leftover is almost always a slip: `start_op.run_on_npu` for
    `curr_op.run_on_npu` judges every operator of a pass by the first one. Names re-bound as lambda / nested-function parameters or
    comprehension targets are different variables and are skipped."""
    import ast

    from ..exprnorm import norm

    hits = []
    n = 0
    for mname in modules:
        m = repo.mod(mname)
        for q, fn in m.functions.items():
            for lp in ast.walk(fn):
                if not isinstance(lp, ast.For):
                    continue
                n += 1
                end = lp.end_lineno
                for t in [x.id for x in ast.walk(lp.target) if isinstance(x, ast.Name)]:
                    binds = [x for x in ast.walk(fn) if isinstance(x, ast.Name) and x.id == t and isinstance(x.ctx, ast.Store) and not (lp.lineno <= x.lineno <= end)]
                    for x in ast.walk(fn):
                        if not (isinstance(x, ast.Name) and x.id == t and isinstance(x.ctx, ast.Load) and x.lineno > end):
                            continue
                        if any(end < b.lineno <= x.lineno for b in binds):
                            continue
                        shadow = False
                        cur = m.parents.get(x)
                        while cur is not None and cur is not fn:
                            if isinstance(cur, (ast.Lambda, ast.FunctionDef)) and any(a.arg == t for a in cur.args.args + cur.args.kwonlyargs):
                                shadow = True
                            if isinstance(cur, (ast.ListComp, ast.SetComp, ast.DictComp, ast.GeneratorExp)) and any(isinstance(y, ast.Name) and y.id == t for g in cur.generators for y in ast.walk(g.target)):
                                shadow = True
                            if cur is lp:
                                shadow = True
                            cur = m.parents.get(cur)
                        if not shadow:
                            hits.append((mname, q, t, x.lineno, lp.lineno))
    if report:
        seen = set()
        for mname, q, t, ln, l0 in hits:
            if (mname, q, t) in seen:
                continue
            seen.add((mname, q, t))
            rep.bad(rule, f"ethosu/vela/{mname}.py:{q}", "no loop variable is read after its loop",
                    f"`{t}` (target of the loop at line {l0}) is read at line {ln} after that loop has ended: it still holds the loop's last element "
                    "(every operator packed into a pass is judged by `start_op.run_on_npu`: a CPU-placed producer is packed into an NPU pass)")
        if not hits:
            rep.ok(rule, "ethosu/vela", f"{n} loops in {len(modules)} modules", "no target is read after its loop")
    return n, hits



_CONSUMER_DEREF_EXEMPT = {
    ("graph_optimiser_util", "_avoid_nhcwb16_for_memory_only"): "only called by check_format_restrictions after its `any(cons is None ..)` early return",
    ("weight_compressor", "_prepare_scale_and_bias"): "the tensor is the bias constant of NPU operators; the None marker is only added to subgraph output tensors",
}


def consumer_deref_lint(repo, rep, rule, report=True):
    """A tensor's consumer list holds None for 'consumed outside the graph' (a subgraph output). A loop or comprehension over
    `<t>.consumer_list` / `<t>.consumers()` that dereferences its element (`c.op_index`, `c.run_on_npu` ...) needs a None test on that
    element: `c is (not) None`, `c and ..`, an `if c` filter, or an earlier `return` under `any(c is None for c in <the same list>)`."""
    import ast
    import re as _re

    from ..exprnorm import norm

    n = 0
    hits = []
    for m in repo.core_modules():
        for q, fn in m.functions.items():
            early = set()
            for i in ast.walk(fn):
                if isinstance(i, ast.If) and i.body and isinstance(i.body[-1], ast.Return):
                    for g in ast.walk(i.test):
                        if isinstance(g, ast.GeneratorExp) and " is None" in str(norm(g.elt)):
                            early.add(str(norm(g.generators[0].iter)))
            for node in ast.walk(fn):
                gens = []
                if isinstance(node, ast.For) and isinstance(node.target, ast.Name):
                    gens = [(node.target.id, node.iter, list(node.body), [])]
                elif isinstance(node, (ast.ListComp, ast.SetComp, ast.GeneratorExp)):
                    for g in node.generators:
                        if isinstance(g.target, ast.Name):
                            gens.append((g.target.id, g.iter, [node.elt] + list(g.ifs), list(g.ifs)))
                for v, it, body, ifs in gens:
                    t = str(norm(it))
                    if not (t.endswith(".consumer_list") or t.endswith(".consumers()") or ".consumer_list" in t):
                        continue
                    n += 1
                    deref = [x for b in body for x in ast.walk(b) if isinstance(x, ast.Attribute) and isinstance(x.value, ast.Name) and x.value.id == v]
                    if not deref:
                        continue
                    txt = " ".join(str(norm(b)) for b in body)
                    guarded = bool(_re.search(rf"\b{v} is not None\b|\b{v} is None\b|\bnot {v}\b|\b{v} and \b|\bif {v}\b", txt)) or any(str(norm(i_)) == v for i_ in ifs) or t in early
                    if not guarded:
                        hits.append((m.name, q, v, t, deref[0].attr))
    if report:
        for mname, q, v, t, a in list(hits):
            if (mname, q) in _CONSUMER_DEREF_EXEMPT:
                rep.ok(rule, f"ethosu/vela/{mname}.py:{q}", f"`{v}.{a}` for `{v}` in `{t}`", "reviewed: " + _CONSUMER_DEREF_EXEMPT[(mname, q)])
                hits.remove((mname, q, v, t, a))
                continue
            rep.bad(rule, f"ethosu/vela/{mname}.py:{q}", "elements of a consumer list are dereferenced only under a None test",
                    f"`{v}.{a}` for `{v}` in `{t}` without a None test: the list holds None for a subgraph output (an int8 QUANTIZE of a constant that is also a subgraph output: "
                    "AttributeError 'NoneType' object has no attribute 'op_index')")
        if not hits:
            rep.ok(rule, "ethosu/vela", f"{n} iterations over consumer lists", "every dereference is under a None test")
    return n, hits



def consumer_truth_lint(repo, rep, rule):
    """`any(t.consumers())` / `all(..)` / `bool(..)` test the *elements* of a consumer list for truth; the list holds None for 'consumed by
    the graph itself' (a subgraph output), so a tensor whose only consumer is the graph counts as unconsumed. Emptiness is
    `len(..) > 0` / the list itself."""
    import ast

    from ..exprnorm import norm

    n = 0
    bad = 0
    for m in repo.core_modules():
        for q, fn in m.functions.items():
            for c in ast.walk(fn):
                if isinstance(c, ast.Call) and isinstance(c.func, ast.Name) and c.func.id in ("any", "all") and len(c.args) == 1:
                    t = str(norm(c.args[0]))
                    if t.endswith(".consumers()") or t.endswith(".consumer_list"):
                        bad += 1
                        rep.bad(rule, f"ethosu/vela/{m.name}.py:{q}", "emptiness of a consumer list is tested with len(), not with the truth of its elements",
                                f"`{str(norm(c))}`: the None marker of a subgraph output is falsy: a graph input that is only returned as a graph output loses its start-up placeholder; its live range shrinks and the allocator reuses its memory")
                if isinstance(c, ast.Call) and isinstance(c.func, ast.Name) and c.func.id == "len" and len(c.args) == 1 and (str(norm(c.args[0])).endswith(".consumers()") or str(norm(c.args[0])).endswith(".consumer_list")):
                    n += 1
    if not bad:
        rep.ok(rule, "ethosu/vela", f"{n} emptiness tests of consumer lists use len()", "no any() / all() over a consumer list")
    return n


def round_half_away(repo, rep, rule):
    """numeric_util.round_away_zero is the single rounding primitive behind quantise_scale, the LUT generators and
    quantise_float32. Its rounding mode is a property of the function's shape: it touches its argument only through
    a sign test, +-0.5 and an integer-part primitive, so its behaviour on ties decides it. The function is interpreted
    (own interpreter, numpy rounding primitives modelled) on ties and non-ties of both signs; the result must be
    C++ std::round, i.e. half away from zero (half-even `round`/`np.round`/`np.rint` differ on 0.5, 2.5, 4.5)."""
    import math

    from ..absint import Interp, Unknown
    from ..core import AnalysisError

    nu = repo.mod("numeric_util")
    site = "ethosu/vela/numeric_util.py:round_away_zero"

    externs = numeric_externs()
    lift = lambda fn: (lambda interp, args, kwargs, node: float(fn(args[0])) if len(args) == 1 and isinstance(args[0], (int, float)) and not kwargs else Unknown("rounding-primitive(?)"))  # noqa: E731
    externs.update({"round": lift(round), "abs": lift(abs), "int": lift(int), "float": lift(float)})
    it = Interp(repo, nu, externs=externs)
    wrong = []
    n = 0
    for x in [s * v for v in ROUND_POINTS for s in (1.0, -1.0)]:
        ps = list(it.run("round_away_zero", lambda: ([x], {})))
        if len(ps) != 1 or ps[0].kind != "return" or not isinstance(ps[0].value, (int, float)) or isinstance(ps[0].value, bool):
            raise AnalysisError(f"round_away_zero not evaluable on {x}: {[(p.kind, p.value) for p in ps]} (unmodelled primitive?)")
        want = math.copysign(math.floor(abs(x) + 0.5), x)
        n += 1
        if float(ps[0].value) != want:
            wrong.append((x, ps[0].value, want))
    rep.check(not wrong, rule, site, f"rounds half away from zero on all {n} probe points (ties and non-ties of both signs)",
              "; ".join(f"round_away_zero({x}) = {g}, std::round gives {w}" for x, g, w in wrong[:4]))


def call_axis_agreement(repo, rep, rule):
    """Where a repo function / constructor names a parameter after an axis or side (stride_y, width, pad_top ...), every
    call must feed it a value of that axis: `Kernel(w, h, stride_x, stride_x, ...)` puts a W quantity into the H slot.
    Callees are resolved by unique simple name over the analysed modules; arguments without axis-typed leaves and
    ambiguous callee names are not counted."""
    from ..roles import RoleChecker, name_axis

    rc = RoleChecker()
    idx = {}
    for m in repo.core_modules():
        for q, fn in m.functions.items():
            nm = q.split(".")[-1]
            if nm == "__init__" and "." in q:
                nm = q.split(".")[-2]
            idx.setdefault(nm, []).append((m, q, fn))
    n = 0
    for m in repo.core_modules():
        for q, fn in m.functions.items():
            for c in ast.walk(fn):
                if not isinstance(c, ast.Call):
                    continue
                cn = call_name(c)
                if not cn:
                    continue
                nm = cn.split(".")[-1]
                if len(idx.get(nm, ())) != 1:
                    continue
                tm, tq, tfn = idx[nm][0]
                params = [a.arg for a in tfn.args.args]
                if params and params[0] in ("self", "cls"):
                    params = params[1:]
                pairs = [(params[i], a) for i, a in enumerate(c.args) if i < len(params) and not isinstance(a, ast.Starred)]
                pairs += [(k.arg, k.value) for k in c.keywords if k.arg in params]
                for p, a in pairs:
                    pa = name_axis(p)
                    if not pa:
                        continue
                    leaves = rc.axes(a)
                    if not leaves:
                        continue
                    n += 1
                    bad = [(ax, t) for ax, t in leaves if ax != pa]
                    rep.check(not bad, rule, f"ethosu/vela/{m.name}.py:{q}", f"{norm(c)[:80]}: parameter `{p}` ({pa} axis) of {tq} receives a {pa}-axis value",
                              f"receives {', '.join(f'{t} ({ax})' for ax, t in bad)}")
    return n


def _member_of_value(e):
    """(base text, member) of a pure member access B.m / B.m() / B[X.m] / B['m'], else None."""
    if isinstance(e, ast.Call) and not e.args and not e.keywords and isinstance(e.func, ast.Attribute):
        e = e.func
    if isinstance(e, ast.Attribute):
        return (norm(e.value), e.attr)
    if isinstance(e, ast.Subscript):
        s = e.slice
        if isinstance(s, ast.Attribute):
            return (norm(e.value), s.attr)
        if isinstance(s, ast.Constant):
            return (norm(e.value), str(s.value))
    return None


def _member_of_target(t):
    if isinstance(t, ast.Attribute):
        return (norm(t.value), t.attr)
    if isinstance(t, ast.Subscript):
        s = t.slice
        if isinstance(s, ast.Attribute):
            return (norm(t.value), s.attr)
        if isinstance(s, ast.Constant):
            return (norm(t.value), str(s.value))
    if isinstance(t, ast.Name):
        return ("", t.id)
    return None


def mirror_families(repo, rep, rule, wanted):
    """Member-for-member copies: a run of assignments `A.m = B.m`, dictionary entries `K.m: B[K.m]` or keyword
    arguments `m=B.m` (>= 3 members mirrored) forms a family; every entry of the family's statement list / display /
    call that copies from the same source must copy the member it is named after (`res.max = self.min`,
    `Acc40: granules[Acc32]`, `height=blk.width` are copy-paste slips). `wanted` maps (module, target base, source
    base) -> why this family matters for the property; only those families are checked, each must still exist."""
    found = {}
    for m in repo.core_modules():
        if not any(k[0] == m.name for k in wanted):
            continue
        groups = []
        for n in ast.walk(m.tree):
            for fld in ("body", "orelse"):
                b = getattr(n, fld, None)
                if isinstance(b, list) and b and isinstance(b[0], ast.stmt):
                    groups.append([(_member_of_target(s.targets[0]), s.value, s.lineno) for s in b if isinstance(s, ast.Assign) and len(s.targets) == 1])
            if isinstance(n, ast.Dict):
                groups.append([((("", k.attr) if isinstance(k, ast.Attribute) else ("", str(k.value)) if isinstance(k, ast.Constant) else None), v, v.lineno)
                               for k, v in zip(n.keys, n.values) if k is not None])
            if isinstance(n, ast.Call) and len(n.keywords) >= 3:
                groups.append([(("", k.arg), k.value, k.value.lineno) for k in n.keywords if k.arg])
        for g in groups:
            g = [x for x in g if x[0]]
            fam = {}
            for (tb, tm), v, ln in g:
                lk = _member_of_value(v)
                if lk and lk[1] == tm:
                    fam.setdefault((tb, lk[0]), []).append(tm)
            for (tb, vb), members in fam.items():
                key = (m.name, tb, vb)
                if key not in wanted or len(members) < 2:
                    continue  # (a reviewed family stays recognised when one of its three members is the slip itself)
                found[key] = found.get(key, 0) + 1
                fn = None
                for (tb2, tm), v, ln in g:
                    lk = _member_of_value(v)
                    if tb2 != tb or not lk or lk[0] != vb:
                        continue
                    rep.check(lk[1] == tm or lk[1] not in members, rule, f"ethosu/vela/{m.name}.py", f"`{(tb + '.') if tb else ''}{tm}` is copied from `{vb}.{tm}` ({wanted[key]})",
                              f"`{(tb + '.') if tb else ''}{tm}` takes `{norm(v)}`, a sibling member of the same member-for-member copy (line {ln})")
    missing = [k for k in wanted if k not in found]
    if missing:
        from ..core import AnalysisError

        raise AnalysisError(f"member-for-member copy families no longer found: {missing}")


AXIS_EXEMPT = {
    ("register_command_stream_util", "get_strides"): "memory strides: the byte stride of one axis is the extent of the next inner axis times its stride",
    ("register_command_stream_generator", "print_operation"): "product of all kernel parameters compared with 1 (an 'is trivial kernel' test)",
    ("tosa_graph_optimiser", "get_nhwc_stride"): "memory strides",
    ("shape4d", "Shape4D.is_empty"): "sum over all axes compared with 0",
    ("operation_util", "create_depthwise_maxpool"): "deliberate transposition: the depth axis is laid out along the width for the max-pool trick",
    ("tflite_graph_optimiser", "convert_argmax_to_depthwise_conv_and_max_pool"): "element-count limit: height bound derived from 2^16 / width",
}


def module_axis_lint(repo, rep, rule, modules, index_conventions=None):
    """Axis / side homogeneity (roles.RoleChecker.check_function) over every function of the given modules: additive
    expressions, comparisons and axis-named bindings mix H, W and C quantities nowhere except in the reviewed table."""
    from ..roles import RoleChecker

    rc = RoleChecker(index_conventions=index_conventions)
    n = 0
    for mname in modules:
        m = repo.mod(mname)
        for q, fn in m.functions.items():
            if (mname, q) in AXIS_EXEMPT:
                rep.info(rule, f"ethosu/vela/{mname}.py:{q}", "axis roles", "exempt: " + AXIS_EXEMPT[(mname, q)])
                continue
            for kind, txt, detail in rc.check_function(fn):
                n += 1
                (rep.bad if kind == "bad" else rep.ok)(rule, f"ethosu/vela/{mname}.py:{q}", txt[:110], detail)
    return n


TRUTHY_EXEMPT = {
    ("high_level_command_to_npu_op", "create_npu_activation", "quant.zero_point"): "deliberate: 'zero point is not 0' selects the re-quantised clamp",
    ("tosa_graph_optimiser", "rewrite_activation", "ifm.quantization.zero_point"): "deliberate: `zp if zp else 0`",
}
NUMERIC_OPTIONAL = {"ifm2_scalar", "min", "max", "scale_f32", "zero_point", "quant_min", "quant_max", "quant_dim", "param_a", "param_b"}


def truthiness_lint(repo, rep, rule, modules):
    """An Optional *numeric* field (scalar operand, zero point, scale, min / max) is absent when it is None; 0 / 0.0 is
    a present value. A bare truth test of such a field (`if x.min:`, `x.ifm2_scalar and ...`, `not q.zero_point`) treats
    0 as absent. Every truth-tested occurrence of these attributes in the given modules is reported unless it is in
    the reviewed table."""
    n = 0

    def tested(e, in_test, out):
        if isinstance(e, ast.BoolOp):
            for i, v in enumerate(e.values):
                tested(v, in_test or i < len(e.values) - 1, out)
        elif isinstance(e, ast.UnaryOp) and isinstance(e.op, ast.Not):
            tested(e.operand, True, out)
        elif in_test:
            out.append(e)

    for mname in modules:
        m = repo.mod(mname)
        for q, fn in m.functions.items():
            cands = []
            for x in ast.walk(fn):
                if isinstance(x, (ast.If, ast.IfExp, ast.While, ast.Assert)):
                    tested(x.test, True, cands)
                elif isinstance(x, ast.BoolOp):
                    tested(x, False, cands)
                elif isinstance(x, ast.comprehension):
                    for c in x.ifs:
                        tested(c, True, cands)
            seen = set()
            for e in cands:
                if isinstance(e, ast.Attribute) and e.attr in NUMERIC_OPTIONAL and id(e) not in seen:
                    seen.add(id(e))
                    key = (mname, q.split(".")[-1], norm(e))
                    if key in TRUTHY_EXEMPT:
                        rep.info(rule, f"ethosu/vela/{mname}.py:{q}", f"truth test of {norm(e)}", "reviewed: " + TRUTHY_EXEMPT[key])
                        continue
                    n += 1
                    rep.bad(rule, f"ethosu/vela/{mname}.py:{q}", f"truth test of the optional numeric field `{norm(e)}`",
                            "a value of 0 / 0.0 is treated like an absent (None) field: the register / file field for it is skipped although the operation carries the value")
    return n


def none_skip_lint(repo, rep, rule, modules):
    """Operand / range / consumer lists have holes (None for an absent optional entry). A loop over such a list that
    tests its element for None must skip that element (`continue`) - leaving the loop (`break`) or the function
    silently drops every later entry."""
    n = 0
    for mname in modules:
        m = repo.mod(mname)
        for q, fn in m.functions.items():
            for lp in ast.walk(fn):
                if not (isinstance(lp, ast.For) and isinstance(lp.target, ast.Name)):
                    continue
                v = lp.target.id
                for st in lp.body:
                    if isinstance(st, ast.If) and norm(st.test) in (f"{v} is None", f"not {v}", f"None is {v}") and not st.orelse:
                        kinds = [type(x).__name__ for x in st.body]
                        if kinds == ["Return"] and q.split(".")[-1] in ("shape_num_elements", "shape_fully_defined"):
                            continue
                        n += 1
                        rep.check(kinds == ["Continue"], rule, f"ethosu/vela/{mname}.py:{q}", f"`for {v} in {norm(lp.iter)[:50]}`: a None entry is skipped with `continue`",
                                  f"a None entry ends the loop with `{' / '.join(kinds)}`: the entries after the hole are never examined")
    return n


def mutated_iteration_lint(repo, rep, rule, modules):
    """A loop whose body removes / inserts entries of the collection it iterates (`for op in t.consumers(): ...
    t.consumer_list.remove(op)`) must iterate a copy (`list(...)`): iterating the live list skips the element after
    every removal. Matched by base object and attribute stem (consumers() / consumer_list)."""
    mut = {"remove", "append", "insert", "pop", "extend", "clear"}
    n = 0
    for mname in modules:
        m = repo.mod(mname)
        for q, fn in m.functions.items():
            for lp in ast.walk(fn):
                if not isinstance(lp, ast.For):
                    continue
                it = lp.iter
                wrapped = isinstance(it, ast.Call) and isinstance(it.func, ast.Name) and it.func.id in ("list", "tuple", "sorted", "reversed", "enumerate", "set") and it.args
                core = it.args[0] if wrapped else it
                copied = bool(wrapped) and it.func.id in ("list", "tuple", "sorted", "set")
                b = core.func if isinstance(core, ast.Call) and isinstance(core.func, ast.Attribute) else core
                stem = b.attr[:6] if isinstance(b, ast.Attribute) else None
                while isinstance(b, (ast.Attribute, ast.Subscript)):
                    b = b.value
                if stem is None or not isinstance(b, ast.Name):
                    continue
                for x in ast.walk(ast.Module(body=lp.body, type_ignores=[])):
                    if isinstance(x, ast.Call) and isinstance(x.func, ast.Attribute) and x.func.attr in mut and isinstance(x.func.value, ast.Attribute):
                        tgt = x.func.value
                        if norm(tgt.value) == b.id and tgt.attr[:6] == stem:
                            n += 1
                            rep.check(copied, rule, f"ethosu/vela/{mname}.py:{q}", f"`for ... in {norm(it)[:50]}` with `{norm(x)[:50]}` in its body iterates a copy",
                                      "the loop iterates the live list it shrinks: every second entry is skipped, and the entries left behind keep pointing at the old tensor")
    return n


def scale_direction_lint(repo, rep, rule):
    """A re-quantisation factor is (input scale[s]) / (output scale): every quotient over quantisation scales in the
    compiler has the output scale in the denominator (dequantise, then quantise to the output). A quotient with an
    output scale on top and only input scales below is the reciprocal of the factor the reference kernels use."""
    import re as _re

    def side(e):
        t = str(norm(e)).lower()
        s = set()
        if _re.search(r"ifm|input|in_scale", t):
            s.add("in")
        if _re.search(r"ofm|output|out_scale", t):
            s.add("out")
        return s

    n = 0
    for m in repo.core_modules():
        if m.name.startswith("tosa"):
            continue
        for q, fn in m.functions.items():
            for x in ast.walk(fn):
                if isinstance(x, ast.BinOp) and isinstance(x.op, ast.Div) and "scale" in str(norm(x)).lower():
                    a, b = side(x.left), side(x.right)
                    if not (a | b) or (a == b):
                        continue
                    n += 1
                    rep.check(not (a == {"out"} and b == {"in"}), rule, f"ethosu/vela/{m.name}.py:{q}", f"`{str(norm(x))[:80]}` divides by the output-side scale",
                              "output scale over input scale: the reciprocal of the re-quantisation factor (input / output) every other site and the reference kernels use")
    return n


def require_conjuncts(rep, rule, site, test, required, what, consequence):
    """A guard that must hold *all* of a reviewed set of conditions before an optimisation is applied: every required
    conjunct (compared on the canonical form) must still be a conjunct of `test`; additional conjuncts only make the guard
    more conservative and are accepted."""
    from ..exprnorm import conjuncts

    have = [norm(x) for x in conjuncts(test)]
    for r in required:
        rep.check(any(h == r for h in have), rule, site, f"{what}: requires `{r}`", f"the guard is `{str(norm(test))[:160]}`: without this condition {consequence}")


def duplicate_branch_lint(repo, rep, rule, modules):
    """`if c: A else: A` - both branches the same statements - means the distinction the condition was written for
    (first use vs accumulation, signed vs unsigned, ...) is no longer made. None exists on the confirmed tree."""
    n = 0
    for mname in modules:
        m = repo.mod(mname)
        for q, fn in m.functions.items():
            for x in ast.walk(fn):
                if isinstance(x, ast.If) and x.orelse:
                    n += 1
                    same = [str(norm(s)) for s in x.body] == [str(norm(s)) for s in x.orelse]
                    if same:
                        rep.bad(rule, f"ethosu/vela/{mname}.py:{q}", f"`if {str(norm(x.test))[:60]}` has two identical branches (`{str(norm(x.body[0]))[:60]}`)",
                                "the case distinction is gone: e.g. a total that must be accumulated on later calls is overwritten instead")
    if n:
        rep.ok(rule, f"ethosu/vela/{modules[0]}.py", f"{n} if/else statements in {len(modules)} modules have distinct branches", "")
    return n


def pair_unpack_lint(repo, rep, rule, modules):
    """`a, b = something_xy` / `..._wh` / `..._hw`: the two targets, when their names carry an axis, follow the order the
    source's name states (x / w first for _xy and _wh, h first for _hw)."""
    import re as _re

    from ..roles import name_axis

    n = 0
    for mname in modules:
        m = repo.mod(mname)
        for q, fn in m.functions.items():
            for st in ast.walk(fn):
                if not (isinstance(st, ast.Assign) and isinstance(st.targets[0], ast.Tuple) and len(st.targets[0].elts) == 2):
                    continue
                src = str(norm(st.value)).replace("()", "")
                mm = _re.search(r"(?:_|\b)(xy|wh|hw)$", src)
                short = {"w": "W", "h": "H", "x": "W", "y": "H", "width": "W", "height": "H"}
                if not mm:
                    # a call of a repo method whose every return is `return <a>, <b>` with axis-named a, b (get_kernel_stride -> w, h)
                    v = st.value
                    order = None
                    if isinstance(v, ast.Call) and isinstance(v.func, ast.Attribute) and not v.args:
                        cands = [f_ for m2 in repo.core_modules() for q2, f_ in m2.functions.items() if q2.split(".")[-1] == v.func.attr]
                        if len(cands) == 1:
                            rets = [r_ for r_ in ast.walk(cands[0]) if isinstance(r_, ast.Return) and isinstance(r_.value, ast.Tuple) and len(r_.value.elts) == 2]
                            orders = {tuple(short.get(str(norm(e_)).lower(), name_axis(str(norm(e_)))) for e_ in r_.value.elts) for r_ in rets}
                            if len(orders) == 1 and None not in next(iter(orders)) and rets:
                                order = list(next(iter(orders)))
                    if order is None:
                        continue
                    want = order
                    label = f"{v.func.attr}() -> ({', '.join(order)})"
                else:
                    want = ["H", "W"] if mm.group(1) == "hw" else ["W", "H"]
                    label = mm.group(1)
                got = [(short.get(e.id.lower()) or name_axis(norm(e))) if isinstance(e, ast.Name) else None for e in st.targets[0].elts]
                if all(g is None for g in got):
                    continue
                n += 1
                bad = [(str(norm(e)), g, w) for e, g, w in zip(st.targets[0].elts, got, want) if g is not None and g != w]
                rep.check(not bad, rule, f"ethosu/vela/{mname}.py:{q}", f"`{str(norm(st))[:70]}` unpacks {label} in that order",
                          "; ".join(f"`{nm}` ({g}) takes the {w} component" for nm, g, w in bad))
    return n


def operand_stem_lint(repo, rep, rule, modules, sides=None, what=None):
    """In the command-stream level modules a parameter named after the input (ifm / ifm2) or the output (ofm) feature map
    receives a value named after the same side: `f(arch, cur_ofm_rect, cur_ifm_rect, ...)` for `def f(arch, ifm, ofm, ...)`
    swaps the two rectangles. Callees are resolved by unique simple name; only plain names / attribute chains that name
    exactly one side are compared."""
    import re as _re

    def side(name):
        t = set(_re.split(r"[_.\[\]() ]+", name.lower()))
        return {k for k, stems in (sides or {"in": {"ifm", "ifm2"}, "out": {"ofm"}}).items() if t & stems}

    idx = {}
    for m in repo.core_modules():
        for q, fn in m.functions.items():
            nm = q.split(".")[-1]
            if nm == "__init__" and "." in q:
                nm = q.split(".")[-2]
            idx.setdefault(nm, []).append((m, q, fn))
    n = 0
    for mname in modules:
        m = repo.mod(mname)
        for q, fn in m.functions.items():
            for c in ast.walk(fn):
                if not isinstance(c, ast.Call):
                    continue
                cn = call_name(c)
                if not cn or len(idx.get(cn.split(".")[-1], ())) != 1:
                    continue
                tm, tq, tfn = idx[cn.split(".")[-1]][0]
                params = [a.arg for a in tfn.args.args]
                if params and params[0] in ("self", "cls"):
                    params = params[1:]
                pairs = [(params[i], a) for i, a in enumerate(c.args) if i < len(params) and not isinstance(a, ast.Starred)]
                pairs += [(k.arg, k.value) for k in c.keywords if k.arg in params]
                for p, a in pairs:
                    ps = side(p)
                    if len(ps) != 1 or not isinstance(a, (ast.Name, ast.Attribute)):
                        continue
                    as_ = side(str(norm(a)))
                    if len(as_) != 1:
                        continue
                    n += 1
                    rep.check(ps == as_, rule, f"ethosu/vela/{mname}.py:{q}", f"{str(norm(c))[:70]}: parameter `{p}` of {tq} receives the {next(iter(ps)) if sides else ('input' if ps == {'in'} else 'output')} side",
                              f"receives `{str(norm(a))}`: {what or 'input and output feature map are exchanged at this call'}")
    return n


def stale_extent_lint(repo, rep, rule, modules, report=True):
    """A local that caches the extent of an array (`n = v.size`, `len(v)`, `v.shape...`, `v.nbytes`) is used together
    with that array only while the array is still the one it was measured on: `end = start + values.size; values =
    reinterpret(values); mem[start:end] = values` stores a buffer whose length no longer matches the slice (ValueError
    traceback for every multi-byte input). Decided by reaching definitions on the function's CFG; sites are slice stores
    `T[..L..] = V` and calls / expressions naming both L and V in one statement. Returns the number of (extent, use) pairs."""
    from ..cfg import cfg_of

    n = 0
    for mname in modules:
        m = repo.mod(mname)
        for q, fn in m.functions.items():
            cands = []
            for st in walk_no_nested(fn):
                if isinstance(st, ast.Assign) and len(st.targets) == 1 and isinstance(st.targets[0], ast.Name):
                    for x in ast.walk(st.value):
                        v = None
                        if isinstance(x, ast.Attribute) and x.attr in ("size", "nbytes", "shape") and isinstance(x.value, ast.Name):
                            v = x.value.id
                        elif isinstance(x, ast.Call) and call_name(x) == "len" and len(x.args) == 1 and isinstance(x.args[0], ast.Name):
                            v = x.args[0].id
                        if v and v != st.targets[0].id:
                            cands.append((st, st.targets[0].id, v))
            if not cands:
                continue
            c = cfg_of(fn)
            rd = c.reaching_defs()
            for st, L, V in cands:
                sn = c.node_of(st)
                if sn is None:
                    continue
                for u in c.nodes[3:]:
                    if u.id == sn or u.stmt is None or not c.reaches(sn, u.id):
                        continue
                    tree = u.expr if u.expr is not None else u.stmt
                    if isinstance(tree, (ast.For, ast.While, ast.If, ast.With, ast.Try, ast.FunctionDef)):
                        continue
                    names = {x.id for x in ast.walk(tree) if isinstance(x, ast.Name) and isinstance(x.ctx, ast.Load)}
                    if L not in names or V not in names:
                        continue
                    if rd[u.id].get(L) != {sn}:
                        continue
                    n += 1
                    # only a definition that transforms the array itself (`v = f(v)`) makes the extent stale; a loop
                    # variable taking its next value is a different object with its own extent
                    new_defs = (rd[u.id].get(V) or set()) - (rd[sn].get(V) or set())
                    same = not any(isinstance(c.nodes[d].stmt, ast.Assign) and c.nodes[d].kind not in ("iter",) and
                                   any(isinstance(x, ast.Name) and x.id == V for x in ast.walk(c.nodes[d].stmt.value)) for d in new_defs)
                    if report:
                        rep.check(same, rule, f"ethosu/vela/{mname}.py:{q}", f"`{L}` (extent of `{V}`, line of `{str(norm(st))[:60]}`) is used with the `{V}` it was measured on in `{str(norm(tree))[:60]}`",
                                  f"`{V}` is re-assigned between the measurement and this use: the cached extent `{L}` describes a different array (element count vs byte count)")
                    elif not same:
                        print("STALE", mname, q, L, V, str(norm(tree))[:80])
    return n


def flag_consistency_lint(repo, rep, rule, modules, report=True):
    """A local flag (every assignment to it is a boolean expression: comparison, and / or / not, True / False, an `in` test) that
    decides two things - e.g. a bit programmed by one call and whether a register is written afterwards - must be fully decided
    before its first use: every load of the flag sees the same set of reaching definitions. An override placed between two uses
    makes the two decisions disagree. Returns the number of (flag, load) pairs examined."""
    from ..cfg import cfg_of

    def is_bool(e):
        if isinstance(e, ast.Constant):
            return isinstance(e.value, bool)
        if isinstance(e, ast.Compare):
            return True
        if isinstance(e, ast.BoolOp):
            return all(is_bool(v) for v in e.values)
        if isinstance(e, ast.UnaryOp) and isinstance(e.op, ast.Not):
            return True
        return False

    n = 0
    for mname in modules:
        m = repo.mod(mname)
        for q, fn in m.functions.items():
            defs = {}
            for st in walk_no_nested(fn):
                if isinstance(st, ast.Assign) and len(st.targets) == 1 and isinstance(st.targets[0], ast.Name):
                    defs.setdefault(st.targets[0].id, []).append(st.value)
                elif isinstance(st, (ast.AugAssign, ast.For, ast.With)):
                    tgt = st.target if isinstance(st, (ast.AugAssign, ast.For)) else None
                    for x in (ast.walk(tgt) if tgt is not None else []):
                        if isinstance(x, ast.Name):
                            defs.setdefault(x.id, []).append(None)
            params = {a.arg for a in fn.args.args + fn.args.kwonlyargs}
            flags = [k for k, v in defs.items() if len(v) >= 2 and all(x is not None and is_bool(x) for x in v) and k not in params]
            if not flags:
                continue
            c = cfg_of(fn)
            rd = c.reaching_defs()
            for name in flags:
                loads = {}
                for x in walk_no_nested(fn):
                    if isinstance(x, ast.Name) and x.id == name and isinstance(x.ctx, ast.Load):
                        try:
                            nid = c.node_of(x)
                        except Exception:
                            nid = None
                        if nid is None:
                            continue
                        # a load inside the statement that re-defines the flag (x = x and y) refines it, it is not a use
                        st = c.nodes[nid].stmt
                        if isinstance(st, ast.Assign) and len(st.targets) == 1 and isinstance(st.targets[0], ast.Name) and st.targets[0].id == name and c.nodes[nid].kind == "stmt":
                            continue
                        loads[nid] = frozenset(rd[nid].get(name, ()))
                if len(loads) < 2:
                    continue
                sets = set(loads.values())
                # loops: a flag updated inside a loop body and read at the loop head legitimately sees different sets
                in_loop = any(isinstance(p_, (ast.For, ast.While)) and any(isinstance(x, ast.Name) and x.id == name and isinstance(x.ctx, ast.Store) for x in ast.walk(p_)) for p_ in walk_no_nested(fn))
                if in_loop:
                    continue
                n += len(loads)
                if report:
                    rep.check(len(sets) == 1, rule, f"ethosu/vela/{mname}.py:{q}", f"flag `{name}` is fully decided before its first use ({len(loads)} uses see the same definitions)",
                              f"`{name}` is re-assigned between two of its uses: the decisions taken from it disagree (e.g. the scale mode programmed by one call and whether the scale register is written afterwards)")
                elif len(sets) != 1:
                    print("FLAG", mname, q, name, {k: sorted(v) for k, v in loads.items()})
    return n


def binding_stem_lint(repo, rep, rule, modules, report=True):
    """A local whose name says which feature map it describes (ifm_bits, ofm_shape, ifm2_layout ...) is bound to a value
    read from that feature map: `ifm_bits = npu_op.ofm.data_type.size_in_bits()` sizes the IFM partitions with the OFM's
    element width. Only plain attribute chains / method calls on them that name exactly one side are compared."""
    import re as _re

    def side(name):
        t = set(_re.split(r"[_.\[\]() ]+", name.lower()))
        s = set()
        if "ifm2" in t:
            s.add("ifm2")
        if "ifm" in t:
            s.add("ifm")
        if "ofm" in t:
            s.add("ofm")
        return s

    n = 0
    for mname in modules:
        m = repo.mod(mname)
        for q, fn in m.functions.items():
            for st in walk_no_nested(fn):
                if not (isinstance(st, ast.Assign) and len(st.targets) == 1 and isinstance(st.targets[0], ast.Name)):
                    continue
                ts = side(st.targets[0].id)
                if len(ts) != 1:
                    continue
                v = st.value
                # a quantifier over a collection read from a feature map: `x_is_cpu_produced = any(.. for p in op.ifm.ops)`
                if isinstance(v, ast.Call) and isinstance(v.func, ast.Name) and v.func.id in ("any", "all", "len", "list", "sum") and v.args and isinstance(v.args[0], (ast.GeneratorExp, ast.ListComp)):
                    v = v.args[0].generators[0].iter
                while isinstance(v, ast.Call) and isinstance(v.func, ast.Attribute) and (not v.args or v.func.attr in ("with_hw", "with_height", "with_width", "with_depth", "with_axis", "with_batch")):
                    v = v.func.value
                if isinstance(v, ast.Name) and v is not st.value:
                    # `ifm_shape = ofm_shape.with_hw(h, w)`: a shape derived from a side-named local
                    vs = side(v.id)
                    if len(vs) == 1:
                        n += 1
                        if report:
                            rep.check(ts == vs, rule, f"ethosu/vela/{mname}.py:{q}", f"`{st.targets[0].id}` is derived from the {next(iter(ts))} side (`{str(norm(st.value))[:60]}`)",
                                      f"`{st.targets[0].id}` is bound to `{str(norm(st.value))[:70]}`: a quantity of the {next(iter(vs))} is used where the {next(iter(ts))}'s is meant")
                        elif ts != vs:
                            print("STEM", mname, q, str(norm(st))[:90])
                    continue
                if not isinstance(v, ast.Attribute):
                    continue
                vs = side(str(norm(v)))
                if len(vs) != 1:
                    continue
                n += 1
                if report:
                    rep.check(ts == vs, rule, f"ethosu/vela/{mname}.py:{q}", f"`{st.targets[0].id}` is read from the {next(iter(ts))} side (`{str(norm(st.value))[:60]}`)",
                              f"`{st.targets[0].id}` is bound to `{str(norm(st.value))[:70]}`: a quantity of the {next(iter(vs))} is used where the {next(iter(ts))}'s is meant")
                elif ts != vs:
                    print("STEM", mname, q, str(norm(st))[:90])
    return n


def swapped_argument_lint(repo, rep, rule, modules, report=True, strict=False):
    """A positional argument that is a plain name (or attribute leaf) spelled exactly like one of the callee's parameters sits at
    that parameter's position: `encode_weights(acc, vol, dil, ofm_block_depth, ifm_bitdepth, ...)` for `def encode_weights(acc,
    vol, dil, ifm_bitdepth, ofm_block_depth, ...)` exchanges two ints that every type check accepts. Callees are resolved by
    unique simple name among the core modules."""
    idx = {}
    for m in repo.core_modules():
        for q, fn in m.functions.items():
            nm = q.split(".")[-1]
            if nm == "__init__" and "." in q:
                nm = q.split(".")[-2]
            idx.setdefault(nm, []).append((m, q, fn))
    n = 0
    for mname in modules:
        m = repo.mod(mname)
        for q, fn in m.functions.items():
            for c in ast.walk(fn):
                if not isinstance(c, ast.Call):
                    continue
                cn = call_name(c)
                if not cn or len(idx.get(cn.split(".")[-1], ())) != 1:
                    continue
                tm, tq, tfn = idx[cn.split(".")[-1]][0]
                params = [a.arg for a in tfn.args.args]
                if params and params[0] in ("self", "cls"):
                    params = params[1:]
                leaves = []
                for i, a in enumerate(c.args):
                    if isinstance(a, ast.Starred) or i >= len(params):
                        break
                    leaves.append(a.id if isinstance(a, ast.Name) else (a.attr if isinstance(a, ast.Attribute) else None))
                for i, leaf in enumerate(leaves):
                    if leaf is None or leaf not in params:
                        continue
                    n += 1
                    j = params.index(leaf)
                    # a true exchange: the argument named like parameter j sits at i and the one named like parameter i sits at j
                    ok = not (j != i and j < len(leaves) and leaves[j] == params[i])
                    if strict and j != i:
                        # one-sided: a variable named exactly like another parameter of the callee sits at this position, and the argument at
                        # that parameter's own position is not a variable of that name
                        ok = ok and (j < len(leaves) and leaves[j] == leaf)
                    if report:
                        rep.check(ok, rule, f"ethosu/vela/{mname}.py:{q}", f"{str(norm(c))[:60]}: argument `{leaf}` is passed as parameter `{leaf}` of {tq}",
                                  f"`{leaf}` is passed at the position of parameter `{params[i]}` although {tq} has a parameter named `{leaf}` at position {params.index(leaf) + 1}: two arguments are exchanged")
                    elif not ok:
                        print("SWAP", mname, q, str(norm(c))[:80], leaf, "->", params[i])
    return n


def loop_shared_clone_lint(repo, rep, rule, modules, what):
    """A record cloned once *before* a loop, whose fields are stored inside the loop and which is handed on inside the loop (call argument,
    or assigned to an attribute of another object), is one object shared by everything it was handed to: after the loop all of them carry the
    last iteration's values. (A clone taken inside the loop, or a name re-bound in the loop, is a fresh object per iteration.)"""
    nloops = 0
    for mn in modules:
        m = repo.mod(mn)
        for q, fn in m.functions.items():
            if "." in q and q.split(".")[0] in m.functions:
                continue
            for lp in walk_no_nested(fn):
                if not isinstance(lp, (ast.For, ast.While)):
                    continue
                nloops += 1
                inside = set(id(x) for x in ast.walk(lp))
                for st in walk_no_nested(fn):
                    if not (isinstance(st, ast.Assign) and id(st) not in inside and st.lineno < lp.lineno and isinstance(st.targets[0], ast.Name) and isinstance(st.value, ast.Call)
                            and isinstance(st.value.func, ast.Attribute) and st.value.func.attr == "clone"):
                        continue
                    n = st.targets[0].id
                    if any(isinstance(x, ast.Assign) and any(isinstance(t, ast.Name) and t.id == n for t in x.targets) for x in ast.walk(lp)):
                        continue
                    stores = [x for x in ast.walk(lp) if isinstance(x, ast.Assign) and isinstance(x.targets[0], ast.Attribute) and isinstance(x.targets[0].value, ast.Name) and x.targets[0].value.id == n]
                    escapes = [x for x in ast.walk(lp) if (isinstance(x, ast.Call) and any(isinstance(a, ast.Name) and a.id == n for a in list(x.args) + [k.value for k in x.keywords]))
                               or (isinstance(x, ast.Assign) and isinstance(x.value, ast.Name) and x.value.id == n and isinstance(x.targets[0], ast.Attribute))]
                    if stores and escapes:
                        rep.bad(rule, f"{m.rel}:{q}", f"`{n} = {str(norm(st.value))[:50]}` is taken once before the loop, `{str(norm(stores[0]))[:60]}` stores into it in every iteration and it is handed on inside the loop",
                                f"every object it is handed to shares the one record: after the loop all carry the values of the last iteration ({what})")
    from ..core import AnalysisError

    if nloops < 50:
        raise AnalysisError(f"loop_shared_clone_lint: only {nloops} loops scanned")
    rep.ok(rule, "ethosu/vela", f"{nloops} loops scanned for a record cloned outside, stored into and handed on inside")


def idle_core_windows(repo, rep, rule):
    """(o) WEIGHT1_BASE / LENGTH and SCALE1_BASE / LENGTH are persistent registers: an operation whose stream feeds core 0 only must still
    program the second core of a two-core accelerator with length 0, or that core reads the previous operation's window in this
    operation's region. generate_weights / generate_biases are interpreted for one address range on a two-core and a one-core architecture."""
    from ..absint import AList, AObj, Interp
    from ..core import AnalysisError

    gen = repo.mod("register_command_stream_generator")
    it = Interp(repo, gen, stubs={"check_alignment", "check_length"})
    for fname, base1, len1 in (("generate_weights", "cmd1.NPU_SET_WEIGHT1_BASE", "cmd1.NPU_SET_WEIGHT1_LENGTH"), ("generate_biases", "cmd1.NPU_SET_SCALE1_BASE", "cmd1.NPU_SET_SCALE1_LENGTH")):
        for ncores in (2, 1):
            def mk(ncores=ncores):
                return [AObj("emit"), AList([AObj("w0", {"address": 64, "length": 160, "region": 2})]), AObj("arch", {"ncores": ncores})], {}

            ps = [p for p in it.run(fname, mk) if p.kind == "return"]
            if not ps:
                raise AnalysisError(f"{fname}: no returning path with one range on {ncores} core(s)")
            for p in ps:
                calls = [(c[0], [str(a) for a in c[1]]) for c in p.args[0][0].calls]
                l1 = [a for nm, a in calls if nm == "cmd1_with_offset" and a and a[0] == len1]
                if ncores == 2:
                    rep.check(len(l1) == 1 and l1[0][1] == "0", rule, f"ethosu/vela/register_command_stream_generator.py:{fname}", f"one range, two cores: `{len1}` is written with 0",
                              f"emitted {[a for _, a in calls if a and a[0] in (base1, len1)]}: core 1 keeps the window of the previous operation and reads it in this operation's region "
                              "(demonstrated: FULLY_CONNECTED then a 1-channel convolution on ethos-u65-512: core 1 reads [0x21430, 0x41450) of a 320-byte fast-scratch tensor)")
                else:
                    rep.check(not l1, rule, f"ethosu/vela/register_command_stream_generator.py:{fname}", f"one range, one core: `{len1}` is not written", f"emitted {l1}")
    rep.floor(rule, 4)


def enum_class_agreement(repo, rep, rule):
    """Members of two different Enum classes never compare equal, whatever their names and values (`NpuResamplingMode.NONE !=
    resampling_mode.NONE`). A variable's enum class is inferred from its parameter annotation, from `v = <Enum>.<MEMBER>`, or from
    `v = <table>[..]` where <table> is a module-level dict literal whose values are members of one class. Decided: (1) every `v == / != / is
    <Enum>.<MEMBER>` compares within one class; (2) a variable of known class passed positionally to a function of the repo whose parameter
    is annotated with an enum class is of that class. Returns the number of comparisons / arguments looked at."""
    import ast

    from ..exprnorm import norm

    bases = ("Enum", "IntEnum", "IntFlag", "Flag")
    enums = set()
    trees = [(m.name, m.tree) for m in repo.core_modules()]
    try:
        import os

        regs = os.path.join(repo.root, "ethosu", "vela", "ethos_u55_regs", "ethos_u55_regs.py")
        trees.append(("ethos_u55_regs", ast.parse(open(regs).read())))
    except OSError:
        pass
    for _, tree in trees:
        for c in ast.walk(tree):
            if isinstance(c, ast.ClassDef) and any((getattr(b, "id", None) or getattr(b, "attr", None)) in bases for b in c.bases):
                enums.add(c.name)
    tables = {}
    for _, tree in trees:
        for st in tree.body:
            if isinstance(st, ast.Assign) and isinstance(st.value, ast.Dict) and isinstance(st.targets[0], ast.Name) and st.value.values:
                cl = {v.value.id for v in st.value.values if isinstance(v, ast.Attribute) and isinstance(v.value, ast.Name) and v.value.id in enums}
                if len(cl) == 1 and all(isinstance(v, ast.Attribute) for v in st.value.values):
                    tables[st.targets[0].id] = cl.pop()

    def ann_class(a):
        an = a.annotation
        nm = an.id if isinstance(an, ast.Name) else (an.attr if isinstance(an, ast.Attribute) else None)
        return nm if nm in enums else None

    sigs = {}
    for m in repo.core_modules():
        for q, fn in m.functions.items():
            if "." not in q:
                sigs.setdefault(q, []).append([ann_class(a) for a in fn.args.args])
    n = 0
    for m in repo.core_modules():
        for q, fn in m.functions.items():
            cls = {}
            for a in fn.args.args + fn.args.kwonlyargs:
                if a.annotation is not None and ann_class(a):
                    cls[a.arg] = ann_class(a)
            for st in ast.walk(fn):
                if isinstance(st, ast.Assign) and len(st.targets) == 1 and isinstance(st.targets[0], ast.Name):
                    v = st.value
                    if isinstance(v, ast.Subscript) and isinstance(v.value, ast.Name) and v.value.id in tables:
                        cls.setdefault(st.targets[0].id, tables[v.value.id])
                    elif isinstance(v, ast.Attribute) and isinstance(v.value, ast.Name) and v.value.id in enums:
                        cls.setdefault(st.targets[0].id, v.value.id)
            site = f"ethosu/vela/{m.name}.py:{q}"
            for c in ast.walk(fn):
                if isinstance(c, ast.Compare) and len(c.ops) == 1 and isinstance(c.ops[0], (ast.Eq, ast.NotEq, ast.Is, ast.IsNot)):
                    for a, b in ((c.left, c.comparators[0]), (c.comparators[0], c.left)):
                        if isinstance(a, ast.Name) and a.id in cls and isinstance(b, ast.Attribute) and isinstance(b.value, ast.Name) and b.value.id in enums:
                            n += 1
                            rep.check(cls[a.id] == b.value.id, rule, site, f"`{norm(c)}` compares members of one enum class ({b.value.id})",
                                      f"`{norm(c)}`: `{a.id}` is a {cls[a.id]} (from its annotation / the table it is read from), `{norm(b)}` a {b.value.id}: members of different Enum classes are never equal, "
                                      "the comparison has one outcome for every input")
                if isinstance(c, ast.Call) and isinstance(c.func, ast.Name) and len(sigs.get(c.func.id, [])) == 1:
                    sig = sigs[c.func.id][0]
                    for i, a in enumerate(c.args):
                        if isinstance(a, ast.Name) and a.id in cls and i < len(sig) and sig[i]:
                            n += 1
                            rep.check(cls[a.id] == sig[i], rule, site, f"`{norm(c)[:80]}`: argument `{a.id}` ({cls[a.id]}) for a parameter annotated {sig[i]}",
                                      f"`{norm(c)[:80]}` passes `{a.id}`, a {cls[a.id]}, to a parameter that `{c.func.id}` compares as {sig[i]}: the callee's comparisons are constant")
    return n


def loop_stem_lint(repo, rep, rule, what):
    """A loop / comprehension variable named after an operand (ifm, ifm2, ofm: `ifm_prod`, `ofm_cons` ..) iterates a collection reached
    through the operand of the same name (`op.ifm.ops`, `ofm.consumer_list` ..). Eight such loops in the tree, no exception."""
    def stem(name):
        toks = name.lower().split("_")
        for s_ in ("ifm2", "ifm", "ofm"):
            if s_ in toks:
                return s_
        return None

    def stems_in(e):
        out = set()
        for x in ast.walk(e):
            if isinstance(x, ast.Attribute) and x.attr in ("ifm", "ifm2", "ofm"):
                out.add(x.attr)
            if isinstance(x, ast.Name) and stem(x.id):
                out.add(stem(x.id))
        return out

    n = 0
    for m in repo.core_modules():
        for q, fn in m.functions.items():
            for node in ast.walk(fn):
                if not isinstance(node, (ast.For, ast.comprehension)):
                    continue
                for nm in [x for x in ast.walk(node.target) if isinstance(x, ast.Name)]:
                    s_ = stem(nm.id)
                    si = stems_in(node.iter)
                    if not s_ or not si:
                        continue
                    n += 1
                    rep.check(s_ in si, rule, f"{m.rel}:{q}", f"`{nm.id}` iterates a collection of the {s_.upper()} (`{str(norm(node.iter))[:60]}`)",
                              f"`{nm.id}` ranges over `{str(norm(node.iter))[:70]}`, which belongs to {sorted(x.upper() for x in si)}: {what}")
    return n

"""C11 Model interface and CPU-resident operators are preserved verbatim."""
import ast
import os
import re

from ..astutil import calls_in, call_name, dotted, norm, try_fold, walk_no_nested
from ..cfg import cfg_of
from ..core import AnalysisError
from ..exprnorm import conjuncts
from ..tables import enum_of

TM = "ethosu/vela/tflite_mapping.py"
TW = "ethosu/vela/tflite_writer.py"
TR = "ethosu/vela/tflite_reader.py"
GO = "ethosu/vela/tflite_graph_optimiser.py"


def camel(s):
    return "".join(x.title() for x in s.split("_"))


def schema_fields(repo, name):
    """Field names (CamelCase) of a generated flatbuffer table class, with vector flag."""
    mname = f"tflite.{name}"
    if mname not in repo.modules:
        return None
    m = repo.modules[mname]
    fields = {}
    for fn in m.functions:
        mm = re.fullmatch(rf"{name}Add(\w+)", fn)
        if mm:
            fields[mm.group(1)] = False
    for fn in m.functions:
        mm = re.fullmatch(rf"{name}Start(\w+)Vector", fn)
        if mm and mm.group(1) in fields:
            fields[mm.group(1)] = True
    # cross-check with the declared object size
    start = m.functions.get(f"{name}Start")
    if start is not None:
        n = None
        for c in ast.walk(start):
            if isinstance(c, ast.Call) and isinstance(c.func, ast.Attribute) and c.func.attr == "StartObject":
                n = c.args[0].value
        if n is not None and n < len(fields):  # deprecated schema slots leave gaps, never the other way round
            raise AnalysisError(f"{name}: StartObject({n}) but {len(fields)} Add functions")
    return fields


def run(repo, rep):
    rep.clause("C11-a", "every option field of every builtin options table is read and written back (serializer member list == generated schema fields)")
    rep.clause("C11-b", "operator codes, tensor types and option-table ids map both ways without loss (totality / injectivity)")
    rep.clause("C11-c", "subgraph inputs / outputs are written from the source-order lists")
    rep.clause("C11-d", "the writer restores what the reader changed (operand order, reshaped constants) and the reader owns a private copy of constant data")
    rep.clause("C11-d2", "every (type, custom code) operator code registered by the writer can be looked up again when the operator is written")
    rep.clause("C11-d3", "the reader owns a private copy of constant data (rewrites edit tensor values in place)")
    rep.clause("C11-e", "rewrites that may visit CPU-resident operators do not mutate them before checking run_on_npu (thorough tier)")
    rep.undecided("that each surviving operator appears exactly once in dependency order for every network; that the file parses with a plain flatbuffer parser")
    from .shared import none_skip_lint

    none_skip_lint(repo, rep, "C11-c", ['extract_npu_subgraphs', 'nn_graph', 'pass_packing', 'rewrite_graph'])
    from .shared import truthiness_lint

    truthiness_lint(repo, rep, "C11-d", ['tflite_writer', 'tflite_reader', 'tflite_mapping'])
    from .shared import mirror_families

    mirror_families(repo, rep, "C11-d", {('operation', 'res', 'self'): 'Operation.clone'})
    tm = repo.mod("tflite_mapping")
    rule_serializers(repo, rep, tm)
    rule_maps(repo, rep, tm)
    rule_interface(repo, rep)
    rule_pairing(repo, rep)
    rule_round5(repo, rep)
    rule_no_tensor_rename(repo, rep)
    rule_folded_constant_dtype(repo, rep)
    from .shared import binding_stem_lint

    rep.clause("C11-n", "locals named after one side of an operator (ifm_* / ofm_*) in the rewrites that decide whether a memory-only operator is bypassed or copied are read from that side "
               "(a CPU producer of the IFM must keep its output tensor)")
    if binding_stem_lint(repo, rep, "C11-n", ["graph_optimiser_util"]) < 3:
        raise AnalysisError("binding stems in graph_optimiser_util: fewer than 3 found")
    rule_rewrites_of_unplaced_operators(repo, rep)
    rule_round10(repo, rep)
    rep.clause("C11-y", "reader and writer agree on the identity of an Ethos-U operator: custom code and options are both tested before an operator counts as an existing NPU operator; any other CUSTOM operator is passed through")
    rule_existing_npu_op_identity(repo, rep)
    rule_overwritten_options(repo, rep)
    rule_quant_record_kept(repo, rep)
    rule_pass_order(repo, rep)
    rule_before_placement(repo, rep)
    rule_gate(repo, rep)
    rule_round3(repo, rep)
    rule_option_names(repo, rep, tm)
    rule_quant_clone(repo, rep)
    if rep.tier == "thorough":
        rule_unguarded_rewrites(repo, rep)


# ------------------------------------------------------------------ a


def rule_serializers(repo, rep, tm):
    env = {}
    for nm in ("fused_act", "padding"):
        v = tm.assign(nm)
        if isinstance(v, ast.Tuple) and isinstance(v.elts[0], ast.Constant):
            env[nm] = v.elts[0].value
    if set(env) != {"fused_act", "padding"}:
        raise AnalysisError("fused_act / padding member tuples not recognised")
    n = 0
    seen = set()
    for call in ast.walk(tm.tree):
        if not (isinstance(call, ast.Call) and call_name(call) == "OptionsSerializer" and call.args and isinstance(call.args[0], ast.Constant)):
            continue
        name = call.args[0].value
        members = []
        if len(call.args) > 1:
            mt = call.args[1]
            if not isinstance(mt, (ast.Tuple, ast.List)):
                raise AnalysisError(f"OptionsSerializer({name}): member list not a literal")
            for e in mt.elts:
                if isinstance(e, ast.Constant):
                    members.append((e.value, False))
                elif isinstance(e, ast.Name) and e.id in env:
                    members.append((env[e.id], False))
                elif isinstance(e, ast.Tuple) and isinstance(e.elts[0], ast.Constant):
                    members.append((e.elts[0].value, len(e.elts) == 2))
                else:
                    raise AnalysisError(f"OptionsSerializer({name}): member {norm(e)} not recognised")
        key = (name, tuple(members))
        if key in seen:
            continue
        seen.add(key)
        fields = schema_fields(repo, name)
        site = f"{TM}:builtin_operator_map[{name}]"
        if fields is None:
            rep.bad("C11-a", site, f"options table {name} has a generated class", "no module ethosu/vela/tflite/" + name + ".py")
            continue
        n += 1
        got = {camel(m): vec for m, vec in members}
        missing = sorted(set(fields) - set(got))
        extra = sorted(set(got) - set(fields))
        rep.check(not missing, "C11-a", site, f"{name}: every schema field is in the serializer member list",
                  f"schema fields {missing} are not (de)serialised: a CPU-resident operator loses them (reset to default) when the model is written")
        rep.check(not extra, "C11-a", site, f"{name}: every serializer member is a schema field",
                  f"members {extra} are not fields of the table (accessor or typo): reading or writing the table fails")
        for f, vec in got.items():
            if f in fields and fields[f] != vec and fields[f]:
                rep.bad("C11-a", site, f"{name}.{f} is a vector field", "serialised as a scalar")
    rep.check(n >= 100, "C11-a", TM, "options serializers enumerated", str(n))
    rep.floor("C11-a", 200)
    # the (de)serializer handles every member it is given
    os_ = tm.func("OptionsSerializer.serialize")
    loops = [l for l in ast.walk(os_) if isinstance(l, ast.For) and norm(l.iter) == "self.members"]
    rep.check(len(loops) == 1 and any("ser_attrs.append((camelcase_mem, a))" == norm(c) for c in calls_in(loops[0], "ser_attrs.append")), "C11-a", f"{TM}:OptionsSerializer.serialize",
              "every member is serialised", "")
    l2 = [l for l in ast.walk(os_) if isinstance(l, ast.For) and norm(l.iter) == "ser_attrs"]
    rep.check(len(l2) == 1 and "self.name + 'Add' + camelcase_mem" in norm(l2[0]), "C11-a", f"{TM}:OptionsSerializer.serialize", "every serialised member is added to the table", "")
    od = tm.func("OptionsSerializer.deserialize")
    loops = [l for l in ast.walk(od) if isinstance(l, ast.For) and norm(l.iter) == "self.members"]
    rep.check(len(loops) == 1 and any(norm(s.targets[0]) == "attrs[underscore_mem]" for s in ast.walk(loops[0]) if isinstance(s, ast.Assign)), "C11-a", f"{TM}:OptionsSerializer.deserialize",
              "every member is read into attrs under its own name", "")


# ------------------------------------------------------------------ b


def rule_maps(repo, rep, tm):
    bo = enum_of(repo, "tflite.BuiltinOperator", "BuiltinOperator")
    bm = tm.assign("builtin_operator_map")
    if not isinstance(bm, ast.Dict):
        raise AnalysisError("builtin_operator_map not a dict literal")
    keys = [dotted(k).split(".")[-1] for k in bm.keys]
    ops = [dotted(v.elts[0]) for v in bm.values if isinstance(v, ast.Tuple)]
    site = f"{TM}:builtin_operator_map"
    placeholder = {"PLACEHOLDER_FOR_GREATER_OP_CODES"}
    missing = sorted(set(bo) - set(keys) - placeholder)
    rep.check(not missing, "C11-b", site, "every BuiltinOperator has a mapping", f"unmapped operator codes {missing}")
    rep.check(len(keys) == len(set(keys)), "C11-b", site, "no duplicate operator key", "")
    dup = sorted({o for o in ops if ops.count(o) > 1})
    rep.check(not dup, "C11-b", site, "internal Op is unique per operator code (builtin_operator_inv_map is a true inverse)", f"duplicate Ops {dup}")
    # option names resolve to imported modules
    imported = set(tm.imports)
    for call in ast.walk(bm):
        if isinstance(call, ast.Call) and call_name(call) == "OptionsSerializer":
            nm = call.args[0].value
            rep.check(nm in imported, "C11-b", site, f"options table {nm} is imported (globals()[name] resolves)", "module not imported")
    tt = enum_of(repo, "tflite.TensorType", "TensorType")
    for mapname in ("datatype_map", "datatype_map_numpy"):
        d = tm.assign(mapname)
        ks = {dotted(k).split(".")[-1] for k in d.keys}
        missing = sorted(set(tt) - ks)
        rep.check(not missing, "C11-b", f"{TM}:{mapname}", f"{mapname} covers every TensorType", f"tensor types {missing} cannot be read (KeyError)")
    # rows of the numpy view table: a sized numeric tensor type is viewed through the numpy type of the same name
    d_np = tm.assign("datatype_map_numpy")
    n_rows = 0
    for k, v in zip(d_np.keys, d_np.values):
        kn = dotted(k).split(".")[-1]
        if re.fullmatch(r"(U?INT|FLOAT|COMPLEX)\d+", kn):
            n_rows += 1
            rep.check(str(norm(v)) in (f"np.{kn.lower()}", f"numpy.{kn.lower()}"), "C11-s", f"{TM}:datatype_map_numpy", f"TensorType.{kn} is viewed as np.{kn.lower()}",
                      f"TensorType.{kn}: {str(norm(v))}: constant buffers of this type are reinterpreted (negative int16 values arrive as v + 65536; a folded QUANTIZE saturates to 32767 and the written constant data differ from the source)")
    if n_rows < 10:
        raise AnalysisError(f"datatype_map_numpy: {n_rows} sized numeric rows")
    bopt = enum_of(repo, "tflite.BuiltinOptions", "BuiltinOptions")
    d = tm.assign("builtin_options_map")
    ks = {dotted(k).split(".")[-1] for k in d.keys}
    missing = sorted(set(bopt) - ks - {"NONE"})
    rep.check(not missing, "C11-b", f"{TM}:builtin_options_map", "builtin_options_map covers every BuiltinOptions id", f"missing {missing}")
    vals = [norm(v) for v in d.values]
    rep.check(len(vals) == len(set(vals)), "C11-b", f"{TM}:builtin_options_map", "option classes are unique (inverse map is well defined)", "")
    rep.floor("C11-b", 120)


# ------------------------------------------------------------------ c


def rule_interface(repo, rep):
    tw = repo.mod("tflite_writer")
    f = tw.func("TFLiteSerialiser.serialise_subgraph")
    site = f"{TW}:TFLiteSerialiser.serialise_subgraph"
    inp = [s for s in walk_no_nested(f) if isinstance(s, ast.Assign) and norm(s.targets[0]) == "inputs"]
    ok = len(inp) == 1 and isinstance(inp[0].value, ast.ListComp) and norm(inp[0].value.generators[0].iter) == "sg.original_inputs" and norm(inp[0].value.elt) == "self.tensor_map_sg[tens]"
    rep.check(ok, "C11-c", site, "written subgraph inputs iterate sg.original_inputs (source order, unused inputs kept)", norm(inp[0].value) if inp else "missing")
    io = calls_in(f, "self.write_int_vector")
    rep.check(any(norm(c.args[0]) == "inputs" for c in io), "C11-c", site, "the inputs vector written is that list", "")
    outs = [c for c in io if "sg.output_tensors" in norm(c.args[0])]
    ok = len(outs) == 1 and isinstance(outs[0].args[0], ast.ListComp) and norm(outs[0].args[0].generators[0].iter) == "sg.output_tensors"
    rep.check(ok, "C11-c", site, "written subgraph outputs iterate sg.output_tensors in order", "")
    ts = [s for s in walk_no_nested(f) if isinstance(s, ast.Assign) and norm(s.targets[0]) == "tensor_set"]
    _v = ts[0].value if len(ts) == 1 else None
    _dc = isinstance(_v, ast.DictComp) and isinstance(_v.key, ast.Name) and len(_v.generators) == 1 and norm(_v.generators[0].target) == _v.key.id and norm(_v.generators[0].iter) == "sg.original_inputs" and not _v.generators[0].ifs
    rep.check(len(ts) == 1 and (norm(ts[0].value) in ("set(sg.original_inputs)", "dict.fromkeys(sg.original_inputs)") or _dc), "C11-c", site, "all original inputs are serialised as tensors even when unreferenced", "")
    # single writer of original_inputs
    writers = []
    for m in repo.core_modules():
        for n in ast.walk(m.tree):
            if isinstance(n, (ast.Assign, ast.AugAssign)):
                for t in (n.targets if isinstance(n, ast.Assign) else [n.target]):
                    if isinstance(t, ast.Attribute) and t.attr == "original_inputs":
                        fn = m.enclosing_function(n)
                        writers.append((m.name, m.qualname_of(fn) if fn else "<module>", norm(n)))
            if isinstance(n, ast.Call) and isinstance(n.func, ast.Attribute) and n.func.attr in ("append", "remove", "insert", "pop", "extend", "sort", "clear") and norm(n.func.value).endswith("original_inputs"):
                fn = m.enclosing_function(n)
                writers.append((m.name, m.qualname_of(fn) if fn else "<module>", norm(n)))
    allowed = {("nn_graph", "Subgraph.__init__"), ("tflite_reader", "TFLiteSubgraph.__init__"), ("tflite_reader", "TFLiteGraph.__init__"), ("tosa_reader", "TosaSubgraph.__init__")}
    for mname, q, txt in writers:
        rep.check((mname, q) in allowed or mname.startswith("tosa"), "C11-c", f"ethosu/vela/{mname}.py:{q}", f"writer of original_inputs: {txt[:80]}", "interface list modified after reading")
    tr = repo.mod("tflite_reader")
    for q in tr.functions:
        fn = tr.functions[q]
        for s in ast.walk(fn):
            if isinstance(s, ast.Assign) and norm(s.targets[0]).endswith("original_inputs"):
                rep.check("input" in norm(s.value).lower(), "C11-c", f"{TR}:{q}", f"original_inputs taken from the flatbuffer inputs: {norm(s)[:90]}", "")
    # operands are positional: an absent optional input is written as -1, never dropped (bias of a convolution, the axis
    # operand of a reduction ... are found by index)
    so = tw.func("TFLiteSerialiser.serialise_operator")
    osite = f"{TW}:TFLiteSerialiser.serialise_operator"
    comps = [c for c in ast.walk(so) if isinstance(c, ast.ListComp) and len(c.generators) == 1 and str(norm(c.generators[0].iter)) == "op.inputs"]
    if len(comps) != 1:
        raise AnalysisError("serialise_operator: list of input tensor indices not found")
    g_ = comps[0].generators[0]
    elt = comps[0].elt
    ok = not g_.ifs and ((isinstance(elt, ast.IfExp) and "-1" in (str(norm(elt.orelse)), str(norm(elt.body)))) or
                         (isinstance(elt, ast.Call) and isinstance(elt.func, ast.Attribute) and elt.func.attr == "get" and len(elt.args) == 2 and str(norm(elt.args[1])) == "-1"))
    rep.check(ok, "C11-c", osite, "one index per entry of op.inputs: absent operands are written as -1 in place",
              f"`{str(norm(comps[0]))[:120]}`: an absent optional operand is dropped and the operands behind it move up one position")
    # flatbuffer vectors are built back to front (Prepend*): every vector writer feeds the builder the reversed sequence
    nvec = 0
    for m_, mn in ((repo.mod("tflite_mapping"), "tflite_mapping"), (tw, "tflite_writer")):
        for q, fn in m_.functions.items():
            for lp in ast.walk(fn):
                if not isinstance(lp, ast.For):
                    continue
                pre = [c for st in lp.body for c in ast.walk(st) if isinstance(c, ast.Call) and isinstance(c.func, ast.Attribute) and c.func.attr.startswith("Prepend")
                       and c.args and str(norm(c.args[0])) == str(norm(lp.target))]
                if not pre:
                    continue
                nvec += 1
                it = lp.iter
                rev = (isinstance(it, ast.Subscript) and str(norm(it.slice)) == "::-1") or (isinstance(it, ast.Call) and call_name(it) == "reversed")
                rep.check(rev, "C11-c", f"ethosu/vela/{mn}.py:{q}", f"{pre[0].func.attr} loop runs over the reversed sequence (the builder fills vectors from the end)",
                          f"iterates `{str(norm(it))}`: the vector is written back to front, so operand / shape / subgraph-interface order is reversed in the output file")
    if nvec < 7:
        raise AnalysisError(f"flatbuffer vector writers: only {nvec} Prepend loops found")
    # the subgraph's output list keeps its order: tensors are replaced in place or removed, never re-appended
    nout = 0
    for m in repo.core_modules():
        for n_ in ast.walk(m.tree):
            fn = None
            if isinstance(n_, ast.Call) and isinstance(n_.func, ast.Attribute) and str(norm(n_.func.value)).endswith(".output_tensors") and \
                    n_.func.attr in ("append", "insert", "extend", "sort", "reverse", "pop", "remove", "clear"):
                fn = m.enclosing_function(n_)
                recv = str(norm(n_.func.value)).rsplit(".", 1)[0]
                nout += 1
                rep.check(n_.func.attr == "remove" or recv == "npu_subgraph", "C11-c", f"ethosu/vela/{m.name}.py:{m.qualname_of(fn) if fn else '<module>'}",
                          f"`{str(norm(n_))[:80]}` keeps the order of the model's outputs (removal, or a freshly built NPU subgraph)",
                          "re-ordering mutation of a subgraph's output list: the written model's output k is no longer the source model's output k")
            if isinstance(n_, ast.Assign) and len(n_.targets) == 1 and isinstance(n_.targets[0], ast.Attribute) and n_.targets[0].attr == "output_tensors":
                fn = m.enclosing_function(n_)
                v = n_.value
                nout += 1
                inplace = isinstance(v, ast.ListComp) and len(v.generators) == 1 and not v.generators[0].ifs and str(norm(v.generators[0].iter)) == str(norm(n_.targets[0]))
                fresh = str(norm(v)) == "[]" or (m.name.endswith("_reader") and str(norm(v)).endswith(".outputs"))
                rep.check(inplace or fresh, "C11-c", f"ethosu/vela/{m.name}.py:{m.qualname_of(fn) if fn else '<module>'}",
                          f"`{str(norm(n_))[:90]}`: position-preserving replacement (or the reader's / constructor's initial list)", "the output list is rebuilt in a different order")
    if nout < 6:
        raise AnalysisError(f"output_tensors writers: only {nout} found")
    rep.floor("C11-c", 20)


# ------------------------------------------------------------------ d


def rule_pairing(repo, rep):
    tw = repo.mod("tflite_writer")
    tr = repo.mod("tflite_reader")
    init = tw.func("TFLiteSerialiser.__init__")
    site = f"{TW}:TFLiteSerialiser.__init__"
    # reader: clone_and_reshape for conv/depthwise/FC; writer restores src_tensor for every non-ifm input
    po = tr.func("TFLiteSubgraph.parse_operator")
    # the operator under construction is whatever local the function binds to `Operation(..)`; the texts below are written with `op`
    _opn = [st_.targets[0].id for st_ in ast.walk(po) if isinstance(st_, ast.Assign) and isinstance(st_.targets[0], ast.Name) and isinstance(st_.value, ast.Call) and call_name(st_.value) == "Operation"]
    if len(_opn) != 1:
        raise AnalysisError("parse_operator: the operator variable was not found")

    def ptxt(node_):
        return re.sub(rf"\b{re.escape(_opn[0])}\b", "op", str(norm(node_)))

    def disjuncts(t_):
        """canonical set of the disjuncts of a test: `C == x` is written `x == C`"""
        vals = t_.values if isinstance(t_, ast.BoolOp) and isinstance(t_.op, ast.Or) else [t_]
        out = set()
        for v_ in vals:
            if isinstance(v_, ast.Compare) and len(v_.ops) == 1 and isinstance(v_.ops[0], ast.Eq) and ptxt(v_.left).startswith("Op."):
                out.add(f"{ptxt(v_.comparators[0])} == {ptxt(v_.left)}")
            else:
                out.add(ptxt(v_))
        return out

    WANT_CONV = {"op.type.is_depthwise_conv2d_op()", "op.type.is_conv2d_op()", "op.type == Op.FullyConnected"}
    rg = [n for n in ast.walk(po) if isinstance(n, ast.If) and disjuncts(n.test) == WANT_CONV]
    rep.check(len(rg) == 1 and len(calls_in(rg[0], "clone_and_reshape_tensor")) == 3, "C11-d", f"{TR}:TFLiteSubgraph.parse_operator", "reader clones/reshapes weights and bias of conv / depthwise / FC", "")
    wg = [n for n in ast.walk(init) if isinstance(n, ast.If) and {str(norm(v_)) if not (isinstance(v_, ast.Compare) and str(norm(v_.left)).startswith("Op.")) else f"{str(norm(v_.comparators[0]))} == {str(norm(v_.left))}"
                                                                    for v_ in (n.test.values if isinstance(n.test, ast.BoolOp) and isinstance(n.test.op, ast.Or) else [n.test])} == WANT_CONV]
    ok = len(wg) == 1
    if ok:
        loops = [l for l in ast.walk(wg[0]) if isinstance(l, ast.For)]
        ok = len(loops) == 1 and norm(loops[0].iter) == "enumerate(op.inputs)"
        rep.check(ok, "C11-d", site, "restore loop ranges over all operands (enumerate(op.inputs))", norm(loops[0].iter) if loops else "missing")
        if ok:
            g = [n for n in ast.walk(loops[0]) if isinstance(n, ast.If)]
            t = norm(g[0].test) if g else ""
            rep.check("inp != op.ifm" in t and "inp.src_tensor is not None" in t and "inp is not None" in t, "C11-d", site,
                      "the feature-map operand is excluded by identity (inp != op.ifm), whatever its position; only cloned operands are restored", t)
            rep.check(any(norm(s) == "op.inputs[idx] = inp.src_tensor" for s in ast.walk(loops[0]) if isinstance(s, ast.Assign)), "C11-d", site, "cloned operand replaced by its source tensor", "")
    else:
        rep.bad("C11-d", site, "writer-side restore block for conv / depthwise / FC", "not found (reader and writer operator sets differ)")
    # operand order: reader align_tensor_indices_to_nng <-> writer align_nng_inputs_to_tflite
    rep.check(len(calls_in(po, "align_tensor_indices_to_nng")) == 1, "C11-d", f"{TR}:TFLiteSubgraph.parse_operator", "reader converts operand order to nng order", "")
    al = calls_in(init, "self.align_nng_inputs_to_tflite")
    ok = len(al) == 1
    if ok:
        g = [n for n in ast.walk(init) if isinstance(n, ast.If) and any(c is al[0] for c in ast.walk(n))]
        ok = any(norm(x.test) == "op.type not in self.ops_to_ignore" for x in g)
    rep.check(ok, "C11-d", site, "writer converts operand order back for every operator it writes", "")
    f = tw.func("TFLiteSerialiser.align_nng_inputs_to_tflite")
    rep.check("align_inputs_indices(from_indices, to_indices, op.inputs)" in norm(f) and "op.type.info.indices" in norm(f) and "builtin_operator_inv_map[op.type]" in norm(f), "C11-d",
              f"{TW}:TFLiteSerialiser.align_nng_inputs_to_tflite", "order restored from nng indices to the TFLite indices of the same operator", "")
    # operator codes carry type, custom code and version
    oc = [s for s in ast.walk(init) if isinstance(s, ast.Assign) and norm(s.targets[0]) == "self.operator_codes"]
    rep.check(len(oc) == 1 and "op.type" in norm(oc[0].value) and "custom_code" in norm(oc[0].value) and "op.version" in norm(oc[0].value), "C11-d", site,
              "operator codes keep (type, custom code, version)", "")
    _vsrc = {t_.elts[-1].id for st_ in ast.walk(po) if isinstance(st_, ast.Assign) and "operator_codes[" in str(norm(st_.value)) for t_ in st_.targets if isinstance(t_, ast.Tuple) and isinstance(t_.elts[-1], ast.Name)}
    rep.check(any(isinstance(s, ast.Assign) and ptxt(s.targets[0]) == "op.version" and isinstance(s.value, ast.Name) and s.value.id in _vsrc for s in ast.walk(po)), "C11-d", f"{TR}:TFLiteSubgraph.parse_operator", "reader keeps the operator version", "")
    # operator-code map: the writer registers one OperatorCode per (type, custom code, version) tuple of self.operator_codes and
    # looks the index up again per operator. The map's key has to contain every component that distinguishes two tuples: the
    # type, the custom code for third-party custom operators, and the version (two CPU operators of one type but different
    # versions are two codes). Intermediate dicts must accumulate, not be recreated.
    soc = tw.func("TFLiteSerialiser.serialise_operator_code")

    def chain_keys(t):
        keys = []
        while isinstance(t, ast.Subscript):
            k = t.slice
            keys = ([str(norm(e)) for e in k.elts] if isinstance(k, ast.Tuple) else [str(norm(k))]) + keys
            t = t.value
        return (keys if str(norm(t)) == "self.operator_code_map" else None)

    stores = []
    for st in ast.walk(soc):
        if isinstance(st, ast.Assign) and isinstance(st.targets[0], ast.Subscript) and (isinstance(st.value, ast.Tuple) or (isinstance(st.value, ast.Dict) and st.value.keys)):
            ks = chain_keys(st.targets[0])
            if ks is not None and isinstance(st.value, ast.Dict):
                k0 = st.value.keys[0]
                ks = ks + ([str(norm(e)) for e in k0.elts] if isinstance(k0, ast.Tuple) else [str(norm(k0))])
            if ks is not None:
                in_custom = any(isinstance(n_, ast.If) and norm(n_.test) == "op_type == Op.Custom" and any(x is st for b in n_.body for x in ast.walk(b)) for n_ in ast.walk(soc))
                stores.append((in_custom, ks, st))
    if len(stores) < 2:
        raise AnalysisError("serialise_operator_code: operator_code_map registrations not found")
    for in_custom, ks, st in stores:
        need = {"op_type", "version"} | ({"custom_code"} if in_custom else set())
        rep.check(need <= set(ks), "C11-d2", f"{TW}:TFLiteSerialiser.serialise_operator_code",
                  f"the {'third-party custom' if in_custom else 'builtin'} operator code is registered under every component that distinguishes two codes ({sorted(need)})",
                  f"`{str(norm(st.targets[0]))}` omits {sorted(need - set(ks))}: two operator codes that differ only in it share one entry, the later one wins, and operators of the other "
                  "code are written with its index (demonstrated for the version: L2_NORMALIZATION v1 and v2 on the CPU are both written as v2)")
    resets = [st for st in ast.walk(soc) if isinstance(st, ast.Assign) and isinstance(st.targets[0], ast.Subscript) and chain_keys(st.targets[0]) is not None and isinstance(st.value, (ast.Dict, ast.Call))
              and not any(isinstance(n_, ast.If) and "not in self.operator_code_map" in str(norm(n_.test)) and any(x is st for b in n_.body for x in ast.walk(b)) for n_ in ast.walk(soc))]
    rep.check(not resets, "C11-d2", f"{TW}:TFLiteSerialiser.serialise_operator_code", "inner dicts of the map are created once (under a `not in` test or with setdefault), never recreated per code",
              f"{[str(norm(r_))[:60] for r_ in resets]}: only the last custom code survives -> KeyError when the operator is written")
    so = tw.func("TFLiteSerialiser.serialise_operator")
    looks = [x for x in ast.walk(so) if isinstance(x, ast.Subscript) and isinstance(x.ctx, ast.Load) and chain_keys(x) is not None and not isinstance(tw.parents.get(x), ast.Subscript)]
    if len(looks) < 2:
        raise AnalysisError("serialise_operator: operator_code_map lookups not found")
    for x in looks:
        ks = chain_keys(x)
        in_custom = "custom_code" in str(norm(x))
        reg = [k_ for c_, k_, _ in stores if c_ == in_custom]
        as_lookup = {"op_type": "op.type", "version": "op.version", "custom_code": "op.attrs.get('custom_code', '')"}
        same_shape = bool(reg) and [as_lookup.get(k_, k_) for k_ in reg[0]] == ks
        has = "op.type" in ks
        rep.check(same_shape and has, "C11-d2", f"{TW}:TFLiteSerialiser.serialise_operator", f"lookup `{str(norm(x))[:80]}` uses the key components of the registration ({reg[0] if reg else '?'})",
                  "lookup and registration keys differ: KeyError, or the wrong operator code, when the operator is written")
    # reader owns its constant data (rewrites edit tensor values in place)
    pt = tr.func("TFLiteSubgraph.parse_tensor")
    vals = [s for s in ast.walk(pt) if isinstance(s, ast.Assign) and norm(s.targets[0]) == "tens.values"]
    for s in vals:
        v = s.value
        if isinstance(v, ast.Constant) and v.value is None:
            continue
        ok = isinstance(v, ast.Call) and call_name(v) in ("np.array", "numpy.array", "np.copy") or (isinstance(v, ast.Call) and isinstance(v.func, ast.Attribute) and v.func.attr == "copy")
        rep.check(ok, "C11-d3", f"{TR}:TFLiteSubgraph.parse_tensor", f"constant data is copied out of the model buffer: {norm(s)[:90]}",
                  "tensor values alias the flatbuffer: tensors sharing a buffer share memory and in-place rewrites leak into CPU-resident operators")
    # custom options round trip
    tm = repo.mod("tflite_mapping")
    cd = tm.func("CustomOptionsSerializer.deserialize")
    cs = tm.func("CustomOptionsSerializer.serialize")
    rep.check('attrs["custom_options"] = custom_options'.replace('"', "'") in norm(cd) and "attrs.get('custom_options', [])" in norm(cs), "C11-d", f"{TM}:CustomOptionsSerializer",
              "third-party custom options bytes are kept and written back", "")
    rep.check("attrs['custom_options_format'] = op_data.CustomOptionsFormat()" in norm(cd) and "attrs.get('custom_options_format'" in norm(cs), "C11-d", f"{TM}:CustomOptionsSerializer",
              "custom options format is kept", "")
    rep.floor("C11-d", 10)
    rep.floor("C11-d2", 2)
    rep.floor("C11-d3", 1)


# ------------------------------------------------------------------ e (thorough)

MUTATORS = {"set_input_tensor", "set_output_tensor", "set_ifm_ofm_shapes", "add_input_tensor", "replace_ifm", "set_activation_lut"}


def rule_option_names(repo, rep, tm):
    """An operator is written with the option table the schema names after it: if BuiltinOptions has a member
    <CamelCase(operator)>Options, the operator's serializer must name exactly that table (the table id is written
    into builtin_options_type, so a sibling table with the same layout reads back but is another operator's)."""
    bo = ast.parse(repo.read_text("ethosu/vela/tflite/BuiltinOptions.py"))
    low = {n.targets[0].id.lower(): n.targets[0].id for c in bo.body if isinstance(c, ast.ClassDef) for n in c.body if isinstance(n, ast.Assign) and isinstance(n.targets[0], ast.Name)}
    if len(low) < 100:
        raise AnalysisError("BuiltinOptions members not found")
    n = 0
    for st in tm.tree.body:
        if isinstance(st, ast.Assign) and norm(st.targets[0]) == "builtin_operator_map" and isinstance(st.value, ast.Dict):
            for k, v in zip(st.value.keys, st.value.values):
                if not (isinstance(v, ast.Tuple) and len(v.elts) >= 2):
                    continue
                op = norm(k).split(".")[-1]
                ser = v.elts[1]
                nm = ser.args[0].value if isinstance(ser, ast.Call) and ser.args and isinstance(ser.args[0], ast.Constant) else None
                want = low.get("".join(w.capitalize() for w in op.split("_")).lower() + "options")
                if want is None:
                    continue
                n += 1
                rep.check(nm == want, "C11-b", f"ethosu/vela/tflite_mapping.py:builtin_operator_map[{op}]", f"{op} is (de)serialised with its own option table {want}",
                          f"uses {nm}: the operator is written back with builtin_options_type = {nm}, another operator's table")
    rep.check(n >= 60, "C11-b", "ethosu/vela/tflite_mapping.py:builtin_operator_map", "operators with an option table named after them", str(n))


def rule_quant_clone(repo, rep):
    """QuantizationParameters.clone copies every slot from the same-named slot (the CPU-visible twin of an NPU-produced
    tensor is such a clone, and its min / max / scale / zero point are written to the output file)."""
    t = repo.mod("tensor")
    cls = t.classes["QuantizationParameters"]
    slots = None
    for st in cls.body:
        if isinstance(st, ast.Assign) and norm(st.targets[0]) == "__slots__":
            slots = try_fold(st.value)
    cl = t.func("QuantizationParameters.clone")
    if not slots:
        raise AnalysisError("QuantizationParameters.__slots__ not found")
    got = {}
    for st in ast.walk(cl):
        if isinstance(st, ast.Assign) and isinstance(st.targets[0], ast.Attribute) and norm(st.targets[0].value) == "res":
            got.setdefault(st.targets[0].attr, []).append(st.value)
    site = "ethosu/vela/tensor.py:QuantizationParameters.clone"
    for sl in slots:
        vals = got.get(sl, [])
        ok = bool(vals) and all(any(isinstance(a, ast.Attribute) and norm(a) == f"self.{sl}" for a in ast.walk(v)) and
                                not any(isinstance(a, ast.Attribute) and norm(a.value) == "self" and a.attr != sl and a.attr in slots for a in ast.walk(v)) for v in vals)
        rep.check(ok, "C11-d", site, f"clone copies slot `{sl}` from self.{sl}", "; ".join(norm(v) for v in vals) or "slot not copied")
    rep.check(len(slots) >= 8, "C11-d", site, "slots enumerated", str(len(slots)))


def rule_round3(repo, rep):
    from .shared import require_conjuncts

    # element types: DataType.<kind><bits> is constructed with that many bits (the inverse type map is keyed by (kind, bits):
    # two names with equal bits collide and the later row wins when tensors are written)
    dt = repo.mod("data_type")
    n = 0
    for st in dt.tree.body:
        if isinstance(st, ast.Assign) and isinstance(st.targets[0], ast.Attribute) and norm(st.targets[0].value) == "DataType" and isinstance(st.value, ast.Call) and call_name(st.value) == "DataType":
            m_ = re.fullmatch(r"[a-z]+?(\d+)", st.targets[0].attr)
            if not m_ or len(st.value.args) < 2:
                continue
            n += 1
            bits = try_fold(st.value.args[1])
            rep.check(bits == int(m_.group(1)), "C11-b", "ethosu/vela/data_type.py", f"DataType.{st.targets[0].attr} has {m_.group(1)} bits", f"constructed with {bits} bits: it compares and hashes equal to its {bits}-bit sibling, "
                      "so the writer's inverse type map sends one of the two element types to the other's TensorType")
    rep.check(n >= 12, "C11-b", "ethosu/vela/data_type.py", "sized element types found", str(n))
    # a slice read is folded into the consumers only if *every* consumer can take it
    go = repo.mod("tflite_graph_optimiser")
    rs = go.func("remove_SplitSliceRead")
    q = [c for c in ast.walk(rs) if isinstance(c, ast.Call) and isinstance(c.func, ast.Name) and c.func.id in ("all", "any") and c.args and isinstance(c.args[0], ast.GeneratorExp)
         and "consumer_list" in str(norm(c.args[0].generators[0].iter))]
    if len(q) != 1:
        raise AnalysisError("remove_SplitSliceRead: quantifier over the consumers not found")
    site = "ethosu/vela/tflite_graph_optimiser.py:remove_SplitSliceRead"
    rep.check(q[0].func.id == "all", "C11-e", site, "the slice read moves into the consumers only if all of them qualify", "quantifier is any(): the producer is removed although a CPU consumer still needs the sliced tensor, which nothing produces any more")
    require_conjuncts(rep, "C11-e", site, q[0].args[0].elt, ["consumer is not None", "consumer.run_on_npu", "consumer.type not in memory_only_ops"], "a consumer qualifies",
                      "a CPU-resident (or absent) consumer is handed a read offset it never applies")
    # an activation is only folded into an operator that runs on the NPU [shared with C16-e]
    from . import c16

    rep.run_borrowed(c16, {"C16-e": "C11-e"}, repo)


def rule_gate(repo, rep):
    """rewrite_graph_pre_order.visit_op: the gate `res.run_on_npu or rewrite_unsupported` is evaluated before every single
    rewrite (a rewrite - the supported-operator check first of all - may clear run_on_npu, and the following rewrites of
    the same list must then leave the operator alone)."""
    rep.clause("C11-f", "graph traversal re-evaluates `run_on_npu or rewrite_unsupported` before every single operator rewrite, so an operator sent to the CPU by one rewrite is not touched by the next")
    m = repo.mod("rewrite_graph")
    site = "ethosu/vela/rewrite_graph.py:rewrite_graph_pre_order.visit_op"
    vo = m.func("rewrite_graph_pre_order.visit_op")
    c = cfg_of(vo)
    gates = c.nodes_where(lambda n: n.kind == "test" and "run_on_npu" in norm(n.expr) and "rewrite_unsupported" in norm(n.expr))
    calls = c.nodes_where(lambda n: n.stmt is not None and isinstance(n.stmt, ast.Assign) and isinstance(n.stmt.value, ast.Call) and norm(n.stmt.value.func) == "rewrite" and n.kind != "test")
    if len(gates) != 1 or len(calls) != 1:
        raise AnalysisError(f"visit_op: gate / rewrite call not recognised (gates {len(gates)}, calls {len(calls)})")
    g, k = gates[0], calls[0]
    t = norm(c.nodes[g].expr)
    rep.check(t in ("res.run_on_npu or rewrite_unsupported", "rewrite_unsupported or res.run_on_npu"), "C11-f", site, "gate is `res.run_on_npu or rewrite_unsupported` on the current result", t)
    fs = c.branch_succ(g, False)
    on_true = c.dominates(g, k) and all(f != k and not c.path_avoiding(f, k, [g]) for f in fs)
    rep.check(on_true, "C11-f", site, "a rewrite runs only on the gate's true branch", "the rewrite call is reachable without the gate holding")
    rep.check(not c.path_avoiding(k, k, [g]), "C11-f", site, "between two rewrites of one operator the gate is evaluated again",
              "a path leads from one rewrite call to the next without passing the gate: after supported_operator_check has cleared run_on_npu, the remaining rewrites of the list still modify the CPU operator")
    rep.floor("C11-f", 3)


def rule_unguarded_rewrites(repo, rep):
    go = repo.mod("tflite_graph_optimiser")
    tg = go.func("tflite_optimise_graph")
    # passes run with rewrite_unsupported=True (explicit, or the default of rewrite_graph_pre_order)
    rw = repo.mod("rewrite_graph").func("rewrite_graph_pre_order")
    default_unsupported = None
    for a, d in zip(rw.args.args[-len(rw.args.defaults):], rw.args.defaults):
        if a.arg == "rewrite_unsupported":
            default_unsupported = bool(getattr(d, "value", None))
    if default_unsupported is None:
        raise AnalysisError("rewrite_unsupported default not found")
    lists = {}
    for s in ast.walk(tg):
        if isinstance(s, ast.Assign) and isinstance(s.targets[0], ast.Name) and isinstance(s.value, ast.List):
            lists[s.targets[0].id] = [norm(e) for e in s.value.elts]
    passes = []
    for c in calls_in(tg, "rewrite_graph_pre_order"):
        kw = {k.arg: k.value for k in c.keywords}
        ru = kw.get("rewrite_unsupported")
        unsupported = default_unsupported if ru is None else bool(getattr(ru, "value", True))
        if not unsupported:
            continue
        oplist = c.args[4] if len(c.args) > 4 else kw.get("op_rewrite_list")
        if oplist is None:
            continue
        if isinstance(oplist, ast.Name):
            names = lists.get(oplist.id, [])
        elif isinstance(oplist, ast.List):
            names = [norm(e) for e in oplist.elts]
        else:
            names = []
        passes += names
    n = 0
    for nm in sorted(set(passes)):
        if nm not in go.functions:
            continue
        f = go.functions[nm]
        c = cfg_of(f)
        params = [a.arg for a in f.args.args]
        opn = params[0] if params else "op"
        guards = [x.id for x in c.nodes[3:] if x.kind == "test" and "run_on_npu" in norm(x.expr)]
        effects = []
        for node in c.nodes[3:]:
            st = node.stmt
            if st is None or node.kind not in ("stmt",):
                continue
            for sub in ast.walk(st):
                if isinstance(sub, (ast.Assign, ast.AugAssign)):
                    for t in (sub.targets if isinstance(sub, ast.Assign) else [sub.target]):
                        if isinstance(t, ast.Attribute) and norm(t.value) == opn and t.attr in ("type", "attrs", "inputs", "outputs", "activation", "name", "forced_output_quantization"):
                            effects.append((node.id, norm(sub)[:80]))
                        if isinstance(t, ast.Subscript) and norm(t.value) in (f"{opn}.attrs", f"{opn}.inputs", f"{opn}.outputs"):
                            effects.append((node.id, norm(sub)[:80]))
                if isinstance(sub, ast.Call) and isinstance(sub.func, ast.Attribute) and norm(sub.func.value) == opn and sub.func.attr in MUTATORS:
                    effects.append((node.id, norm(sub)[:80]))
        for nid, txt in effects:
            n += 1
            guarded = any(c.dominates(g, nid) for g in guards)
            if guarded:
                rep.ok("C11-e", f"{GO}:{nm}", txt, "dominated by a run_on_npu test")
            else:
                rep.info("C11-e", f"{GO}:{nm}", txt, "mutation of the visited operator not dominated by a run_on_npu test (type tests on NPU-only patterns may make it unreachable for CPU operators: listed, not decided)")
    rep.extra["c11e_passes_with_unsupported"] = sorted(set(passes))


def rule_before_placement(repo, rep):
    """(g) An operator's placement is decided by supported_operator_check. Whatever rewrites an operator before that point also
    rewrites operators that are then rejected and written back as CPU operators. Only compile-time constant folding (allowed by the
    property) and rewrites that merely clear run_on_npu may run there."""
    rep.clause("C11-g", "no rewrite that changes an operator's options, operands or the quantisation of its constants runs before the supported-operator check decides its placement "
               "(operators rejected afterwards are written back and must be unchanged); constant folding and pure run_on_npu checks excepted")
    go = repo.mod("tflite_graph_optimiser")
    tg = go.func("tflite_optimise_graph")
    FOLDING = {
        "optimise_quantize": "folds QUANTIZE of a constant into a constant (compile-time folding is allowed by the property)",
        "convert_shape_op_to_constant_tensor": "folds SHAPE of a statically shaped tensor into a constant",
    }
    lists = {}
    for s in ast.walk(tg):
        if isinstance(s, ast.Assign) and isinstance(s.targets[0], ast.Name) and isinstance(s.value, ast.List):
            lists[s.targets[0].id] = list(s.value.elts)
    before = []
    found = False
    for c in sorted(calls_in(tg, "rewrite_graph_pre_order"), key=lambda c_: c_.lineno):
        kw = {k.arg: k.value for k in c.keywords}
        oplist = c.args[4] if len(c.args) > 4 else kw.get("op_rewrite_list")
        elts = lists.get(oplist.id, []) if isinstance(oplist, ast.Name) else (list(oplist.elts) if isinstance(oplist, ast.List) else [])
        for e in elts:
            if str(norm(e)) == "supported_operator_check":
                found = True
                break
            before.append(e)
        if found:
            break
    if not found:
        raise AnalysisError("tflite_optimise_graph: the pass containing supported_operator_check was not found")

    def candidates(e):
        if isinstance(e, ast.Name):
            return [e.id]
        if isinstance(e, ast.Call) and isinstance(e.func, ast.Name) and e.func.id in go.functions:
            # a factory: every function it can return
            return sorted({str(norm(r.value)) for r in ast.walk(go.functions[e.func.id]) if isinstance(r, ast.Return) and isinstance(r.value, ast.Name)})
        return []

    n = 0
    for e in before:
        for nm in candidates(e):
            f = go.functions.get(nm)
            if f is None:
                continue
            n += 1
            site = f"{GO}:{nm}"
            if nm in FOLDING:
                rep.ok("C11-g", site, f"{nm} runs before the supported-operator check", "constant folding: " + FOLDING[nm])
                continue
            opn = f.args.args[0].arg if f.args.args else "op"
            effects = []
            for sub in ast.walk(f):
                if isinstance(sub, (ast.Assign, ast.AugAssign)):
                    for t in (sub.targets if isinstance(sub, ast.Assign) else [sub.target]):
                        tt = str(norm(t))
                        if tt == f"{opn}.run_on_npu":
                            continue
                        if tt.startswith(opn + ".") or tt.startswith(opn + "["):
                            effects.append(str(norm(sub))[:70])
                if isinstance(sub, ast.Call) and isinstance(sub.func, ast.Attribute) and str(norm(sub.func.value)).startswith(opn + ".") and sub.func.attr in MUTATORS | {"update", "set_input_tensor", "set_output_tensor"}:
                    effects.append(str(norm(sub))[:70])
            rep.check(not effects, "C11-g", site, f"{nm} (run before the supported-operator check) leaves the operator as read",
                      f"mutates the operator: {effects[:3]} - an operator that the supported-operator check then rejects is written to the output file with these changes")
    if n < 2:
        raise AnalysisError(f"rewrites before supported_operator_check: only {n} found")
    rep.floor("C11-g", 2)


def rule_pass_order(repo, rep):
    """(h) pass_packing moves a CPU pass to the top of the schedule when it "only depends on sg.input_tensors". That has to be
    decided on all inputs of the pass: an operator with more operands than ifm / ifm2 (CONCATENATION, PACK, ADD_N, custom
    operators ...) may take a third operand from another pass, and then runs before its producer."""
    rep.clause("C11-h", "a CPU pass is hoisted above the other passes only if every one of its inputs is a subgraph input or a start-up constant (quantified over the pass's inputs, "
               "not only ifm / ifm2); the resource-variable exception aside")
    pp = repo.mod("pass_packing")
    f = pp.func("pack_into_passes")
    site = "ethosu/vela/pass_packing.py:pack_into_passes"
    apps = [c for c in ast.walk(f) if isinstance(c, ast.Call) and str(norm(c.func)) == "pass_list_top.append"]
    if len(apps) != 1:
        raise AnalysisError("pack_into_passes: pass_list_top.append not found")
    guard = None
    cur = apps[0]
    while cur is not None and cur is not f:
        par = pp.parents.get(cur)
        if isinstance(par, ast.If) and any(cur is b for b in par.body):
            guard = par
            break
        cur = par
    if guard is None:
        raise AnalysisError("pack_into_passes: condition of the hoisting not found")
    # disjuncts of the placement-independent part
    t = guard.test
    parts = conjuncts(t)
    dis = []
    for p_ in parts:
        if isinstance(p_, ast.BoolOp) and isinstance(p_.op, ast.Or):
            dis = list(p_.values)
    if not dis:
        raise AnalysisError("pack_into_passes: disjunction of the hoisting condition not recognised")
    n = 0
    for d_ in dis:
        txt = str(norm(d_))
        if "VarHandle" in txt or "ReadVariable" in txt or "CallOnce" in txt:
            rep.ok("C11-h", site, "VAR_HANDLE (creates the handle, no state) and CALL_ONCE (initialisation) may be hoisted (reviewed exception)", txt[:80])
            n += 1
            # READ_VARIABLE depends, through the resource, on every ASSIGN_VARIABLE that precedes it in the source: hoisting it is only sound
            # if the condition looks at the assignments (op_index of an AssignVariable, or a scan of the passes before it)
            if "ReadVariable" in txt:
                rep.check("AssignVariable" in str(norm(t)) or "AssignVariable" in "".join(str(norm(x)) for x in ast.walk(f) if isinstance(x, ast.Compare) and "op_index" in str(norm(x))),
                          "C11-h", site, "a READ_VARIABLE pass is hoisted only if no ASSIGN_VARIABLE precedes it in the source order",
                          f"`{txt[:90]}` hoists every READ_VARIABLE (demonstrated: VAR_HANDLE, CONV_2D, ASSIGN_VARIABLE(h, c), READ_VARIABLE(h), CUSTOM is written as "
                          "VAR_HANDLE, READ_VARIABLE, ethos-u, ASSIGN_VARIABLE, CUSTOM: the variable is read before it is assigned)")
            continue
        quant = [c for c in ast.walk(d_) if isinstance(c, ast.Call) and call_name(c) == "all" and c.args and isinstance(c.args[0], (ast.GeneratorExp, ast.ListComp))
                 and str(norm(c.args[0].generators[0].iter)) in ("ps.inputs", "ps.ops[0].inputs", "ps.primary_op.inputs")]
        n += 1
        rep.check(bool(quant), "C11-h", site, "the 'depends only on subgraph inputs' test ranges over all inputs of the pass",
                  f"`{txt[:110]}` looks at ifm / ifm2 only: a CPU operator whose other operand is produced by an earlier pass is scheduled before its producer "
                  "(demonstrated: x -> ADD (NPU) -> DEQUANTIZE -> CONCATENATION([af, y]) with y a graph input: AssertionError in build_pass_links)")
    if n < 2:
        raise AnalysisError("pack_into_passes: hoisting alternatives not recognised")
    rep.floor("C11-h", 2)


def rule_round5(repo, rep):
    """(i) the writer's buffer list accumulates over all subgraphs; the reader collapses only one-element quantisation vectors;
    a rewrite never edits a quantisation record it has not cloned."""
    from ..absint import Interp, Unknown

    rep.clause("C11-i", "constant data collected for earlier subgraphs is kept when the next one is serialised; per-axis quantisation vectors are kept as read (only length-1 vectors become scalars); "
               "rewrites edit quantisation records only after cloning them (the record may belong to an interface tensor or an operand of a CPU operator)")
    tw = repo.mod("tflite_writer")
    n = 0
    for q, fn in tw.functions.items():
        for st in ast.walk(fn):
            tg = (st.targets[0] if isinstance(st, ast.Assign) and len(st.targets) == 1 else (st.target if isinstance(st, ast.AugAssign) else None))
            if tg is not None and str(norm(tg)) == "self.buffers_to_write":
                n += 1
                ok = q.endswith("__init__") or isinstance(st, ast.AugAssign)
                rep.check(ok, "C11-i", f"{TW}:{q}", f"`{str(norm(st))[:70]}` keeps what earlier subgraphs stored (binding in __init__, extension elsewhere)",
                          "the list is re-bound while subgraphs are being serialised: buf_idx keeps counting across subgraphs, so the constant data already stored for earlier subgraphs "
                          "(constants of CPU operators, the Ethos-U command stream and weights) is written empty")
    if n < 2:
        raise AnalysisError("buffers_to_write writers not found")
    # reader: len1_array_to_scalar by interpretation on list stand-ins for the flatbuffer arrays
    tr = repo.mod("tflite_reader")
    from ..exprnorm import comparison

    l1 = tr.func("TFLiteSubgraph.len1_array_to_scalar")
    unwrap = [i_ for i_ in ast.walk(l1) if isinstance(i_, ast.If) and any(isinstance(b, ast.Return) and isinstance(b.value, ast.Subscript) and str(norm(b.value)) == "arr[0]" for b in i_.body)]
    if len(unwrap) != 1:
        raise AnalysisError("len1_array_to_scalar: the branch returning arr[0] was not found")
    n += 1
    rep.check(comparison(unwrap[0].test) == comparison(ast.parse("len(arr) == 1", mode="eval").body) and str(norm(l1.body[-1])) == "return arr", "C11-i", f"{TR}:TFLiteSubgraph.len1_array_to_scalar",
              "only a one-element array becomes a scalar (len(arr) == 1); longer arrays, equal entries included, are returned unchanged",
              f"collapses under `{str(norm(unwrap[0].test))}`: per-axis quantisation vectors with equal entries (always the all-zero zero points) are reduced to a scalar and written back as a one-element vector")
    # rewrites: a local bound to <tensor>.quantization (not a clone) is never written through
    n_al = 0
    for m in repo.core_modules():
        if m.name.startswith("tosa"):
            continue
        for q, fn in m.functions.items():
            alias = {}
            for st in walk_no_nested(fn):
                if isinstance(st, ast.Assign) and len(st.targets) == 1 and isinstance(st.targets[0], ast.Name):
                    if isinstance(st.value, ast.Attribute) and st.value.attr == "quantization":
                        alias[st.targets[0].id] = (str(norm(st.value)), st.lineno)
                        n_al += 1
                    elif st.targets[0].id in alias:
                        del alias[st.targets[0].id]
            for st in walk_no_nested(fn):
                if isinstance(st, (ast.Assign, ast.AugAssign)):
                    for t in (st.targets if isinstance(st, ast.Assign) else [st.target]):
                        if isinstance(t, ast.Attribute) and isinstance(t.value, ast.Name) and t.value.id in alias and st.lineno > alias[t.value.id][1]:
                            rep.bad("C11-i", f"ethosu/vela/{m.name}.py:{q}", f"`{str(norm(st))[:70]}` edits a cloned quantisation record",
                                    f"`{t.value.id}` is `{alias[t.value.id][0]}` itself, not a clone: the edit changes the quantisation of that tensor, which may be a subgraph output or an operand of a CPU operator")
    # ... and never store *into* the value / zero-point arrays of a tensor they did not create: constants may be shared by several
    # operators (one paddings tensor for two PADs, one weight tensor for two convolutions), one of which may stay on the CPU
    n_st = 0
    for mname in ("tflite_graph_optimiser", "graph_optimiser_util", "softmax", "lstm", "operation_util", "lut"):
        m = repo.mod(mname)
        for q, fn in m.functions.items():
            fresh = set()
            for st in walk_no_nested(fn):
                if isinstance(st, ast.Assign) and len(st.targets) == 1 and isinstance(st.targets[0], ast.Name) and isinstance(st.value, ast.Call) and \
                        (call_name(st.value) or "").split(".")[-1] in ("create_const_tensor", "clone", "Tensor", "clone_into_shram", "zeros", "ones", "full", "array", "copy", "zeros_like"):
                    fresh.add(st.targets[0].id)
            for st in walk_no_nested(fn):
                tg = None
                if isinstance(st, ast.Assign) and len(st.targets) == 1 and isinstance(st.targets[0], ast.Subscript):
                    tg = st.targets[0].value
                elif isinstance(st, ast.AugAssign):
                    tg = st.target.value if isinstance(st.target, ast.Subscript) else st.target
                if tg is None:
                    continue
                txt = str(norm(tg))
                if not (txt.endswith(".values") or txt.endswith(".zero_point") or txt.endswith(".scale_f32")):
                    continue
                root = txt.split(".")[0]
                n_st += 1
                rep.check(root in fresh, "C11-i", f"ethosu/vela/{mname}.py:{q}", f"`{str(norm(st))[:70]}` writes into an array this function created",
                          f"`{txt}` belongs to a tensor the rewrite did not create: the array is shared with every other operator that uses the same constant (and with its source tensor), so an operator "
                          "that stays on the CPU is written back with the modified data")
    if n_st < 2:
        raise AnalysisError(f"in-place array stores in rewrites: only {n_st} found")
    if n_al < 5:
        raise AnalysisError(f"quantisation aliases: only {n_al} found")
    rep.check(True, "C11-i", "ethosu/vela", f"{n_al} local aliases of quantisation records are read only", "")
    rep.floor("C11-i", 4)
    rep.clause("C11-t", "a memory-only operator that stays on the CPU is written: it joins an NPU subgraph only if it was placed on the NPU [rule shared with C16-i]")
    from . import c16 as _c16t

    rep.run_borrowed(_c16t, {"C16-i": "C11-t"}, repo)
    rep.clause("C11-u", "operand vectors are read with the accessor of their own name")
    rep.clause("C11-v", "hoisted CPU passes keep their source order (sort key = op_index of the first operator)")
    rule_round8(repo, rep)
    rep.clause("C11-s", "constant buffers are viewed through the numpy type that has the name of their tensor type (no reinterpretation of the written constant data)")
    rep.clause("C11-r", "the writer restores the source tensor of an operand only if the operand is a constant (computed operands keep the tensor the graph produces)")
    rule_src_tensor_restore(repo, rep)
    rep.clause("C11-q", "every option member the serialiser produced is added to the table unconditionally (an omitted field reads back as the schema default, not as the falsy value)")
    rule_serialise_all_members(repo, rep)
    rep.clause("C11-p", "a tensor's shape list and constant values are edited only through a copy: no in-place mutation of `<tensor>.shape` / `<tensor>.values` or of a bare alias of them in the rewrites and checks")
    from .shared import owned_member_mutation_lint

    n_own, _ = owned_member_mutation_lint(repo, rep, "C11-p", ["tflite_graph_optimiser", "graph_optimiser_util", "tflite_model_semantic", "tflite_supported_operators", "softmax", "lstm", "operation", "tensor",
                                                              "tflite_reader", "tflite_writer", "extract_npu_subgraphs", "pass_packing"])
    if n_own < 20:
        raise AnalysisError(f"bare aliases of tensor shape / values: {n_own} found")


def rule_no_tensor_rename(repo, rep):
    """(j) tensors that exist in the source keep their names: subgraph inputs / outputs and the operands of CPU operators are written with the name
    the Tensor object carries, so no rewrite may assign `.name` of a tensor it did not create (tensors reached through an operator's inputs /
    outputs / ifm / ofm). Names of operators and of freshly created / cloned tensors are free."""
    rep.clause("C11-j", "no graph rewrite renames a tensor that exists in the source model (interface and CPU-operand names are the Tensor objects' names)")
    n = 0
    creators = ("Tensor", "create_const_tensor", "create_reshape_tensor", "create_lut_tensor")
    for mname in ("tflite_graph_optimiser", "graph_optimiser_util", "lut", "softmax", "lstm", "pass_packing", "operation_util"):
        m = repo.mod(mname)
        for q, fn in m.functions.items():
            if "." in q and q.split(".")[0] in m.functions:
                continue
            fresh = set()
            existing = {}
            for st in ast.walk(fn):
                if isinstance(st, ast.Assign) and len(st.targets) == 1 and isinstance(st.targets[0], ast.Name):
                    v = st.value
                    if isinstance(v, ast.Call) and ((call_name(v) or "").split(".")[-1] in creators or (isinstance(v.func, ast.Attribute) and v.func.attr == "clone")):
                        fresh.add(st.targets[0].id)
                    elif isinstance(v, (ast.Attribute, ast.Subscript)) and re.search(r"[.](ifm2?|ofm|weights|bias|inputs\[\d+\]|outputs\[\d+\])$", str(norm(v))):
                        existing[st.targets[0].id] = str(norm(v))
                elif isinstance(st, ast.Assign) and isinstance(st.targets[0], ast.Tuple) and isinstance(st.value, ast.Call) and isinstance(st.value.func, ast.Attribute) and st.value.func.attr.startswith("get_ifm"):
                    for e in st.targets[0].elts:
                        if isinstance(e, ast.Name):
                            existing[e.id] = str(norm(st.value))
            for st in ast.walk(fn):
                if isinstance(st, (ast.Assign, ast.AugAssign)):
                    for t in (st.targets if isinstance(st, ast.Assign) else [st.target]):
                        if isinstance(t, ast.Attribute) and t.attr == "name":
                            base = str(norm(t.value))
                            via_op = re.search(r"[.](ifm2?|ofm|weights|bias|inputs\[\d+\]|outputs\[\d+\])$", base) is not None
                            via_alias = isinstance(t.value, ast.Name) and t.value.id in existing and t.value.id not in fresh
                            if via_op or via_alias:
                                n += 1
                                rep.bad("C11-j", f"ethosu/vela/{mname}.py:{q}", f"`{str(norm(st))[:90]}` renames a tensor of the source graph",
                                        "the tensor keeps its identity in the output model: when it is a subgraph output or the operand of a CPU operator it is written under the new name "
                                        "(demonstrated: MUL + MAXIMUM rewritten to LeakyRelu: subgraph output `net/Maximum` is written as `net/LeakyRelu`)")
                            else:
                                rep.ok("C11-j", f"ethosu/vela/{mname}.py:{q}", f"`{str(norm(st))[:70]}` names an operator or a tensor created here")
    rep.floor("C11-j", 12)


def rule_overwritten_options(repo, rep):
    """(k) an option member that the reader replaces by a derived value is written back from the reader's cache for operators that are
    written as they are: the restore in serialise_operator must not be conditional on run_on_npu (operators placed on the NPU are never
    written; the ones that are written run on the CPU)."""
    rep.clause("C11-k", "option members that the reader overwrites with a derived value (depth_multiplier = 0 -> weight channels // IFM channels) are restored from the reader's cache when a CPU operator is written")
    tm = repo.mod("tflite_mapping")
    members = set()
    for c in ast.walk(tm.tree):
        if isinstance(c, ast.Call) and call_name(c) == "OptionsSerializer" and len(c.args) > 1 and isinstance(c.args[1], (ast.Tuple, ast.List)):
            for e in c.args[1].elts:
                if isinstance(e, ast.Constant) and isinstance(e.value, str):
                    members.add(e.value)
                elif isinstance(e, ast.Tuple) and e.elts and isinstance(e.elts[0], ast.Constant):
                    members.add(e.elts[0].value)
    if len(members) < 60:
        raise AnalysisError(f"tflite_mapping: only {len(members)} option members found")
    rd = repo.mod("tflite_reader")
    po = rd.func("TFLiteSubgraph.parse_operator")
    over = []
    for st in ast.walk(po):
        if isinstance(st, ast.Assign) and isinstance(st.targets[0], ast.Subscript) and str(norm(st.targets[0].value)) == "op.attrs" and isinstance(st.targets[0].slice, ast.Constant):
            k = st.targets[0].slice.value
            if k not in members:
                continue
            # a default for a missing member is not an overwrite
            g = rd.parents.get(st)
            missing_default = isinstance(g, ast.If) and f"'{k}' not in op.attrs" in str(norm(g.test)).replace('"', "'")
            # an overwrite replaces a value that came from the file: the store is guarded by a test that reads the member, or the member was
            # copied aside before (a key that merely shares its name with a member of another operator's table is not one)
            reads_old = isinstance(g, ast.If) and re.search(r"op[.]attrs[\[]['\"]" + re.escape(k) + r"['\"][\]]", str(norm(g.test))) is not None
            copied = any(isinstance(c_, ast.Assign) and str(norm(c_.value)).replace('"', "'") == f"op.attrs['{k}']" and c_.lineno < st.lineno for c_ in ast.walk(po))
            if not missing_default and (reads_old or copied):
                over.append((k, st))
    if not over:
        raise AnalysisError("parse_operator: no overwritten option member found (expected depth_multiplier)")
    tw = repo.mod("tflite_writer")
    so = tw.func("TFLiteSerialiser.serialise_operator")
    for k, st in over:
        # the cache: the member copied into another key before the overwrite
        caches = [str(c_.targets[0].slice.value) for c_ in ast.walk(po) if isinstance(c_, ast.Assign) and isinstance(c_.targets[0], ast.Subscript) and str(norm(c_.targets[0].value)) == "op.attrs"
                  and isinstance(c_.targets[0].slice, ast.Constant) and str(norm(c_.value)) in (f"op.attrs['{k}']", f'op.attrs["{k}"]') and c_.lineno < st.lineno]
        restores = [r_ for r_ in ast.walk(so) if isinstance(r_, ast.Assign) and isinstance(r_.targets[0], ast.Subscript) and str(norm(r_.targets[0].value)) == "attrs"
                    and isinstance(r_.targets[0].slice, ast.Constant) and r_.targets[0].slice.value == k and any(f"attrs['{c_}']" in str(norm(r_.value)).replace('"', "'") for c_ in caches)]
        ok = False
        detail = f"no `attrs['{k}'] = attrs[<cache>]` in serialise_operator (cache keys {caches})"
        for r_ in restores:
            cur = tw.parents.get(r_)
            npu_only = False
            while cur is not None and cur is not so:
                if isinstance(cur, ast.If) and "run_on_npu" in str(norm(cur.test)) and r_ in list(ast.walk(ast.Module(body=cur.body, type_ignores=[]))):
                    npu_only = True
                cur = tw.parents.get(cur)
            if not npu_only:
                ok = True
            else:
                detail = f"`{str(norm(r_))}` is made only under `if op.run_on_npu`: an operator that is written runs on the CPU"
        rep.check(ok, "C11-k", "ethosu/vela/tflite_writer.py:TFLiteSerialiser.serialise_operator", f"`{k}` (overwritten by the reader at `{str(norm(st))[:60]}`) is restored from the cache for every written operator",
                  detail + " (demonstrated: a DEPTHWISE_CONV_2D that stays on the CPU with depth_multiplier = 0 is written with depth_multiplier = 2)")
    rep.floor("C11-k", 1)


def rule_quant_record_kept(repo, rep):
    """(l) a tensor's quantisation record is dropped by the reader only when it is empty: every member that parse_tensor reads from the
    file (min, max, scale, zero point) takes part in the emptiness test."""
    rep.clause("C11-l", "the reader drops a tensor's quantisation record only if none of the members it read from the file is present")
    pt = repo.mod("tflite_reader").func("TFLiteSubgraph.parse_tensor")
    read = []
    for st in ast.walk(pt):
        if isinstance(st, ast.Assign) and isinstance(st.targets[0], ast.Attribute) and str(norm(st.targets[0].value)) == "tens.quantization" and "AsNumpy()" in str(norm(st.value)):
            read.append(st.targets[0].attr)
    drops = [i for i in ast.walk(pt) if isinstance(i, ast.If) and any(isinstance(x, ast.Assign) and str(norm(x)) == "tens.quantization = None" for x in i.body)]
    if len(read) < 4 or len(drops) != 1:
        raise AnalysisError(f"parse_tensor: members read {read}, {len(drops)} places that drop the record")
    from ..exprnorm import conjuncts as _cj

    tested = {m_ for c_ in _cj(drops[0].test) for m_ in read if str(norm(c_)) in (f"tens.quantization.{m_} is None", f"None is tens.quantization.{m_}")}
    missing = sorted(set(read) - tested)
    rep.check(not missing, "C11-l", "ethosu/vela/tflite_reader.py:TFLiteSubgraph.parse_tensor", f"the record is dropped only if all of {sorted(read)} are absent",
              f"`{str(norm(drops[0].test))}` does not look at {missing}: a record that carries only min / max is dropped, and the tensor is written without quantisation "
              "(demonstrated: float RELU model whose input carries min -1, max 2: subgraph input, output and the CPU operator's operands are written with no quantisation record)")
    rep.floor("C11-l", 1)


def rule_rewrites_of_unplaced_operators(repo, rep, rule="C11-m"):
    """(m) passes run with rewrite_unsupported=True (explicitly, or by the default of rewrite_graph_pre_order) are applied to operators
    whatever their placement. A rewrite in such a pass may change an operator (type, inputs, outputs, attributes, wiring) only where it has
    established that the operator is, or the merged result will be, on the NPU: after a support test whose failing branch returns, under a
    `run_on_npu` test, or under a test of a marker that only NPU rewrites set (reviewed)."""
    rep.clause(rule, "a rewrite that is applied to operators regardless of their placement (rewrite_unsupported=True, also by default) changes nothing of an operator before it has established that the operator "
               "is / will be on the NPU: an operator that ends up on the CPU is written with its own type, operands, options and neighbours")
    go = repo.mod("tflite_graph_optimiser")
    rg = repo.mod("rewrite_graph").func("rewrite_graph_pre_order")
    defaults = dict(zip([a.arg for a in rg.args.args][-len(rg.args.defaults):], rg.args.defaults)) if rg.args.defaults else {}
    dflt = defaults.get("rewrite_unsupported")
    default_true = isinstance(dflt, ast.Constant) and dflt.value is True
    tg = go.func("tflite_optimise_graph")
    lists = {st.targets[0].id: st.value for st in ast.walk(tg) if isinstance(st, ast.Assign) and isinstance(st.targets[0], ast.Name) and isinstance(st.value, ast.List)}
    names = []
    # passes that run before the pass holding supported_operator_check see every operator with the constructor's run_on_npu = True:
    # rewrite_unsupported=False filters nothing there, and a run_on_npu test proves nothing
    pre_check = set()
    check_line = None
    passes = []
    for c in sorted(calls_in(tg, "rewrite_graph_pre_order"), key=lambda c_: c_.lineno):
        kw = {k.arg: k.value for k in c.keywords}
        oplist = c.args[4] if len(c.args) > 4 else kw.get("op_rewrite_list")
        if isinstance(oplist, ast.Name):
            oplist = lists.get(oplist.id)
        pnames = [e.id for e in oplist.elts if isinstance(e, ast.Name)] if isinstance(oplist, ast.List) else []
        passes.append((c, kw, pnames))
        if "supported_operator_check" in pnames and check_line is None:
            check_line = c.lineno
    if check_line is None:
        raise AnalysisError("tflite_optimise_graph: the pass that holds supported_operator_check was not found")
    init_true = any(isinstance(st, ast.Assign) and str(norm(st)) == "self.run_on_npu = True" for st in ast.walk(repo.mod("operation").func("Operation.__init__")))
    for c, kw, pnames in passes:
        ru = kw.get("rewrite_unsupported", c.args[5] if len(c.args) > 5 else None)
        applies = (isinstance(ru, ast.Constant) and ru.value is True) or (ru is None and default_true)
        if c.lineno < check_line and init_true:
            pre_check |= set(pnames)
            applies = True
        if not applies:
            continue
        names += pnames
    if len(names) < 4:
        raise AnalysisError(f"passes with rewrite_unsupported=True: {names}")
    MUT = ("set_input_tensor", "set_output_tensor", "add_input_tensor")
    MARKERS = {"is_nop": "set by convert_to_lut / create_*_nop for operators created on the NPU only"}
    for nm in sorted(set(names)):
        fn = go.functions.get(nm) or repo.mod("graph_optimiser_util").functions.get(nm)
        if fn is None:
            raise AnalysisError(f"rewrite {nm} not found")
        mod_ = go if nm in go.functions else repo.mod("graph_optimiser_util")
        p0 = fn.args.args[0].arg if fn.args.args else "op"
        muts = [c for c in walk_no_nested(fn) if isinstance(c, ast.Call) and isinstance(c.func, ast.Attribute) and (c.func.attr in MUT or (c.func.attr == "update" and str(norm(c.func.value)).endswith(".attrs")))]
        muts += [st for st in walk_no_nested(fn) if isinstance(st, ast.Assign) and ((isinstance(st.targets[0], ast.Subscript) and str(norm(st.targets[0].value)).endswith(".attrs"))
                                                                                     or (isinstance(st.targets[0], ast.Attribute) and st.targets[0].attr in ("type", "inputs", "outputs", "attrs") and isinstance(st.targets[0].value, ast.Name)))]
        trial = {st.targets[0].id for st in walk_no_nested(fn) if isinstance(st, ast.Assign) and isinstance(st.targets[0], ast.Name) and isinstance(st.value, ast.Call) and isinstance(st.value.func, ast.Attribute)
                 and st.value.func.attr == "clone"}
        fresh = {st.targets[0].id for st in walk_no_nested(fn) if isinstance(st, ast.Assign) and isinstance(st.targets[0], ast.Name) and isinstance(st.value, ast.Call)
                 and ((call_name(st.value) or "").split(".")[-1] in ("Operation",) or (call_name(st.value) or "").startswith("create_"))}

        def receiver(x):
            e = x.func.value if isinstance(x, ast.Call) else x.targets[0].value
            while isinstance(e, (ast.Attribute, ast.Subscript)):
                e = e.value
            return e.id if isinstance(e, ast.Name) else None

        muts = [x for x in muts if receiver(x) not in trial | fresh]

        def folded_to_constant(x):
            # the property excludes operators folded into a constant at compile time: changes in the block that ends with `<op>.type = Op.Const`
            cur = x
            while cur is not fn and cur is not None:
                pp = mod_.parents.get(cur)
                for fld in ("body", "orelse"):
                    body = getattr(pp, fld, None)
                    if isinstance(body, list) and cur in body and any(isinstance(b, ast.Assign) and str(norm(b)).endswith(".type = Op.Const") for b in body):
                        return True
                cur = pp
            return False

        muts = [x for x in muts if not folded_to_constant(x)]
        sup_locals = {st.targets[0].id for st in walk_no_nested(fn) if isinstance(st, ast.Assign) and isinstance(st.targets[0], ast.Name) and "is_operator_supported(" in str(norm(st.value))}
        guards = []
        for i_ in walk_no_nested(fn):
            if isinstance(i_, ast.If) and i_.body and isinstance(i_.body[-1], ast.Return):
                t = str(norm(i_.test))
                neg_support = t.startswith("not ") and ("is_operator_supported(" in t or any(t in (f"not {l_}",) for l_ in sup_locals))
                neg_npu = re.search(r"not \w+[.]run_on_npu", t) is not None and nm not in pre_check
                neg_marker = any(f"not {p0}.attrs.get('{mk}'" in t.replace('"', "'") for mk in MARKERS)
                if neg_support or neg_npu or neg_marker:
                    guards.append(i_)
        first_guard = min((g.lineno for g in guards), default=None)

        def under_npu_test(x):
            cur = x
            while cur is not fn and cur is not None:
                pp = mod_.parents.get(cur)
                if isinstance(pp, ast.If) and cur in pp.body and re.search(r"\b\w+[.]run_on_npu\b", str(norm(pp.test))) and "not " + str(norm(pp.test)) != str(norm(pp.test)):
                    tt = str(norm(pp.test))
                    if not re.search(r"not \w+[.]run_on_npu", tt):
                        return True
                cur = pp
            return False

        early = [x for x in muts if (first_guard is None or x.lineno < first_guard) and not (under_npu_test(x) and nm not in pre_check)]
        rep.check(not early, rule, f"{mod_.rel}:{nm}", f"every change `{nm}` makes to an operator follows a support / run_on_npu test ({len(muts)} mutations)",
                  (f"`{str(norm(early[0]))[:70]}` is done " + ("before" if first_guard else "without") + " any test that the operator is (or the merged operator will be) on the NPU: the pass applies it to "
                   "CPU operators as well (demonstrated: SPACE_TO_BATCH_ND -> CONV_2D stride_h 4 -> BATCH_TO_SPACE_ND written as one CPU CONV_2D; DEQUANTIZE -> EXP -> QUANTIZE on uint8 aborts; a float32 SPLIT "
                   "with one output vanishes from the output model when the pass that holds convert_nop_split_to_identity is applied to unsupported operators)") if early else "")
    rep.floor(rule, 4)


def rule_folded_constant_dtype(repo, rep):
    """(o) the values stored into an existing tensor by compile-time folding (`<t>.values = np.array(...)`) get the tensor's element type
    explicitly: the writer emits the array's bytes as they are, and np.array() of Python ints / np.int32 dimensions picks int64 / int32 by
    itself whatever the tensor is declared as."""
    rep.clause("C11-o", "values stored into a tensor by compile-time folding are created with the tensor's own element type (np.array(..., <t>.dtype.as_numpy_type()))")
    n = 0
    for mn in ("tflite_graph_optimiser", "graph_optimiser_util"):
        m = repo.mod(mn)
        for q, fn in m.functions.items():
            if "." in q and q.split(".")[0] in m.functions:
                continue
            for st in walk_no_nested(fn):
                if not (isinstance(st, ast.Assign) and isinstance(st.targets[0], ast.Attribute) and st.targets[0].attr == "values" and isinstance(st.value, ast.Call)
                        and (call_name(st.value) or "") in ("np.array", "numpy.array", "np.asarray", "numpy.asarray")):
                    continue
                tens = str(norm(st.targets[0].value))
                n += 1
                args = list(st.value.args[1:]) + [k.value for k in st.value.keywords if k.arg == "dtype"]
                typed = any(f"{tens}.dtype" in str(norm(a)) for a in args)
                rep.check(typed, "C11-o", f"{m.rel}:{q}", f"`{str(norm(st))[:80]}` creates the data with `{tens}`'s element type",
                          f"no dtype taken from `{tens}`: the array's own type decides how many bytes are written (demonstrated: SHAPE with out_type INT64 consumed by a CPU operator is folded to 16 bytes "
                          "in an INT64[4] tensor; Vela's own reader cannot read the output)")
    if n < 3:
        raise AnalysisError(f"folded constant stores: {n} found")
    rep.floor("C11-o", 3)


def rule_serialise_all_members(repo, rep):
    """(q) OptionsSerializer.serialize adds every member it serialised to the option table. A flatbuffer field that is not added reads
    back as the *schema* default, which is not always the falsy value (AddOptions / SubOptions.pot_scale_int16 and
    BidirectionalSequenceLSTMOptions.time_major default to true): dropping falsy values turns an explicit false into true."""
    m = repo.mod("tflite_mapping")
    f = m.func("OptionsSerializer.serialize")
    site = "ethosu/vela/tflite_mapping.py:OptionsSerializer.serialize"
    loops = [l for l in ast.walk(f) if isinstance(l, ast.For) and any('"Add"' in str(norm(c)) or "'Add'" in str(norm(c)) for c in ast.walk(l) if isinstance(c, ast.Call))]
    if len(loops) != 1:
        raise AnalysisError(f"OptionsSerializer.serialize: {len(loops)} loops add members")
    lp = loops[0]
    direct = [st for st in lp.body if isinstance(st, ast.Expr) and isinstance(st.value, ast.Call) and "Add" in str(norm(st.value))]
    conditional = [st for st in lp.body if isinstance(st, (ast.If, ast.Try, ast.While)) and any("Add" in str(norm(c)) for c in ast.walk(st) if isinstance(c, ast.Call))]
    skips = [st for st in ast.walk(lp) if isinstance(st, ast.Continue)]
    rep.check(bool(direct) and not conditional and not skips, "C11-q", site, "every serialised member is added to the option table, whatever its value",
              f"the Add<Member> call is conditional (`{str(norm(conditional[0].test))[:40] if conditional and isinstance(conditional[0], ast.If) else 'continue'}`): a member left out reads back as the schema default - "
              "pot_scale_int16 = false of a CPU-resident ADD / SUB is written as true")


def rule_src_tensor_restore(repo, rep):
    """(r) for CPU-resident convolutions the writer writes the tensors of the source file back in place of the reader's clones
    (`op.inputs[idx] = inp.src_tensor`). `src_tensor` is also how an NPU-produced tensor points at its counterpart inside the Ethos-U
    operator, so the restore must be limited to constants (`inp.values is not None` / a Const producer) operand by operand - the test on
    the weights alone lets a computed bias be replaced by a tensor nothing in the written graph produces."""
    tw = repo.mod("tflite_writer")
    n = 0
    for q, fn in tw.functions.items():
        for a in ast.walk(fn):
            if isinstance(a, ast.Assign) and len(a.targets) == 1 and isinstance(a.targets[0], ast.Subscript) and str(norm(a.targets[0].value)).endswith(".inputs") and str(norm(a.value)).endswith(".src_tensor"):
                n += 1
                v = str(norm(a.value))[: -len(".src_tensor")]
                guard = tw.parents.get(a)
                while guard is not None and not isinstance(guard, ast.If):
                    guard = tw.parents.get(guard)
                cj = [str(norm(c)) for c in conjuncts(guard.test)] if guard is not None else []
                ok = any(c in (f"{v}.values is not None", f"{v}.ops[0].type == Op.Const", f"{v}.is_const") for c in cj)
                rep.check(ok, "C11-r", f"ethosu/vela/tflite_writer.py:{q}", f"`{str(norm(a))}` only for a constant operand (`{v}.values is not None`)",
                          f"guard {cj}: a CPU-resident CONV_2D whose bias is produced by an NPU operator is written with the operand `b_cpu`, a tensor that is neither an input, a constant nor the output of any written operator")
    if n < 1:
        raise AnalysisError("tflite_writer: the restore of source tensors was not found")


def rule_round8(repo, rep):
    """(u) the reader fills inputs / outputs / intermediates of an operator each from the accessor of that name. (v) CPU passes hoisted to
    the top keep their source order: the sort key is the op_index of the pass's first operator (`primary_op` is None for VAR_HANDLE,
    READ_VARIABLE, CALL_ONCE and custom operators, which would all tie)."""
    tr = repo.mod("tflite_reader")
    f = tr.func("TFLiteSubgraph.parse_operator")
    n = 0
    for a in ast.walk(f):
        if isinstance(a, ast.Assign) and len(a.targets) == 1 and isinstance(a.targets[0], ast.Name) and a.targets[0].id in ("inputs", "outputs", "intermediates"):
            acc = [c for c in ast.walk(a.value) if isinstance(c, ast.Call) and isinstance(c.func, ast.Attribute) and c.func.attr.endswith("AsNumpy") and str(norm(c.func.value)) == "op_data"]
            if acc:
                n += 1
                rep.check(all(c.func.attr.lower().startswith(a.targets[0].id) for c in acc), "C11-u", "ethosu/vela/tflite_reader.py:TFLiteSubgraph.parse_operator", f"`{a.targets[0].id}` is read with op_data.{a.targets[0].id.capitalize()}AsNumpy()",
                          f"`{a.targets[0].id}` is filled from {[c.func.attr for c in acc]}: a CPU operator with an intermediates vector is written with its outputs as intermediates and the real intermediate tensors vanish from the file")
    if n < 3:
        raise AnalysisError(f"parse_operator: {n} operand vectors read")
    pp = repo.mod("pass_packing")
    g = pp.func("pack_into_passes")
    srt = [c for c in ast.walk(g) if isinstance(c, ast.Call) and call_name(c) == "sorted" and c.args and str(norm(c.args[0])) == "pass_list_top"]
    if len(srt) != 1:
        raise AnalysisError("pack_into_passes: the sort of the hoisted CPU passes was not found")
    key = [k.value for k in srt[0].keywords if k.arg == "key"]
    t = str(norm(key[0])) if key else ""
    rep.check("ops[0].op_index" in t and "primary_op" not in t, "C11-v", "ethosu/vela/pass_packing.py:pack_into_passes", "hoisted CPU passes are ordered by the op_index of their first operator",
              f"key `{t[:90]}`: primary_op is None for VAR_HANDLE / READ_VARIABLE / CALL_ONCE / custom operators: they all get key -1 and keep the traversal order (CALL_ONCE after READ_VARIABLE: the variable is read before its init subgraph ran)")


def rule_round10(repo, rep):
    """(w) subgraph inputs and outputs are handed on in file order: the reader functions that build the interface lists from the index
    vectors walk the vector in order and apply no ordering operation (np.unique / sorted / set / sort) to it.
    (x) a trial copy of an operator owns its containers (Operation.clone), so a rejected trial rewrite leaves the CPU operator's options
    as they were read [rule shared with C16-n]."""
    rep.clause("C11-w", "subgraph inputs and outputs keep the order of the file's index vectors: the reader builds the lists by walking the vector; no ordering operation touches it")
    rm = repo.mod("tflite_reader")
    fn = rm.func("TFLiteSubgraph.get_tensors_from_indices_remove_duplicates")
    site = "ethosu/vela/tflite_reader.py:TFLiteSubgraph.get_tensors_from_indices_remove_duplicates"
    prm = fn.args.args[1].arg
    ordering = [c for c in ast.walk(fn) if isinstance(c, ast.Call) and ((call_name(c) or "").split(".")[-1] in ("unique", "sorted", "set", "frozenset", "sort", "argsort", "reversed", "fromkeys") )]
    rep.check(not ordering, "C11-w", site, "no ordering operation on the index vector", f"`{str(norm(ordering[0]))[:70]}` re-orders (or makes unordered) the indices: inputs / outputs listed as [5, 3, 2] come out as [2, 3, 5]" if ordering else "")
    loops = [s for s in ast.walk(fn) if isinstance(s, ast.For) and str(norm(s.iter)) == prm]
    rets = [s for s in ast.walk(fn) if isinstance(s, ast.Return) and s.value is not None]
    ok = False
    if len(loops) == 1 and len(rets) == 1 and isinstance(rets[0].value, ast.Name):
        res = rets[0].value.id
        ok = any(isinstance(c, ast.Call) and isinstance(c.func, ast.Attribute) and c.func.attr == "append" and str(norm(c.func.value)) == res for c in ast.walk(loops[0]))
    elif len(rets) == 1 and isinstance(rets[0].value, ast.ListComp) and len(rets[0].value.generators) == 1 and str(norm(rets[0].value.generators[0].iter)) == prm:
        ok = True
    rep.check(ok, "C11-w", site, f"the result is built by walking `{prm}` in order", "the returned list is not filled by a loop over the index vector as given")
    users = [c for q, f in rm.functions.items() for c in ast.walk(f) if isinstance(c, ast.Call) and (call_name(c) or "").endswith("get_tensors_from_indices_remove_duplicates")]
    for c in users:
        a0 = str(norm(c.args[0])) if c.args else ""
        rep.check(a0.endswith("AsNumpy()") or a0.endswith("_indices") or "Inputs" in a0 or "Outputs" in a0, "C11-w", "ethosu/vela/tflite_reader.py:TFLiteSubgraph.__init__", f"`{str(norm(c))[:80]}` passes the file's vector", f"argument `{a0}`")
    if len(users) < 2:
        raise AnalysisError("get_tensors_from_indices_remove_duplicates: fewer than two users (inputs, outputs)")
    rep.clause("C11-x", "a trial copy of an operator owns its attribute dict and operand lists: a rejected trial rewrite leaves the operator that stays on the CPU as it was read [rule shared with C16-n / C13-af]")
    from .shared import clone_completeness as _cc11

    if _cc11(repo, rep, "C11-x") < 20:
        raise AnalysisError("Operation.clone: fewer than 20 members checked")


def rule_existing_npu_op_identity(repo, rep):
    """(y) reader and writer agree on what an Ethos-U operator is: the writer emits it as a CUSTOM operator whose custom code is the string it
    passes to CreateString (`ethos-u`) *and* whose options are CUSTOM_OPTIONS_NPU_OP. The reader may classify an operator as
    CustomType.ExistingNpuOp only if it has tested that custom code too - the three option bytes alone also occur as a third-party
    operator's options, and that operator must be passed through untouched."""
    wm = repo.mod("tflite_writer")
    codes = {c.args[0].value for c in ast.walk(wm.tree) if isinstance(c, ast.Call) and str(norm(c.func)).endswith("CreateString") and c.args and isinstance(c.args[0], ast.Constant) and isinstance(c.args[0].value, str)}
    if len(codes) != 1:
        raise AnalysisError(f"tflite_writer: custom code literals {sorted(codes)}")
    code = codes.pop()
    tested = []
    for mn in ("tflite_reader", "tflite_mapping"):
        m = repo.mod(mn)
        for q, fn in m.functions.items():
            src_has_type = any(isinstance(x, ast.Attribute) and x.attr == "ExistingNpuOp" for x in ast.walk(fn))
            for c in ast.walk(fn):
                if isinstance(c, ast.Compare) and any(isinstance(x, ast.Constant) and x.value == code for x in ast.walk(c)) and src_has_type:
                    tested.append(f"{m.rel}:{q}")
    rep.check(bool(tested), "C11-y", "ethosu/vela/tflite_mapping.py:CustomOptionsSerializer.deserialize", f"an operator is classified as an existing Ethos-U operator only after its custom code was compared with '{code}'",
              f"no function that handles CustomType.ExistingNpuOp compares the custom code with '{code}': a third-party CUSTOM operator whose options are the bytes 01 04 01 is taken for an Ethos-U operator "
              "(compilation aborts with 'Scratch tensor not found' instead of passing the operator through)")

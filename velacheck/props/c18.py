"""C18 System configuration and memory mode resolve as documented."""
import ast
import re

from ..absint import AList, AObj, Interp, Unknown
from ..astutil import calls_in, call_name, dotted, get_kwarg, norm, try_fold, walk_no_nested
from ..cfg import cfg_of
from ..core import AnalysisError
from .c03 import eval_with
from ..exprnorm import EQ, GT, LT, comparison
from ..tables import enum_of

AF = "ethosu/vela/architecture_features.py"
VP = "ethosu/vela/vela.py"


# ------------------------------------------------------------------ helpers


def parse_ini(text):
    secs = {}
    cur = None
    for ln in text.splitlines():
        s = ln.strip()
        if not s or s[0] in ";#":
            continue
        m = re.fullmatch(r"\[(.+)\]", s)
        if m:
            cur = m.group(1)
            secs[cur] = {}
            continue
        if "=" in s and cur is not None:
            k, v = s.split("=", 1)
            secs[cur][k.strip()] = v.strip()
    return secs


def parse_options_md(text):
    """{heading: {'flag': '--x', 'default': str|None, 'choices': [..]|None}} for the CLI section."""
    out = {}
    blocks = re.split(r"^### ", text, flags=re.M)[1:]
    for b in blocks:
        head = b.splitlines()[0].strip()
        body = b
        nxt = re.search(r"^## ", body, flags=re.M)
        if nxt:
            body = body[: nxt.start()]
        flags = re.findall(r"(--[a-z][a-z0-9-]+)", body)
        d = re.search(r"\*\*Default: (.*?)\*\*", body, flags=re.S)
        c = re.search(r"\*\*Choices: \[(.*?)\]\*\*", body)
        out[head] = {
            "flags": flags,
            "default": " ".join(d.group(1).split()) if d else None,
            "choices": [x.strip() for x in c.group(1).split(",")] if c else None,
        }
    return out


class Config(AObj):
    """Abstract ConfigParser: concrete section/option structure, symbolic values."""

    def __init__(self, sections):
        super().__init__("vela_config")
        self.sections = sections
        self.handlers = {"has_section": self.has_section, "has_option": self.has_option, "get": self.get}

    def has_section(self, s):
        return s in self.sections

    def has_option(self, s, k):
        return s in self.sections and k in self.sections[s]

    def get(self, s, k):
        return self.sections[s][k]


def resolve_default(repo, vela, node):
    """Fold an argparse default expression to a comparable string."""
    v = try_fold(node, default=None)
    if v is not None:
        return v
    d = dotted(node)
    if d:
        parts = d.split(".")
        if len(parts) >= 2:
            cls, attr = parts[-2], parts[-1]
            for m in repo.core_modules():
                if cls in m.classes:
                    ca = m.class_assigns(cls)
                    if attr in ca:
                        fv = try_fold(ca[attr], default=None)
                        if fv is not None and not isinstance(ca[attr], ast.Call):
                            bases = [dotted(b) or "" for b in m.classes[cls].bases]
                            if any(b.endswith("Enum") for b in bases):
                                return attr
                            return fv
                        return attr  # enum member defined by auto() or a call
    return None


def run(repo, rep):
    rep.clause("C18-a", "the configuration files that were resolved are the files that are read")
    rep.clause("C18-b", "_read_config: child overrides parent transitively, defaults survive, self-inheritance and unknown sections raise ConfigOptionError, for every section shape up to depth 3")
    rep.clause("C18-c", "CLI arena cache size overrides the file whenever it is given (including 0); every validated attribute is validated unconditionally, after its last write, against the documented legal areas")
    rep.clause("C18-d", "unknown system-config / memory-mode sections are errors")
    rep.clause("C18-e", "documented CLI defaults / choices equal the argparse defaults; documented internal-default mapping equals the coded defaults")
    rep.clause("C18-f", "the bundled vela.ini uses only keys the reader asks for, legal values, existing non-cyclic inherit targets")
    rep.undecided("numeric validity of arbitrary .ini values; OS-dependent path handling")
    from .shared import mirror_families

    mirror_families(repo, rep, "C18-c", {('vela', '', 'args'): 'CLI options handed to the option objects'})
    af = repo.mod("architecture_features")
    vela = repo.mod("vela")
    rule_provenance(repo, rep, vela)
    rule_read_config(repo, rep, af)
    rule_get_vela_config(repo, rep, af)
    # the directory of the bundled configuration files must not depend on the working directory at import time
    cfp = vela.assign("CONFIG_FILES_PATH")
    calls_ = [call_name(c_) for c_ in ast.walk(cfp) if isinstance(c_, ast.Call)]
    names_ = {x.id for x in ast.walk(cfp) if isinstance(x, ast.Name)}
    ok_ = "__file__" in names_ and not any(c_ and c_.split(".")[-1] in ("relpath", "getcwd", "curdir") for c_ in calls_) and \
        (not calls_ or (calls_[0] or "").split(".")[-1] in ("normpath", "abspath", "realpath", "join", "dirname", "resolve"))
    rep.check(ok_, "C18-a", "ethosu/vela/vela.py:CONFIG_FILES_PATH", "the bundled configuration directory is derived from __file__ as an absolute path",
              f"`{str(norm(cfp))[:100]}` is relative to the working directory at import time: after a chdir --config Arm/vela.ini is no longer found")
    from . import c13

    rep.run_borrowed(c13, {"C13-b": "C18-b"}, repo, only_sites=("architecture_features",))
    rep.clause("C18-h", "the configuration is parsed from the files of this compilation: no process-wide store in architecture_features keeps a parsed configuration across calls [rule shared with C14-a]")
    from . import c14 as _c14

    rep.run_borrowed(_c14, {"C14-a": "C18-h"}, repo, only_sites=("architecture_features",))
    rule_literal_options(repo, rep, vela)
    rule_docs(repo, rep, vela, af)
    rule_ini(repo, rep, af)
    rule_round4(repo, rep, vela, af)
    rule_round5(repo, rep, vela, af)
    rule_values_from_file(repo, rep, af)
    rule_reads_go_through_read_config(repo, rep, af)
    rep.clause("C18-j", "legality tests are membership tests in an explicit collection (not flag containment in a combined IntFlag value)")
    rep.clause("C18-k", "a bundled section whose name extends another section's name inherits from that section")
    rule_round7(repo, rep)
    rep.clause("C18-l", "configuration files that cannot be parsed are rejected with a Vela error: the read is guarded, values are read without interpolation")
    rule_parse_guarded(repo, rep)
    rep.clause("C18-m", "Sram-only modes: the port relabelled OnChipFlash is the port the constants are moved to")
    rep.clause("C18-n", "numbers are converted by their own type (no float detour that truncates integer options)")
    rep.clause("C18-p", "the port names the reader admits for axi0_port / axi1_port are the names OPTIONS.md documents (the admitted collection is resolved to enum members)")
    rep.clause("C18-q", "each selection chain (section found / built-in default / no file / unknown section) tests and reports the selection its section name was built from")
    rep.clause("C18-t", "several configuration files are read in command-line order (no ordering or de-duplication of the list)")
    rep.clause("C18-u", "the value converters of the configuration reader return the conversion of the given text or raise; no constant stands in for an illegal value")
    rule_round11(repo, rep)
    rep.clause("C18-v", "the configuration files are parsed as one group before any lookup (one read call with the whole list)")
    rep.clause("C18-w", "--config is repeatable as documented (action='append', no nargs)")
    rule_round12(repo, rep)
    rule_round10(repo, rep)
    rule_round9(repo, rep)
    rep.clause("C18-o", "bundled system configurations: clock x port width x clock scale equals the bandwidth documented above the section")
    rule_round8(repo, rep)


# ------------------------------------------------------------------ a


def rule_provenance(repo, rep, vela):
    f = vela.func("main")
    c = cfg_of(f)
    site = f"{VP}:main"
    defs = [s for s in walk_no_nested(f) if isinstance(s, ast.Assign) and norm(s.targets[0]) == "config_files"]
    ok = len(defs) == 1 and "_parse_config(cfg) for cfg in args.config" in norm(defs[0].value)
    rep.check(ok, "C18-a", site, "config_files = [_parse_config(cfg) for cfg in args.config] if args.config else None", norm(defs[0].value) if defs else "missing")
    n = 0
    for call in ast.walk(f):
        if isinstance(call, ast.Call) and (call_name(call) or "").split(".")[-1] in ("ArchitectureFeatures", "Imx93ArchitectureFeatures"):
            v = get_kwarg(call, "vela_config_files", 0)
            if v is None:
                raise AnalysisError("ArchitectureFeatures call without vela_config_files")
            n += 1
            t = norm(v)
            ok = t == "config_files"
            if not ok and t == "args.config":
                # acceptable only where args.config is known to be None
                node = c.node_of(call)
                guards = [x for x in c.nodes[3:] if x.kind == "test" and "args.config is None" in norm(x.expr)]
                ok = any(c.dominates(g.id, node) and all(b != node and not c.reaches(b, node) for b, lab in c.succ[g.id] if lab is False) for g in guards)
                if ok:
                    rep.ok("C18-a", site, f"{call_name(call)}(vela_config_files={t}) under `args.config is None`", "None either way")
                    continue
            rep.check(ok, "C18-a", site, f"{call_name(call)}(vela_config_files={t})", "the validated / bundled-directory-resolved paths in config_files are dropped; the raw CLI strings are read relative to the CWD")
    rep.floor("C18-a", 8)
    # named selections are never replaced silently: a construction that hard-wires internal-default must be under a test
    # that the user selected internal-default for both system config and memory mode
    for call in ast.walk(f):
        if isinstance(call, ast.Call) and (call_name(call) or "").split(".")[-1] in ("ArchitectureFeatures", "Imx93ArchitectureFeatures"):
            node = c.node_of(call)
            for kw, arg in (("system_config", "args.system_config"), ("memory_mode", "args.memory_mode")):
                v = get_kwarg(call, kw)
                if v is None:
                    raise AnalysisError(f"{call_name(call)} without {kw}")
                if norm(v) == arg:
                    rep.ok("C18-d", site, f"{call_name(call)}({kw}={arg})", "the user's selection is passed on")
                    continue
                guards = [x for x in c.nodes[3:] if x.kind == "test" and arg in norm(x.expr) and "DEFAULT_CONFIG" in norm(x.expr) and "==" in norm(x.expr)]
                ok = any(c.dominates(g.id, node) and all(b != node and not c.reaches(b, node) for b, lab in c.succ[g.id] if lab is False) for g in guards)
                rep.check(ok, "C18-d", site, f"{call_name(call)}({kw}={norm(v)}) only where the user selected internal-default for it",
                          f"a --{kw.replace('_', '-')} selection is silently replaced by {norm(v)} (no error for an unresolvable section)")
    # _parse_config: bundled lookup for Dir/file.ini, every path checked readable
    pc = vela.func("main._parse_config")
    cp = [s for s in ast.walk(pc) if isinstance(s, ast.Assign) and norm(s.targets[0]) == "config_path"]
    vals = {norm(s.value) for s in cp}
    rep.check("os.path.join(CONFIG_FILES_PATH, config)" in vals and "config" in vals, "C18-a", f"{VP}:main._parse_config",
              "Dir/file.ini resolves inside CONFIG_FILES_PATH, anything else is taken as given", str(vals))
    two = [n_ for n_ in ast.walk(pc) if isinstance(n_, ast.If) and "len(config.split(os.path.sep)) == 2" in norm(n_.test)]
    rep.check(len(two) == 1 and any(norm(s) == "config_path = os.path.join(CONFIG_FILES_PATH, config)" for s in two[0].body), "C18-a", f"{VP}:main._parse_config",
              "the two-component relative form selects the bundled directory", "")
    cpc = cfg_of(pc)
    acc = [n_ for n_ in cpc.nodes[3:] if n_.kind == "test" and norm(n_.expr) == "not os.access(config_path, os.R_OK)"]
    rets = [n_ for n_ in cpc.nodes[3:] if isinstance(n_.stmt, ast.Return)]
    rep.check(len(acc) == 1 and all(cpc.dominates(acc[0].id, r.id) for r in rets) and norm(rets[0].stmt.value) == "config_path", "C18-a", f"{VP}:main._parse_config",
              "readability of the resolved path is checked before it is returned", "")
    # semantic: where does each kind of name resolve, whatever the file system answers (os.access / isfile fork)?
    def _join(i, a, k, n):
        if all(isinstance(x, str) for x in a):
            return "/".join(x.rstrip("/") for x in a)
        return Unknown("join(" + ", ".join(x if isinstance(x, str) else getattr(x, "text", repr(x)) for x in a) + ")")

    ext = {
        "os.path.sep": "/", "os.sep": "/", "os.R_OK": 4,
        "os.path.normpath": lambda i, a, k, n: (__import__("posixpath").normpath(a[0]) if isinstance(a[0], str) else a[0]),  # drops a leading "./"
        "os.path.join": _join,
        "CONFIG_FILES_PATH": "<BUNDLED>",
    }
    it = Interp(repo, vela, externs=ext)
    cases = [("Arm/vela.ini", "<BUNDLED>/Arm/vela.ini", "Dir/file.ini resolves inside the bundled config_files directory, whatever exists in the working directory"),
             ("/abs/dir/my.ini", "/abs/dir/my.ini", "an absolute path is taken as given"),
             ("./Arm/vela.ini", "Arm/vela.ini|./Arm/vela.ini", "an explicit relative path is taken as given (never looked up in the bundled directory)"),
             ("a/b/c.ini", "a/b/c.ini", "a deeper relative path is taken as given")]
    for name, want, text in cases:
        rets = set()
        for p_ in it.run("main._parse_config", lambda name=name: ([name], {})):
            if p_.kind == "return":
                rets.add(p_.value if isinstance(p_.value, str) else getattr(p_.value, "text", repr(p_.value)))
        rep.check(bool(rets) and rets <= set(want.split("|")), "C18-a", f"{VP}:main._parse_config", f"`{name}`: {text}", f"returning paths give {sorted(rets)} (expected only {want})")
    for p_ in it.run("main._parse_config", lambda: (["Arm/vela.txt"], {})):
        rep.check(p_.kind == "raise", "C18-a", f"{VP}:main._parse_config", "a name without the .ini extension is rejected", f"{p_.kind}")
    cf = vela.assign("CONFIG_FILES_PATH")
    rep.check("config_files" in norm(cf), "C18-a", f"{VP}:<module>", "CONFIG_FILES_PATH points at the packaged config_files directory", norm(cf))


# ------------------------------------------------------------------ b


def rule_read_config(repo, rep, af):
    it = Interp(repo, af, max_depth=12)
    site = f"{AF}:ArchitectureFeatures._read_config"
    KEY = "k"
    shapes = []
    # chains S0 -> S1 -> S2 (child first); each level has / lacks the key; optional dangling or self parent
    for depth in (1, 2, 3):
        for mask in range(2 ** depth):
            secs = {}
            for i in range(depth):
                s = {}
                if mask >> i & 1:
                    s[KEY] = AObj(f"val{i}")
                if i + 1 < depth:
                    s["inherit"] = f"S{i + 1}"
                secs[f"S{i}"] = s
            shapes.append((f"chain depth {depth}, key at levels {[i for i in range(depth) if mask >> i & 1]}", secs, None))
    for has_key in (False, True):
        for lvl in (0, 1):
            # self inheritance at level lvl
            secs = {"S0": {"inherit": "S1"}, "S1": {}} if lvl == 1 else {"S0": {}}
            secs[f"S{lvl}"]["inherit"] = f"S{lvl}"
            if has_key:
                secs["S0"][KEY] = AObj("val0")
                if lvl == 1:
                    secs["S1"][KEY] = AObj("val1")
            shapes.append((f"self-inheritance at level {lvl}, key {'present' if has_key else 'absent'}", secs, "ConfigOptionError"))
            secs = {"S0": {"inherit": "S1"}, "S1": {"inherit": "Missing"}} if lvl == 1 else {"S0": {"inherit": "Missing"}}
            if has_key:
                for s in secs.values():
                    s[KEY] = AObj("valx")
            shapes.append((f"unknown parent at level {lvl}, key {'present' if has_key else 'absent'}", secs, "ConfigOptionError"))
    shapes.append(("unknown start section", {"Other": {}}, "ConfigOptionError"))
    for has_key in (False, True):
        for ln in (2, 3):
            secs = {f"S{i}": {"inherit": f"S{(i + 1) % ln}"} for i in range(ln)}
            if has_key:
                secs["S0"][KEY] = AObj("val0")
            shapes.append((f"inheritance cycle through {ln} sections, key {'present' if has_key else 'absent'}", secs, "ConfigOptionError"))
    for desc, secs, want_exc in shapes:
        def mk():
            cfg = Config(secs)
            slf = AObj("self", {"vela_config": cfg}, cls="ArchitectureFeatures")
            return [slf, "S0", KEY, "default", AList([], "found")], {}

        try:
            paths = list(it.run("ArchitectureFeatures._read_config", mk))
        except AnalysisError as e_:
            if want_exc and "depth" in str(e_):
                rep.bad("C18-b", site, f"{desc}: rejected with {want_exc}", "the reader recurses without end (RecursionError traceback instead of a configuration error)")
                continue
            raise
        for p in paths:
            if want_exc:
                nm = p.value.name if p.kind == "raise" and isinstance(p.value, AObj) else None
                rep.check(nm == want_exc, "C18-b", site, f"{desc}: rejected with {want_exc}", f"{p.kind} {p.value!r}")
                continue
            # expected: nearest level that has the key, else str(default)
            want = None
            i = 0
            while f"S{i}" in secs:
                if KEY in secs[f"S{i}"]:
                    want = secs[f"S{i}"][KEY].name
                    break
                i += 1
            got = p.value.name if isinstance(p.value, AObj) else (p.value.text if isinstance(p.value, Unknown) else repr(p.value))
            if want is None:
                ok = p.kind == "return" and "default" in got
                rep.check(ok, "C18-b", site, f"{desc}: the current value survives", f"returned {got}")
            else:
                rep.check(p.kind == "return" and got == want, "C18-b", site, f"{desc}: child-most definition {want} wins", f"returned {got}")
            found = p.args[0][4].items
            any_key = any(KEY in s for s in secs.values())
            rep.check(bool(found) and bool(found[-1]) == any_key, "C18-b", site, f"{desc}: `found` reports whether the key exists anywhere in the chain", f"found={found}")
    rep.floor("C18-b", 30)


# ------------------------------------------------------------------ c, d


def rule_get_vela_config(repo, rep, af):
    f = af.func("ArchitectureFeatures._get_vela_config")
    c = cfg_of(f)
    site = f"{AF}:ArchitectureFeatures._get_vela_config"
    # CLI override
    ov = [n for n in f.body if isinstance(n, ast.If) and any(isinstance(s, ast.Assign) and norm(s.targets[0]) == "self.arena_cache_size" and norm(s.value) == "arena_cache_size_from_cli" for s in n.body)]
    ok = len(ov) == 1 and norm(ov[0].test) in ("arena_cache_size_from_cli is not None", "not arena_cache_size_from_cli is None")
    rep.check(ok, "C18-c", site, "CLI arena cache size overrides whenever it is not None (0 included), unconditionally at function level",
              norm(ov[0].test) if ov else "override is missing or nested under another condition")
    if ov:
        n_ov = c.node_of(ov[0])
        file_reads = [x for x in c.nodes[3:] if x.stmt is not None and isinstance(x.stmt, ast.Assign) and norm(x.stmt.targets[0]) == "self.arena_cache_size" and x.id != c.node_of(ov[0].body[0])]
        rep.check(all(not c.reaches(n_ov, x.id) for x in file_reads), "C18-c", site, "no other write to arena_cache_size after the CLI override", "file value written after the override")
    # validations: top-level, unconditional, after last write, raise ConfigOptionError
    legal = {
        "const_mem_area": {"Dram", "OnChipFlash", "OffChipFlash"},
        "arena_mem_area": {"Sram", "Dram"},
        "cache_mem_area": {"Sram"},
    }
    for attr, allowed in legal.items():
        tests = [n for n in f.body if isinstance(n, ast.If) and f"self._mem_port_mapping(self.{attr})" in norm(n.test)
                 and any(isinstance(s, ast.Raise) for s in n.body)]
        ok = len(tests) == 1
        detail = "validation missing, duplicated or nested under another condition"
        if ok:
            t = tests[0].test
            ok = isinstance(t, ast.Compare) and len(t.ops) == 1 and norm(t.left) == f"self._mem_port_mapping(self.{attr})"
            if ok:
                names = set(re.findall(r"MemArea\.(\w+)", norm(t.comparators[0])))
                if isinstance(t.ops[0], ast.NotIn) or isinstance(t.ops[0], ast.NotEq):
                    ok = names == allowed if False else names <= allowed and bool(names)
                    detail = f"accepts {sorted(names)}; documented legal areas are {sorted(allowed)}"
                else:
                    ok = False
                    detail = f"unrecognised test {norm(t)}"
            if ok:
                exc = [s for s in tests[0].body if isinstance(s, ast.Raise)][0]
                ok = call_name(exc.exc) == "ConfigOptionError"
                detail = "does not raise ConfigOptionError"
            if ok:
                tn = c.node_of(tests[0])
                writes = [x for x in c.nodes[3:] if isinstance(x.stmt, ast.Assign) and norm(x.stmt.targets[0]) in (f"self.{attr}", "self.axi0_port", "self.axi1_port")]
                late = [w for w in writes if c.reaches(tn, w.id)]
                ok = not late and c.dominates(tn, 1)
                detail = "attribute or port mapping written after its validation" if late else "validation can be bypassed"
        rep.check(ok, "C18-c", site, f"{attr} is validated unconditionally against {sorted(allowed)} after its last write", detail)
    # the port mapping used by the validations must reflect the current ports (no memo that goes stale when a port is reassigned)
    pm = af.func("ArchitectureFeatures._mem_port_mapping")
    reads = {n_.attr for n_ in ast.walk(pm) if isinstance(n_, ast.Attribute) and norm(n_.value) == "self"}
    writes = [n_ for n_ in ast.walk(pm) if isinstance(n_, (ast.Assign, ast.AugAssign)) and any(isinstance(t, ast.Attribute) and norm(t.value) == "self" for t in (n_.targets if isinstance(n_, ast.Assign) else [n_.target]))]
    rep.check(reads == {"axi0_port", "axi1_port"} and not writes, "C18-c", f"{AF}:ArchitectureFeatures._mem_port_mapping",
              "_mem_port_mapping reads the current axi0_port / axi1_port on every call (stateless)", f"reads self.{sorted(reads)}, writes {[norm(w)[:40] for w in writes]}: a cached map is stale after the Sram -> OnChipFlash port reassignment")
    for txt, ords_ok in (("self.arena_cache_size < 0", None), ("self.arena_cache_size > self.max_address_offset", None)):
        want = comparison(ast.parse(txt, mode="eval").body)
        hits = []
        for n in f.body:
            if isinstance(n, ast.If) and any(isinstance(s, ast.Raise) and call_name(s.exc) == "ConfigOptionError" for s in n.body):
                cm = comparison(n.test)
                if cm and cm[0] == want[0] and cm[1] >= want[1]:
                    hits.append(n)
        ok = len(hits) == 1
        if ok:
            tn = c.node_of(hits[0])
            writes = [x for x in c.nodes[3:] if isinstance(x.stmt, ast.Assign) and norm(x.stmt.targets[0]) == "self.arena_cache_size"]
            ok = not [w for w in writes if c.reaches(tn, w.id)] and c.dominates(tn, 1)
        rep.check(ok, "C18-c", site, f"`{txt}` is rejected with ConfigOptionError, unconditionally, after the last write", "bound check weakened, nested or bypassable")
    # d: section selection chains
    for sec, opt in (("sys_cfg_section", "--system-config"), ("mem_mode_section", "--memory-mode")):
        chain = [n for n in f.body if isinstance(n, ast.If) and norm(n.test) == f"self.vela_config is not None and self.vela_config.has_section({sec})"]
        ok = len(chain) == 1
        detail = "selection chain not found"
        if ok:
            arms = []
            cur = chain[0]
            while True:
                arms.append(cur)
                if len(cur.orelse) == 1 and isinstance(cur.orelse[0], ast.If):
                    cur = cur.orelse[0]
                else:
                    break
            last_else = arms[-1].orelse
            tests = [norm(a.test) for a in arms]
            ok = (
                len(arms) == 3 and "ArchitectureFeatures.DEFAULT_CONFIG" in tests[1] and tests[2] == "vela_config_files is None"
                and any(isinstance(s, ast.Raise) and call_name(s.exc) == "CliOptionError" for s in arms[2].body)
                and any(isinstance(s, ast.Raise) and call_name(s.exc) == "CliOptionError" for s in last_else)
            )
            detail = f"arms {tests}"
        rep.check(ok, "C18-d", site, f"{opt}: named section | internal-default | no file -> CliOptionError | unknown section -> CliOptionError", detail)
    rep.floor("C18-c", 6)
    rep.floor("C18-d", 6)
    # keys read per section kind (used by rule f)
    # main(): constructor is given the CLI value
    vela = repo.mod("vela")
    m = vela.func("main")
    for call in ast.walk(m):
        if isinstance(call, ast.Call) and (call_name(call) or "").split(".")[-1] in ("ArchitectureFeatures", "Imx93ArchitectureFeatures"):
            v = get_kwarg(call, "arena_cache_size")
            rep.check(v is not None and norm(v) == "args.arena_cache_size", "C18-c", f"{VP}:main", f"{call_name(call)}(arena_cache_size=args.arena_cache_size)", norm(v) if v else "missing")
    init = af.func("ArchitectureFeatures.__init__")
    cs = calls_in(init, "self._get_vela_config")
    rep.check(len(cs) == 1 and [norm(a) for a in cs[0].args] == ["vela_config_files", "verbose_config", "arena_cache_size"], "C18-c", f"{AF}:ArchitectureFeatures.__init__",
              "_get_vela_config(vela_config_files, verbose_config, arena_cache_size)", norm(cs[0]) if cs else "")


# ------------------------------------------------------------------ e


def rule_literal_options(repo, rep, vela):
    """Inside main() a keyword argument that is named like a command-line option carries that option: a string / number
    literal in its place silently ignores what the user asked for (convert() / convert_bytes() have no `args` and are not
    looked at)."""
    mn = vela.func("main")
    dests = set()
    for c in calls_in(mn, ".add_argument"):
        for a in c.args:
            if isinstance(a, ast.Constant) and isinstance(a.value, str) and a.value.startswith("--"):
                dests.add(a.value[2:].replace("-", "_"))
        for k in c.keywords:
            if k.arg == "dest" and isinstance(k.value, ast.Constant):
                dests.add(k.value.value)
    n = 0
    for c in calls_in(mn):
        for k in c.keywords:
            if k.arg in dests and call_name(c) not in ("parser.add_argument",) and not (call_name(c) or "").endswith("add_argument"):
                n += 1
                rep.check(not isinstance(k.value, ast.Constant), "C18-c", "ethosu/vela/vela.py:main", f"{call_name(c)}({k.arg}=...) passes the option, not a literal",
                          f"{k.arg}={str(norm(k.value))}: --{k.arg.replace('_', '-')} is silently ignored on this path")
    if n < 10:
        raise AnalysisError(f"main(): only {n} option-named keyword arguments found")


def rule_docs(repo, rep, vela, af):
    md = parse_options_md(repo.read_text("OPTIONS.md"))
    f = vela.func("main")
    args = {}
    for call in ast.walk(f):
        if isinstance(call, ast.Call) and call_name(call) == "parser.add_argument" and call.args and isinstance(call.args[0], ast.Constant):
            flag = call.args[0].value
            args[flag] = call
    site = f"{VP}:main"
    n = 0
    for head, info in md.items():
        import difflib

        want = head.lower().replace(" ", "-")
        cands = [fl for fl in dict.fromkeys(info["flags"]) if fl in args]
        if not cands:
            continue
        flag = max(cands, key=lambda fl: difflib.SequenceMatcher(None, want, fl[2:]).ratio())
        if difflib.SequenceMatcher(None, want, flag[2:]).ratio() < 0.6:
            continue
        call = args[flag]
        d = get_kwarg(call, "default")
        if info["default"] is not None and info["default"] not in ("N/A",):
            doc = info["default"]
            code = resolve_default(repo, vela, d) if d is not None else None
            if doc.startswith("Use `internal-default`"):
                ok = code == "internal-default"
                rep.check(ok, "C18-e", site, f"{flag}: documented default internal-default", f"coded default {code!r}")
                n += 1
            elif doc in ("use default configuration",):
                rep.check(d is None or (isinstance(d, ast.Constant) and d.value is None), "C18-e", site, f"{flag}: no default file", f"coded default {code!r}")
                n += 1
            else:
                docv = doc.lstrip("./")
                codev = str(code).lstrip("./") if code is not None else None
                n += 1
                rep.check(codev == docv, "C18-e", site, f"{flag}: documented default {doc}", f"coded default is {code!r}")
        elif info["default"] is None and flag == "--arena-cache-size":
            n += 1
            rep.check(d is None or (isinstance(d, ast.Constant) and d.value is None), "C18-e", site,
                      "--arena-cache-size: documented as unset unless given (file value, else maximum address)",
                      f"coded default is {norm(d)}: the CLI value is never None, so it always overrides the configuration file")
        if info["choices"] and flag != "--arena-cache-size":
            ch = get_kwarg(call, "choices")
            code_ch = None
            if ch is not None:
                t = norm(ch)
                if "Accelerator.member_list()" in t:
                    code_ch = [v for v in enum_of(repo, "architecture_features", "Accelerator").values() if isinstance(v, str)]
                elif t == "list(TensorAllocator)":
                    code_ch = list(enum_of(repo, "nn_graph", "TensorAllocator"))
                elif t == "list(scheduler.OptimizationStrategy)":
                    code_ch = list(enum_of(repo, "scheduler", "OptimizationStrategy"))
                elif t.startswith("range(0, ") and "MAX_BLOCKDEP + 1" in t:
                    mb = try_fold(af.class_assigns("ArchitectureFeatures")["MAX_BLOCKDEP"])
                    code_ch = [str(i) for i in range(0, mb + 1)]
            n += 1
            rep.check(code_ch is not None and sorted(map(str, code_ch)) == sorted(info["choices"]), "C18-e", site, f"{flag}: documented choices {info['choices']}",
                      f"coded choices {code_ch}")
    rep.floor("C18-e", 12)
    # documented mapping of internal-default to vela.ini sections
    ini = parse_ini(repo.read_text("ethosu/config_files/Arm/vela.ini"))
    doc_map = {True: ("System_Config.Ethos_U65_Client_Server", "Memory_Mode.Dedicated_Sram"), False: ("System_Config.Ethos_U55_High_End_Embedded", "Memory_Mode.Shared_Sram")}
    txt = repo.read_text("OPTIONS.md")
    if "Ethos-U65 Client-Server" not in txt or "Ethos-U55 High-End Embedded" not in txt or "Dedicated SRAM" not in txt or "Shared SRAM" not in txt:
        raise AnalysisError("documented internal-default mapping not found in OPTIONS.md")

    def coded_sys(func):
        """{is_u65: {ini key: literal}} from a _set_default_sys_config body."""
        out = {}
        branches = []
        top_if = [s for s in func.body if isinstance(s, ast.If) and "is_ethos_u65_system" in norm(s.test)]
        if top_if:
            branches = [(True, top_if[0].body), (False, top_if[0].orelse)]
        else:
            branches = [(None, func.body)]
        for flag, body in branches:
            d = {}
            for s in body:
                if not isinstance(s, ast.Assign):
                    continue
                t = norm(s.targets[0])
                v = s.value
                val = norm(v).replace("MemArea.", "")
                m1 = re.fullmatch(r"self\.memory_clock_scales\[MemArea\.(\w+)\]", t)
                m2 = re.fullmatch(r"self\.memory_burst_length\[MemArea\.(\w+)\]", t)
                m3 = re.fullmatch(r"self\.memory_latency\[MemArea\.(\w+)\]\[BandwidthDirection\.(\w+)\]", t)
                if t in ("self.core_clock", "self.axi0_port", "self.axi1_port"):
                    d[t[5:]] = val
                elif m1:
                    d[f"{m1.group(1)}_clock_scale"] = val
                elif m2:
                    d[f"{m2.group(1)}_burst_length"] = val
                elif m3:
                    d[f"{m3.group(1)}_{m3.group(2).lower()}_latency"] = val
            out[flag] = d
        return out

    def same(a, b):
        try:
            return float(a) == float(b)
        except ValueError:
            return a == b

    coded = coded_sys(af.func("ArchitectureFeatures._set_default_sys_config"))
    for is65 in (True, False):
        sec = ini.get(doc_map[is65][0])
        if sec is None:
            raise AnalysisError(f"vela.ini lacks {doc_map[is65][0]}")
        d = coded.get(is65, {})
        diff = {k: (d.get(k), v) for k, v in sec.items() if not same(str(d.get(k)), v)}
        rep.check(not diff and len(d) >= 8, "C18-e", f"{AF}:ArchitectureFeatures._set_default_sys_config",
                  f"internal-default system config ({'U65' if is65 else 'U55'}) equals documented section {doc_map[is65][0]}", f"differences (coded, ini): {diff}")
    vela_m = repo.mod("vela")
    if "Imx93ArchitectureFeatures._set_default_sys_config" in vela_m.functions:
        d = coded_sys(vela_m.func("Imx93ArchitectureFeatures._set_default_sys_config")).get(None, {})
        sec = ini[doc_map[True][0]]
        diff = {k: (d.get(k), v) for k, v in sec.items() if not same(str(d.get(k)), v)}
        rep.check(not diff, "C18-e", f"{VP}:Imx93ArchitectureFeatures._set_default_sys_config",
                  f"the default (no --config) system configuration equals the documented internal-default mapping {doc_map[True][0]}", f"differences (coded, ini): {diff}")
    # memory mode defaults
    mm = af.func("ArchitectureFeatures._set_default_mem_mode")
    top_if = [s for s in mm.body if isinstance(s, ast.If) and "is_ethos_u65_system" in norm(s.test)]
    if not top_if:
        raise AnalysisError("_set_default_mem_mode not recognised")
    for is65, body in ((True, top_if[0].body), (False, top_if[0].orelse)):
        d = {norm(s.targets[0])[5:]: norm(s.value).replace("MemPort.", "") for s in body if isinstance(s, ast.Assign)}
        sec = dict(ini[doc_map[is65][1]])
        chain = sec
        while "inherit" in chain:
            chain = ini[chain["inherit"]]
            for k, v in chain.items():
                sec.setdefault(k, v)
        sec.pop("inherit", None)
        diff = {}
        for k, v in sec.items():
            if k == "arena_cache_size":
                continue
            if d.get(k) != v:
                diff[k] = (d.get(k), v)
        rep.check(not diff, "C18-e", f"{AF}:ArchitectureFeatures._set_default_mem_mode", f"internal-default memory mode ({'U65' if is65 else 'U55'}) uses the ports of {doc_map[is65][1]}", str(diff))


# ------------------------------------------------------------------ f


def rule_ini(repo, rep, af):
    ini = parse_ini(repo.read_text("ethosu/config_files/Arm/vela.ini"))
    f = af.func("ArchitectureFeatures._get_vela_config")
    areas = [k for k in enum_of(repo, "tensor", "MemArea") if k not in ("Unknown", "Size")]
    ports = [k for k in enum_of(repo, "architecture_features", "MemPort")]
    keys_sys, keys_mem = set(), set()
    for call in list(calls_in(f, "self._read_config")) + list(calls_in(f, "self._read_port")):
        sec, key = norm(call.args[0]), call.args[1]
        tgt = keys_sys if sec == "sys_cfg_section" else keys_mem
        if isinstance(key, ast.Constant):
            tgt.add(key.value)
        else:
            m = re.fullmatch(r"mem_area\.name \+ '(\w+)'", norm(key))
            if not m:
                raise AnalysisError(f"_read_config key not recognised: {norm(key)}")
            for a in areas:
                tgt.add(a + m.group(1))
    site = "ethosu/config_files/Arm/vela.ini"
    n = 0
    for sec, kv in ini.items():
        kind = sec.split(".")[0]
        allowed = keys_sys if kind == "System_Config" else keys_mem if kind == "Memory_Mode" else None
        rep.check(allowed is not None, "C18-f", site, f"[{sec}] is a System_Config or Memory_Mode section", "unknown section kind")
        if allowed is None:
            continue
        for k, v in kv.items():
            n += 1
            if k == "inherit":
                seen = {sec}
                cur = v
                ok = True
                while True:
                    if cur not in ini or cur in seen:
                        ok = False
                        break
                    seen.add(cur)
                    if "inherit" in ini[cur]:
                        cur = ini[cur]["inherit"]
                    else:
                        break
                rep.check(ok, "C18-f", site, f"[{sec}] inherit={v} names an existing section without a cycle", "dangling or cyclic inherit")
                continue
            rep.check(k in allowed, "C18-f", site, f"[{sec}] {k} is a key the reader asks for", "key is never read (silently ignored)")
            if k in ("axi0_port", "axi1_port"):
                rep.check(v in areas, "C18-f", site, f"[{sec}] {k}={v} is a MemArea", "illegal area")
            if k.endswith("_mem_area"):
                rep.check(v in ports, "C18-f", site, f"[{sec}] {k}={v} is a MemPort", "illegal port")
    rep.floor("C18-f", 60)


def rule_round4(repo, rep, vela, af):
    """Unspecified options take "1 (or the equivalent)": the by-value enum constructions that initialise them denote the
    first real member; the i.MX93 subclass (which replaces the internal defaults) is only built for the all-default selection."""
    from ..astutil import enum_members

    gv = af.func("ArchitectureFeatures._get_vela_config")
    first = {"MemPort": "Axi0", "MemArea": "Sram"}
    homes = {"MemPort": repo.mod("architecture_features"), "MemArea": repo.mod("tensor")}
    n = 0
    for c in ast.walk(gv):
        if isinstance(c, ast.Call) and isinstance(c.func, ast.Name) and c.func.id in first and len(c.args) == 1 and isinstance(c.args[0], ast.Constant):
            mem = enum_members(homes[c.func.id].cls(c.func.id))
            hit = [k for k, v in mem.items() if v == c.args[0].value]
            n += 1
            rep.check(hit[:1] == [first[c.func.id]], "C18-b", f"{AF}:ArchitectureFeatures._get_vela_config", f"initial value `{norm(c)}` of an unspecified option is {c.func.id}.{first[c.func.id]} (the documented 'value of 1 or the equivalent')",
                      f"`{norm(c)}` denotes {hit or 'no member'} under the current numbering of {c.func.id}: an option that no selected section specifies resolves to a different port / memory than documented")
    if n < 5:
        raise AnalysisError(f"_get_vela_config: only {n} by-value enum initialisations found")
    nx = 0
    for q, fn in vela.functions.items():
        for c in ast.walk(fn):
            if isinstance(c, ast.Call) and (call_name(c) or "").split(".")[-1] == "Imx93ArchitectureFeatures":
                kw = {k.arg: str(norm(k.value)) for k in c.keywords}
                nx += 1
                ok = all(kw.get(k_, "").endswith("DEFAULT_CONFIG") for k_ in ("system_config", "memory_mode"))
                rep.check(ok, "C18-e", f"{VP}:{q}", "Imx93ArchitectureFeatures (which replaces the internal-default system configuration) is built only with system_config = memory_mode = internal-default",
                          f"built with system_config={kw.get('system_config')}, memory_mode={kw.get('memory_mode')}: a selection made with --config / --memory-mode while the system configuration is left "
                          "unspecified gets the i.MX93 values instead of the documented internal-default mapping")
    if nx < 3:
        raise AnalysisError(f"Imx93ArchitectureFeatures construction sites: only {nx} found")


def rule_round5(repo, rep, vela, af):
    """An option that no selected section specifies keeps the value it had: the default handed to _read_config / _read_port is the
    current value of the very attribute that receives the result. The resolved arena cache size is what the scheduler gets."""
    gv = af.func("ArchitectureFeatures._get_vela_config")
    n = 0
    for st in ast.walk(gv):
        if not (isinstance(st, ast.Assign) and len(st.targets) == 1):
            continue
        calls = [c for c in ast.walk(st.value) if isinstance(c, ast.Call) and str(norm(c.func)) in ("self._read_config", "self._read_port") and len(c.args) >= 3]
        if len(calls) != 1:
            continue
        tgt = str(norm(st.targets[0]))
        dflt = str(norm(calls[0].args[2]))
        if dflt.endswith(".name"):
            dflt = dflt[:-5]
        n += 1
        rep.check(dflt == tgt, "C18-b", f"{AF}:ArchitectureFeatures._get_vela_config", f"`{tgt}` is read with its own current value as the default",
                  f"the default is `{dflt}`: when no selected section gives {str(norm(calls[0].args[1]))[:50]} the attribute takes another attribute's value instead of keeping its documented default")
    if n < 10:
        raise AnalysisError(f"_get_vela_config: only {n} option reads found")
    so = [c for c in ast.walk(vela.func("main")) if isinstance(c, ast.Call) and (call_name(c) or "").endswith("SchedulerOptions")]
    if len(so) != 1:
        raise AnalysisError("main: SchedulerOptions construction not found")
    kw = {k.arg: str(norm(k.value)) for k in so[0].keywords}
    rep.check(kw.get("sram_target") == "arch.arena_cache_size", "C18-c", f"{VP}:main", "the scheduler's SRAM target is the resolved arena cache size (file value overridden by the CLI)",
              f"sram_target = {kw.get('sram_target')}: the size resolved from --arena-cache-size / the configuration file is printed but not used for the compilation")


def rule_values_from_file(repo, rep, af):
    """(g) every value that _get_vela_config takes from the file and converts - an enumeration member by name, a number by float() / int() - is
    converted where a failure becomes a ConfigOptionError: inside a try whose handler raises it, or after a membership test that raises; an
    AXI port name is tested against the documented set (the memory areas a port can be connected to), not against every member of the
    enumeration. Values are followed from `_read_config(...)` into locals and into the parameters of the class's own helpers."""
    import re as _re

    rep.clause("C18-g", "illegal values in the configuration file (unknown port / area names, non-numeric numbers) are rejected with ConfigOptionError: every name-indexed enumeration lookup and every "
               "numeric conversion of a value read from the file is guarded; AXI port names are tested against the documented set")
    cls_funcs = {q: fn for q, fn in af.functions.items() if q.startswith("ArchitectureFeatures.") and q != "ArchitectureFeatures._read_config"}
    # parameters of helpers that receive a value read from the file
    from_file_params = {}
    for q, fn in cls_funcs.items():
        for c in ast.walk(fn):
            if isinstance(c, ast.Call) and isinstance(c.func, ast.Attribute) and isinstance(c.func.value, ast.Name) and c.func.value.id in ("self", "ArchitectureFeatures", "cls"):
                tgt = cls_funcs.get(f"ArchitectureFeatures.{c.func.attr}")
                if tgt is None:
                    continue
                params = [a.arg for a in tgt.args.args if a.arg not in ("self", "cls")]
                for i, a in enumerate(c.args):
                    if "_read_config(" in str(norm(a)) and i < len(params):
                        from_file_params.setdefault(f"ArchitectureFeatures.{c.func.attr}", set()).add(params[i])

    def in_guarding_try(node, fn, exc_names):
        cur = node
        while cur is not fn and cur is not None:
            pp = af.parents.get(cur)
            if isinstance(pp, ast.Try) and cur in pp.body:
                for h in pp.handlers:
                    hn = str(norm(h.type)) if h.type is not None else ""
                    if any(e in hn for e in exc_names) and any(isinstance(x, ast.Raise) and "ConfigOptionError" in str(norm(x.exc)) for x in ast.walk(h)):
                        return True
            cur = pp
        return False

    n = 0
    for q, fn in sorted(cls_funcs.items()):
        names = set(from_file_params.get(q, set()))
        names |= {st.targets[0].id for st in ast.walk(fn) if isinstance(st, ast.Assign) and isinstance(st.targets[0], ast.Name) and "_read_config(" in str(norm(st.value))
                  and not (isinstance(st.value, ast.Call) and isinstance(st.value.func, ast.Name) and st.value.func.id in ("float", "int"))}
        params = {a.arg for a in fn.args.args}

        def reads_file(e):
            t = str(norm(e))
            return "_read_config(" in t or any(_re.search(rf"\b{v}\b", t) for v in names)

        for x in ast.walk(fn):
            if isinstance(x, ast.Subscript) and isinstance(x.value, ast.Name) and x.value.id in ("MemPort", "MemArea") and isinstance(x.ctx, ast.Load) and reads_file(x.slice):
                n += 1
                member_tested = isinstance(x.slice, ast.Name) and any(
                    isinstance(st, ast.If) and st.lineno < x.lineno and st.body and isinstance(st.body[-1], ast.Raise) and f"{x.slice.id} not in" in str(norm(st.test)) for st in ast.walk(fn))
                if not member_tested and isinstance(x.slice, ast.Name):
                    # positive form: the subscript sits under `if <name> in <Enum>.__members__:`
                    cur_ = x
                    while cur_ is not fn and cur_ is not None:
                        pp_ = af.parents.get(cur_)
                        if pp_ is None:
                            break
                        if isinstance(pp_, ast.If) and cur_ in pp_.body and f"{x.slice.id} in " in str(norm(pp_.test)) and "not in" not in str(norm(pp_.test)):
                            member_tested = True
                        cur_ = pp_
                rep.check(member_tested or in_guarding_try(x, fn, ("KeyError",)), "C18-g", f"ethosu/vela/architecture_features.py:{q}", f"`{str(norm(x))[:70]}`: an unknown name becomes a ConfigOptionError",
                          "the lookup is neither preceded by a membership test that raises nor inside `try ... except KeyError: raise ConfigOptionError` "
                          "(demonstrated: const_mem_area=Axi2 ends in a KeyError traceback)")
            if isinstance(x, ast.Call) and isinstance(x.func, ast.Name) and (x.func.id in ("float", "int") or x.func.id in params) and len(x.args) == 1 and reads_file(x.args[0]):
                n += 1
                rep.check(in_guarding_try(x, fn, ("ValueError",)), "C18-g", f"ethosu/vela/architecture_features.py:{q}", f"`{str(norm(x))[:70]}`: a value that is no number becomes a ConfigOptionError",
                          "the conversion is not inside `try ... except ValueError: raise ConfigOptionError` (demonstrated: core_clock=fast and arena_cache_size=384K end in a ValueError traceback)")
    rp = af.func("ArchitectureFeatures._read_port")
    tests = [i_ for i_ in ast.walk(rp) if isinstance(i_, ast.If) and i_.body and isinstance(i_.body[-1], ast.Raise) and " not in " in str(norm(i_.test))]
    ok = False
    detail = "no membership test"
    if tests:
        t = str(norm(tests[0].test))
        detail = t
        ok = "__members__" not in t
    rep.check(ok, "C18-g", "ethosu/vela/architecture_features.py:ArchitectureFeatures._read_port", "an AXI port name is tested against the set of memory areas a port can be connected to",
              f"`{detail}` admits every member of MemArea: axi1_port=Shram / Unknown is accepted (and later silently replaced), axi0_port=Size raises IndexError")
    if n < 3:
        raise AnalysisError(f"only {n} conversions of values read from the configuration file found")
    rep.floor("C18-g", 4)


def rule_reads_go_through_read_config(repo, rep, af):
    """(i) inheritance is implemented in _read_config only. Every option value that _get_vela_config (and the helpers it calls) takes from the
    parsed file is obtained through it: the ConfigParser object itself is used for has_section / has_option / read, never for get* or
    subscripting, which look at the named section alone."""
    rep.clause("C18-i", "option values are read from the parsed file through _read_config only (ConfigParser's own getters know nothing of `inherit`)")
    n = 0
    for q, fn in af.functions.items():
        if not q.startswith("ArchitectureFeatures."):
            continue
        for x in ast.walk(fn):
            if isinstance(x, ast.Call) and isinstance(x.func, ast.Attribute) and str(norm(x.func.value)) == "self.vela_config":
                n += 1
                ok = x.func.attr in ("has_section", "has_option", "read", "sections") or q == "ArchitectureFeatures._read_config"
                rep.check(ok, "C18-i", f"ethosu/vela/architecture_features.py:{q}", f"`{str(norm(x))[:70]}`",
                          f"`{x.func.attr}` reads the named section only: a value that the section inherits from its parent is not seen and the option silently keeps its default")
            if isinstance(x, ast.Subscript) and str(norm(x.value)) == "self.vela_config" and q != "ArchitectureFeatures._read_config":
                n += 1
                rep.bad("C18-i", f"ethosu/vela/architecture_features.py:{q}", f"`{str(norm(x))[:70]}`", "direct access to a section bypasses `inherit`")
    if n < 4:
        raise AnalysisError(f"uses of self.vela_config: {n}")
    rep.floor("C18-i", 4)


def rule_round7(repo, rep):
    """(j) legality tests of configuration values are membership tests in an explicit collection. `x not in MemArea.Sram | MemArea.Dram` is
    a flag containment test: MemArea is an IntFlag with consecutive values, Sram | Dram *is* OnChipFlash, and containment is true for all
    three. (k) a bundled section whose name extends another section's name (Dedicated_Sram_512KB / Dedicated_Sram) inherits from it: the
    name is what the documentation and the user select by."""
    import os as _os
    import re as _re

    af = repo.mod("architecture_features")
    n = 0
    for q, fn in af.functions.items():
        for c in ast.walk(fn):
            if isinstance(c, ast.Compare) and len(c.ops) == 1 and isinstance(c.ops[0], (ast.In, ast.NotIn)):
                r = c.comparators[0]
                n += 1
                rep.check(not (isinstance(r, ast.BinOp) and isinstance(r.op, (ast.BitOr, ast.BitAnd, ast.Add))), "C18-j", f"ethosu/vela/architecture_features.py:{q}",
                          f"`{str(norm(c))[:70]}` tests membership in a collection", f"the right operand `{str(norm(r))[:50]}` is one combined flag value: for MemArea (IntFlag, Sram=1, Dram=2, OnChipFlash=3) "
                          "Sram | Dram equals OnChipFlash and flag containment accepts it: an arena on OnChipFlash passes the check")
    if n < 5:
        raise AnalysisError(f"architecture_features: {n} membership tests")
    ini = _os.path.join(repo.root, "ethosu", "config_files", "Arm", "vela.ini")
    if not _os.path.exists(ini):
        raise AnalysisError("ethosu/config_files/Arm/vela.ini not found")
    sections = {}
    cur = None
    for ln in open(ini):
        ln = ln.strip()
        mm = _re.fullmatch(r"\[(.+)\]", ln)
        if mm:
            cur = mm.group(1)
            sections[cur] = {}
        elif cur and "=" in ln and not ln.startswith((";", "#")):
            k, v = ln.split("=", 1)
            sections[cur][k.strip()] = v.strip()
    k_ = 0
    for name in sections:
        bases = [b for b in sections if b != name and name.startswith(b + "_")]
        for b in bases:
            k_ += 1
            chain = []
            x = name
            while x in sections and "inherit" in sections[x] and x not in chain:
                chain.append(x)
                x = sections[x]["inherit"]
            chain.append(x)
            rep.check(b in chain[1:], "C18-k", f"ethosu/config_files/Arm/vela.ini:[{name}]", f"[{name}] inherits from [{b}], whose name it extends",
                      f"inherit chain {chain}: the documented '{name.split('.')[-1]}' mode resolves to the memory areas of another mode (arena in Sram, no dedicated cache limit)")
    if k_ < 1:
        raise AnalysisError("vela.ini: no section extends another section's name")


def rule_parse_guarded(repo, rep):
    """(l) a configuration file that ConfigParser cannot parse (duplicate section or option, text before the first header, a '%' in a
    value) is reported as a Vela error: the `read` of the parser object sits in a `try` whose handler catches configparser's base error
    (or wider) and raises a VelaError subclass, and values are read without interpolation (`interpolation=None`) or every `get` is
    guarded the same way - an InterpolationSyntaxError is raised by `get`, not by `read`."""
    af = repo.mod("architecture_features")
    site = "ethosu/vela/architecture_features.py:ArchitectureFeatures._get_vela_config"
    imports = {}
    for st in af.tree.body:
        if isinstance(st, ast.ImportFrom) and st.module == "configparser":
            for a in st.names:
                imports[a.asname or a.name] = a.name
    makes = []
    reads = []
    for q, fn in af.functions.items():
        for c in ast.walk(fn):
            if isinstance(c, ast.Call) and (call_name(c) in ("ConfigParser", "configparser.ConfigParser") or imports.get(call_name(c) or "") == "ConfigParser"):
                makes.append((q, fn, c))
            if isinstance(c, ast.Call) and isinstance(c.func, ast.Attribute) and c.func.attr in ("read", "read_file", "read_string") and "vela_config" in str(norm(c.func.value)):
                reads.append((q, fn, c))
    if not makes or not reads:
        raise AnalysisError("architecture_features: construction / read of the configuration parser not found")
    for q, fn, c in makes:
        kw = {k.arg: str(norm(k.value)) for k in c.keywords}
        rep.check(kw.get("interpolation") == "None", "C18-l", f"ethosu/vela/architecture_features.py:{q}", "values are read without interpolation (interpolation=None)",
                  f"`{str(norm(c))}`: with the default BasicInterpolation a '%' in a value makes `get` raise InterpolationSyntaxError: a traceback instead of `Error: ...` and status 1")
    base = {"Error", "ConfigParserError", "Exception", "BaseException", "configparser.Error"} | {k for k, v in imports.items() if v == "Error"}
    for q, fn, c in reads:
        tr = None
        cur = af.parents.get(c)
        while cur is not None and cur is not fn:
            if isinstance(cur, ast.Try) and any(c is x for st in cur.body for x in ast.walk(st)):
                tr = cur
                break
            cur = af.parents.get(cur)
        ok = False
        if tr is not None:
            for h in tr.handlers:
                names = set()
                if h.type is None:
                    names.add("BaseException")
                else:
                    for x in ([h.type] if not isinstance(h.type, ast.Tuple) else h.type.elts):
                        names.add(str(norm(x)))
                if names & base and any(isinstance(x, ast.Raise) and x.exc is not None and isinstance(x.exc, ast.Call) and str(norm(x.exc.func)).endswith("Error") and str(norm(x.exc.func)) not in base for x in ast.walk(h)):
                    ok = True
        rep.check(ok, "C18-l", f"ethosu/vela/architecture_features.py:{q}", f"`{str(norm(c))[:60]}` is guarded: parser errors become a Vela error",
                  "the parse is unguarded: a duplicate section / option or text before the first header escapes vela.main() as a configparser traceback (only VelaError is caught there)")


def rule_round8(repo, rep):
    """(m) when all three memory areas of a mode sit on the SRAM port, the constants are moved to the *other* port and that port is
    relabelled OnChipFlash: in each branch the port whose area becomes OnChipFlash is the port const_mem_area was just set to. (n)
    `_to_number` converts the file's text with the requested type itself (`int("393216.75")` raises and is reported; a detour through
    float() truncates silently). (o) the bundled file documents the bandwidth of every memory of a system configuration in the comment
    above its section: clock x port width (8 bytes on Ethos-U55, 16 on Ethos-U65) x clock scale must give the documented GB/s."""
    import os as _os
    import re as _re

    af = repo.mod("architecture_features")
    f = af.func("ArchitectureFeatures._get_vela_config")
    site = "ethosu/vela/architecture_features.py:ArchitectureFeatures._get_vela_config"
    n = 0
    for i in ast.walk(f):
        if isinstance(i, ast.If) and "self.const_mem_area == MemPort." in str(norm(i.test)):
            for body in (i.body, i.orelse):
                moved = [str(norm(a.value)) for a in body if isinstance(a, ast.Assign) and str(norm(a.targets[0])) == "self.const_mem_area"]
                relab = [str(norm(a.targets[0])) for a in body if isinstance(a, ast.Assign) and str(norm(a.value)) == "MemArea.OnChipFlash"]
                if len(moved) == 1 and len(relab) == 1:
                    n += 1
                    port = moved[0].split(".")[-1].lower()
                    rep.check(relab[0] == f"self.{port}_port", "C18-m", site, f"constants moved to {moved[0]}: `self.{port}_port` becomes OnChipFlash",
                              f"`{relab[0]} = MemArea.OnChipFlash` relabels the port that still carries arena and cache: a Sram-only mode with the SRAM on AXI1 is rejected ('Invalid configuration of arena_mem_area=OnChipFlash')")
    if n < 2:
        raise AnalysisError(f"_get_vela_config: {n} branches of the sram -> onchipflash override found")
    g = af.func("ArchitectureFeatures._to_number")
    rets = [r for r in ast.walk(g) if isinstance(r, ast.Return) and r.value is not None]
    ok = len(rets) == 1 and isinstance(rets[0].value, ast.Call) and str(norm(rets[0].value.func)) == "number_type" and len(rets[0].value.args) == 1 and isinstance(rets[0].value.args[0], ast.Name)
    rep.check(ok, "C18-n", "ethosu/vela/architecture_features.py:ArchitectureFeatures._to_number", "the text of the option is converted by the requested type itself",
              f"`{str(norm(rets[0].value)) if rets else ''}`: an integer option written as 393216.75 or -0.5 is truncated (393216, 0) instead of being reported as a configuration error")
    ini = _os.path.join(repo.root, "ethosu", "config_files", "Arm", "vela.ini")
    lines = open(ini).read().splitlines()
    k = 0
    init = af.func("ArchitectureFeatures.__init__")
    bpcs = [a.value for a in ast.walk(init) if isinstance(a, ast.Assign) and str(norm(a.targets[0])) == "self.memory_bandwidths_per_cycle"]
    if len(bpcs) != 1:
        raise AnalysisError(f"ArchitectureFeatures.__init__: {len(bpcs)} assignments of memory_bandwidths_per_cycle")
    bpc_expr = bpcs[0]
    for idx, ln in enumerate(lines):
        mm = _re.fullmatch(r"\[System_Config\.(Ethos_U(55|65)\w*)\]", ln.strip())
        if not mm:
            continue
        doc = lines[idx - 1] if idx else ""
        pairs = _re.findall(r"(SRAM|Sram|DRAM|Dram|Flash)\s*\(([0-9.]+) GB/s\)", doc)
        vals = {}
        for l2 in lines[idx + 1:]:
            if l2.strip().startswith("["):
                break
            if "=" in l2 and not l2.strip().startswith(";"):
                a, b = l2.split("=", 1)
                vals[a.strip()] = b.strip()
        width = 8 if mm.group(2) == "55" else 16
        for name, gbs in pairs:
            key = {"sram": "Sram", "dram": "Dram", "flash": "OffChipFlash"}[name.lower()] + "_clock_scale"
            if key not in vals or "core_clock" not in vals:
                continue
            k += 1
            # bytes per cycle as the code derives them: the source expression of `self.memory_bandwidths_per_cycle`, folded for this row
            bpc = eval_with(bpc_expr, {"axi_port_data_width": width * 8, "self.memory_clock_scales": float(vals[key])})
            if bpc is None:
                raise AnalysisError(f"architecture_features: `{norm(bpc_expr)}` not foldable")
            got = float(vals["core_clock"]) * bpc / 1e9
            rep.check(abs(got - float(gbs)) <= 0.011 * max(1.0, float(gbs)), "C18-o", f"ethosu/config_files/Arm/vela.ini:[System_Config.{mm.group(1)}]", f"{key}: {vals['core_clock']} Hz x {width} B x {vals[key]} = the documented {gbs} GB/s",
                      f"{key}={vals[key]} gives {got:.3f} GB/s, the section is documented as {name} ({gbs} GB/s)")
    if k < 8:
        raise AnalysisError(f"vela.ini: {k} documented bandwidths found")


def rule_round9(repo, rep):
    """(p) `_read_port` admits the names of a collection of MemArea members; the collection (a tuple of members, or a call of a static
    method of the enum whose body returns such a tuple) is resolved to member names and compared with the set OPTIONS.md documents for
    `axi0_port` / `axi1_port`. (q) `_get_vela_config` has two parallel chains; the section name of each is `"<Kind>." + self.<sel>`. In the
    chain whose first test looks that section up, the built-in-default test compares `self.<sel>` and the error of the last branch reports
    `self.<sel>` - not the selection of the sibling chain."""
    import os as _os
    import re as _re

    af = repo.mod("architecture_features")
    f = af.func("ArchitectureFeatures._read_port")
    site = "ethosu/vela/architecture_features.py:ArchitectureFeatures._read_port"
    if f is None:
        raise AnalysisError("architecture_features: _read_port not found")
    comps = [c for c in ast.walk(f) if isinstance(c, (ast.ListComp, ast.SetComp, ast.GeneratorExp)) and str(norm(c.elt)).endswith(".name")]
    if len(comps) != 1:
        raise AnalysisError(f"_read_port: the collection of admitted names was not found ({len(comps)})")
    src = comps[0].generators[0].iter

    def members(e):
        if isinstance(e, (ast.Tuple, ast.List, ast.Set)):
            out = []
            for x in e.elts:
                if isinstance(x, ast.Attribute) and isinstance(x.value, ast.Name):
                    out.append(x.attr)
                else:
                    return None
            return out
        if isinstance(e, ast.Call) and isinstance(e.func, ast.Attribute) and isinstance(e.func.value, ast.Name) and not e.args:
            for m in repo.core_modules():
                for cls in [c for c in ast.walk(m.tree) if isinstance(c, ast.ClassDef) and c.name == e.func.value.id]:
                    for fn in cls.body:
                        if isinstance(fn, ast.FunctionDef) and fn.name == e.func.attr:
                            rets = [r for r in ast.walk(fn) if isinstance(r, ast.Return) and r.value is not None]
                            if len(rets) == 1:
                                return members(rets[0].value)
        if isinstance(e, ast.Name) and e.id in ("MemArea",):
            return None
        return None

    got = members(src)
    if got is None:
        raise AnalysisError(f"_read_port: `{norm(src)}` not resolvable to enum members")
    doc = open(_os.path.join(repo.root, "OPTIONS.md")).read()
    docsets = _re.findall(r"^axi[01]_port=\?\?\?.*\?\?\? = \{([^}]*)\}", doc, _re.M)
    if len(docsets) != 2:
        raise AnalysisError(f"OPTIONS.md: {len(docsets)} axi port lines found")
    for ds in docsets:
        want = set(_re.split(r",\s*|\s+or\s+", ds.strip()))
        rep.check(set(got) == want, "C18-p", site, f"admitted port names {sorted(got)} = documented {sorted(want)}",
                  f"`{norm(src)}` admits {sorted(set(got) - want)} beyond the documented set: an illegal memory-area mapping (axi1_port=Shram on the unused port of an Sram-only mode) compiles with status 0")
    g = af.func("ArchitectureFeatures._get_vela_config")
    gsite = "ethosu/vela/architecture_features.py:ArchitectureFeatures._get_vela_config"
    secs = {}
    for a in ast.walk(g):
        if isinstance(a, ast.Assign) and isinstance(a.targets[0], ast.Name) and isinstance(a.value, ast.BinOp) and isinstance(a.value.op, ast.Add) and isinstance(a.value.left, ast.Constant) \
                and isinstance(a.value.left.value, str) and isinstance(a.value.right, ast.Attribute):
            secs[a.targets[0].id] = str(norm(a.value.right))
    n = 0
    for i in ast.walk(g):
        if not isinstance(i, ast.If):
            continue
        hs = [c for c in ast.walk(i.test) if isinstance(c, ast.Call) and (call_name(c) or "").endswith("has_section") and c.args and isinstance(c.args[0], ast.Name) and c.args[0].id in secs]
        if not hs:
            continue
        sel = secs[hs[0].args[0].id]
        cur = i
        while len(cur.orelse) == 1 and isinstance(cur.orelse[0], ast.If):
            cur = cur.orelse[0]
            for cmp_ in [c for c in ast.walk(cur.test) if isinstance(c, ast.Compare) and "DEFAULT_CONFIG" in str(norm(c))]:
                n += 1
                rep.check(str(norm(cmp_.left)) == sel or any(str(norm(x)) == sel for x in cmp_.comparators), "C18-q", gsite, f"the built-in default of the `{hs[0].args[0].id}` chain is taken when `{sel}` is the default selection",
                          f"`{norm(cmp_)}` in the chain of `{sel}`: with the sibling selection left at its default an unknown `{sel.split('.')[-1]}` name is silently replaced by the built-in one (exit 0), "
                          "and a valid named sibling makes the default selection an error")
        for r in [x for st in cur.orelse for x in ast.walk(st) if isinstance(x, ast.Raise)]:
            if isinstance(r.exc, ast.Call) and len(r.exc.args) >= 2:
                n += 1
                rep.check(str(norm(r.exc.args[1])) == sel, "C18-q", gsite, f"the unknown-section error of the `{hs[0].args[0].id}` chain reports `{sel}`", f"`{norm(r.exc)}` reports another selection")
    if n < 4:
        raise AnalysisError(f"_get_vela_config: {n} chain tests found")


def rule_round10(repo, rep):
    """(r) the internal defaults depend on the accelerator alone (OPTIONS.md: 'internal-default' is defined per accelerator family): every test
    in _set_default_sys_config / _set_default_mem_mode reads only the accelerator (is_ethos_u65_system / accelerator_config).
    (s) the selection looked up is the selection given: ArchitectureFeatures stores its system_config / memory_mode parameters unchanged (a
    section name may contain any character, 'Part.Name' included), and nothing else writes the two members."""
    rep.clause("C18-r", "the internal-default system configuration and memory mode are chosen by the accelerator alone: the tests of the two default functions read nothing else")
    am = repo.mod("architecture_features")
    n = 0
    for fname in ("_set_default_sys_config", "_set_default_mem_mode"):
        for cls in ("ArchitectureFeatures", "Imx93ArchitectureFeatures"):
            fn = am.functions.get(f"{cls}.{fname}") or repo.mod("vela").functions.get(f"{cls}.{fname}")
            if fn is None:
                continue
            path = AF if f"{cls}.{fname}" in am.functions else "ethosu/vela/vela.py"
            for t in [x.test for x in ast.walk(fn) if isinstance(x, (ast.If, ast.IfExp, ast.While))]:
                n += 1
                reads = {str(norm(a)) for a in ast.walk(t) if isinstance(a, ast.Attribute) and isinstance(a.value, ast.Name) and a.value.id == "self"}
                extra = sorted(r for r in reads if r not in ("self.is_ethos_u65_system", "self.accelerator_config"))
                rep.check(not extra, "C18-r", f"{path}:{cls}.{fname}", f"`{str(norm(t))[:70]}` reads the accelerator only",
                          f"also reads {extra}: the default then depends on what the other selection resolved to (a U65 system configuration whose AXI1 port is not Dram silently gets the "
                          "Shared-SRAM layout instead of the documented Dedicated_Sram default)")
    if n < 2:
        raise AnalysisError(f"default configuration functions: {n} tests found")
    rep.clause("C18-s", "the section looked up is named by the selection as given: system_config / memory_mode are stored unchanged from the constructor's parameters and written nowhere else")
    n = 0
    for modname in ("architecture_features", "vela"):
        m = repo.mod(modname)
        for q, fn in m.functions.items():
            for st in ast.walk(fn):
                if isinstance(st, (ast.Assign, ast.AugAssign)):
                    tg = st.targets if isinstance(st, ast.Assign) else [st.target]
                    for t in tg:
                        for member in ("system_config", "memory_mode"):
                            if isinstance(t, ast.Attribute) and t.attr == member and isinstance(t.value, ast.Name) and t.value.id == "self":
                                n += 1
                                params = [a.arg for a in fn.args.args]
                                ok = isinstance(st, ast.Assign) and isinstance(st.value, ast.Name) and st.value.id == member and member in params and q.endswith("__init__")
                                rep.check(ok, "C18-s", f"{m.rel}:{q}", f"`{str(norm(st))[:80]}` stores the parameter unchanged",
                                          f"the stored selection is `{str(norm(st.value))[:60]}`: a legal section name (e.g. 'Board_rev1.1') is looked up under another name - rejected, or resolved to an unrelated section")
    if n < 2:
        raise AnalysisError(f"system_config / memory_mode stores: {n} found")


def rule_round11(repo, rep):
    """(t) several --config files are read as a group in command-line order (a later file wins for a repeated option): the list handed to
    the architecture is built by walking `args.config` in order; no ordering / de-duplicating call touches it.
    (u) the value converters of the configuration reader turn the *given* text into a value or raise ConfigOptionError: every return of
    _to_mem_port is the member named by its argument, every return of _to_number the conversion of its argument - a constant return
    silently replaces an illegal (e.g. empty) value and, because it is a value, beats the inherited one."""
    vm = repo.mod("vela")
    fn = vm.func("main")
    site = "ethosu/vela/vela.py:main"
    asg = [st for st in ast.walk(fn) if isinstance(st, ast.Assign) and str(norm(st.targets[0])) == "config_files"]
    if len(asg) != 1:
        raise AnalysisError(f"vela.main: {len(asg)} assignments to config_files")
    v = asg[0].value
    core = v.body if isinstance(v, ast.IfExp) else v
    ordering = [c for c in ast.walk(v) if isinstance(c, ast.Call) and (call_name(c) or "").split(".")[-1] in ("sorted", "set", "frozenset", "unique", "reversed", "fromkeys")] + [x for x in ast.walk(v) if isinstance(x, (ast.Set, ast.SetComp))]
    ok = isinstance(core, ast.ListComp) and len(core.generators) == 1 and str(norm(core.generators[0].iter)) == "args.config" and not ordering
    rep.check(ok, "C18-t", site, "the configuration files are handed on in command-line order (list built by walking args.config)",
              f"`{str(norm(v))[:90]}` re-orders or de-duplicates the files: with two files that define the same option the wrong one wins (soc.ini, board_rev2.ini are read as board_rev2.ini, soc.ini)")
    am = repo.mod("architecture_features")
    for q, want in (("ArchitectureFeatures._to_mem_port", r"^MemPort\[(\w+)\]$"), ("ArchitectureFeatures._to_number", r"^(\w+)\((\w+)\)$")):
        f = am.func(q)
        params = [a.arg for a in f.args.args]
        rets = [r for r in ast.walk(f) if isinstance(r, ast.Return)]
        if not rets:
            raise AnalysisError(f"{q}: no return")
        for r in rets:
            t = str(norm(r.value)) if r.value is not None else "None"
            mm = re.match(want, t)
            ok = bool(mm) and all(g in params for g in mm.groups())
            rep.check(ok, "C18-u", f"{AF}:{q}", f"`return {t}` is the conversion of the given value", f"`return {t}` does not depend on the given text: an illegal value is replaced silently instead of raising ConfigOptionError "
                      "(arena_mem_area= in a child of Dedicated_Sram resolves to Axi0 and beats the inherited Axi1)")
        raises = [x for x in ast.walk(f) if isinstance(x, ast.Raise)]
        rep.check(bool(raises), "C18-u", f"{AF}:{q}", "an illegal value raises", "no raise statement")


def rule_round12(repo, rep):
    """(v) all configuration files are read as one group before any section is looked up (inherit may name a section of a later file, and a
    later file overrides an earlier one): `ConfigParser.read` is called once, with the whole list, outside any loop.
    (w) `--config` may be repeated on the command line (OPTIONS.md): the option is declared with action="append" and without nargs - with
    nargs a second --config replaces the first."""
    am = repo.mod("architecture_features")
    fn = am.func("ArchitectureFeatures._get_vela_config")
    site = f"{AF}:ArchitectureFeatures._get_vela_config"
    reads = [c for c in ast.walk(fn) if isinstance(c, ast.Call) and isinstance(c.func, ast.Attribute) and c.func.attr == "read" and "vela_config" in str(norm(c.func.value))]
    if len(reads) != 1:
        raise AnalysisError(f"_get_vela_config: {len(reads)} read calls")
    c = reads[0]
    in_loop = False
    cur = c
    while cur is not fn and cur is not None:
        cur = am.parents.get(cur)
        if isinstance(cur, (ast.For, ast.While)):
            in_loop = True
    prm = [a.arg for a in fn.args.args]
    ok = not in_loop and len(c.args) == 1 and isinstance(c.args[0], ast.Name) and c.args[0].id in prm
    rep.check(ok, "C18-v", site, "the configuration files are read as one group: one read call with the whole list, outside any loop",
              f"`{str(norm(c))[:60]}`" + (" inside a loop" if in_loop else "") + ": files after the one that completes the selection are not parsed - a parent named by `inherit` in a later file is 'not found', a later file's overrides are lost")
    vm = repo.mod("vela")
    mf = vm.func("main")
    decl = [x for x in ast.walk(mf) if isinstance(x, ast.Call) and isinstance(x.func, ast.Attribute) and x.func.attr == "add_argument" and x.args and isinstance(x.args[0], ast.Constant) and x.args[0].value == "--config"]
    if len(decl) != 1:
        raise AnalysisError("vela.main: declaration of --config not found")
    kw = {k.arg: str(norm(k.value)) for k in decl[0].keywords}
    rep.check(kw.get("action") in ("'append'", '"append"') and "nargs" not in kw, "C18-w", "ethosu/vela/vela.py:main", "--config is declared with action='append' (repeatable)",
              f"declared with {dict((k_, v_) for k_, v_ in kw.items() if k_ in ('action', 'nargs'))}: `--config A.ini --config B.ini` keeps only B.ini")

"""C08 Encoded weight and scale tensors cover each output channel exactly once (structural clauses)."""
import ast
import re

from ..absint import AList, AObj, BV, Interp, Unknown
from ..astutil import calls_in, call_name, dotted, names_in, norm, try_fold, walk_no_nested
from ..cfg import cfg_of
from ..core import AnalysisError
from ..exprnorm import linear
from .c03 import eval_with

WC = "ethosu/vela/weight_compressor.py"
HN = "ethosu/vela/high_level_command_to_npu_op.py"


def run(repo, rep):
    rep.clause("C08-a", "every (core, slice) range starts at a multiple of 16 bytes: the pad after the scale section restores residue 0 for every residue")
    rep.clause("C08-b", "the scale record is 40-bit bias, 32-bit scale, 6-bit shift in 10 bytes (bit-provenance of encode_bias)")
    rep.clause("C08-c", "channels are dealt to cores identically for scales, biases and weights, and the per-core index sets partition each depth slice (ncores in {1,2}, lengths 1..8)")
    rep.clause("C08-d", "a range is recorded for every (core, slice) produced, with offsets taken before / after the right sections")
    rep.clause("C08-e", "double-buffer sizes bound the whole slice (all cores) of their parity")
    rep.clause("C08-f", "consumers advance through the buffered stream with the same 16-byte rounding as the DMA that fills it")
    rep.clause("C08-g", "the compression cache key determines every input of the weight stream (or the input is constant for the lifetime of a cache entry)")
    rep.undecided("that the weight section decodes to the right zero-point-corrected weights (value level)")
    from .shared import duplicate_branch_lint

    duplicate_branch_lint(repo, rep, "C08-d", ['weight_compressor'])
    from .shared import mirror_families

    mirror_families(repo, rep, "C08-d", {('tensor', 'self', 'src_tens'): "copy of the encoded weight tensor's ranges / streams"})
    wc = repo.mod("weight_compressor")
    f = wc.func("encode_weight_and_scale_tensor")
    site = f"{WC}:encode_weight_and_scale_tensor"
    c = cfg_of(f)

    # ---------------------------------------------------------------- a
    rem = [s for s in ast.walk(f) if isinstance(s, ast.Assign) and norm(s.targets[0]) == "remainder"]
    pads = [n for n in ast.walk(f) if isinstance(n, ast.If) and "remainder" in norm(n.test)]
    ok = len(rem) == 1 and len(pads) == 1
    if ok:
        ext = [x for x in calls_in(pads[0], "encoded_stream.extend")]
        ok = len(ext) == 1 and call_name(ext[0].args[0]) == "bytearray"
        bad = None
        if ok:
            for r in range(16):
                rv = eval_with(rem[0].value, {"len(encoded_stream)": r})
                cond = eval_with(pads[0].test, {"remainder": rv})
                pad = eval_with(ext[0].args[0].args[0], {"remainder": rv}) if cond else 0
                if rv is None or cond is None or pad is None or pad < 0 or (r + pad) % 16 != 0:
                    bad = f"residue {r}: remainder={rv}, pad {pad} bytes -> next section starts at residue {(r + (pad or 0)) % 16}"
                    break
        rep.check(ok and bad is None, "C08-a", site, "the pad after the scale records brings the stream length to a multiple of 16 for every residue 0..15", bad or "padding idiom not recognised")
        sc_ext = [x for x in calls_in(f, "encoded_stream.extend") if norm(x.args[0]) == "scale_stream"]
        rep.check(len(sc_ext) == 1 and c.dominates(c.node_of(sc_ext[0]), c.node_of(pads[0])) and not c.path_avoiding(c.node_of(sc_ext[0]), c.node_of(calls_in(f, "encode_weights")[0]), [c.node_of(rem[0])]),
                  "C08-a", site, "the pad is applied after every scale section and before the weight section", "")
    else:
        rep.bad("C08-a", site, "16-byte pad after the scale section", "not found")
    off = [s for s in ast.walk(f) if isinstance(s, ast.Assign) and norm(s.targets[0]) == "weight_range.offset"]
    rep.check(len(off) == 1 and norm(off[0].value) == "len(encoded_stream)", "C08-a", site, "range offset = stream length at the start of the range", "")
    asr = [s for s in ast.walk(f) if isinstance(s, ast.Assert) and norm(s.test) == "len(encoded_stream) % 16 == 0"]
    rep.check(len(asr) == 1, "C08-a", site, "after the weight section the stream length is asserted to be a multiple of 16 (encoder output is, see C07-c)", "")
    rep.floor("C08-a", 4)

    # ---------------------------------------------------------------- b
    it = Interp(repo, wc, externs={"numpy.int64": lambda i, a, k, n: a[0]})
    n_ret = 0
    for p in it.run("encode_bias", lambda: ([BV.sym("bias", 40), BV.sym("scale", 32), BV.sym("shift", 6)], {})):
        if p.kind != "return":
            continue
        n_ret += 1
        data = p.value
        if not isinstance(data, AList) or len(data.items) != 10:
            rep.bad("C08-b", f"{WC}:encode_bias", "record length", f"not a 10-byte record: {data!r}")
            continue
        for k in range(10):
            b = data.items[k]
            b = p.refine(b) if isinstance(b, BV) else b
            if k < 5:
                want = [("s", "bias", 8 * k + i) for i in range(8)]
                lbl = f"byte {k} = bias[{8 * k}..{8 * k + 7}]"
            elif k < 9:
                want = [("s", "scale", 8 * (k - 5) + i) for i in range(8)]
                lbl = f"byte {k} = scale[{8 * (k - 5)}..{8 * (k - 5) + 7}]"
            else:
                want = [("s", "shift", i) for i in range(6)] + [0, 0]
                lbl = "byte 9 = shift[0..5], top two bits zero"
            got = list(b.bits[:8]) if isinstance(b, BV) else None
            rep.check(got == want and all(x == 0 for x in b.bits[8:]), "C08-b", f"{WC}:encode_bias", lbl, f"got {b!r}")
    rep.check(n_ret >= 1, "C08-b", f"{WC}:encode_bias", "a record is produced", "")
    eb = wc.func("encode_bias")
    ranges = sorted(norm(s.test) for s in eb.body if isinstance(s, ast.Assert) and "<" in norm(s.test))
    rep.check(ranges == sorted(["-(1 << 40 - 1) <= bias < 1 << 40 - 1", "0 <= scale < 1 << 32", "0 <= shift < 1 << 6"]), "C08-b", f"{WC}:encode_bias", "range asserts: signed 40-bit bias, 32-bit scale, 6-bit shift", str(ranges))
    es = [s for s in ast.walk(f) if isinstance(s, ast.Assign) and norm(s.targets[0]) == "scale_tens.element_size_bytes"]
    rep.check(len(es) == 1 and norm(es[0].value) == "10", "C08-b", site, "scale tensor element size = 10 bytes", "")
    rep.floor("C08-b", 12)

    # ---------------------------------------------------------------- c
    cs = [s for s in ast.walk(f) if isinstance(s, ast.Assign) and norm(s.targets[0]) in ("core_scales", "core_biases")]
    slices = {norm(s.targets[0]): s.value for s in cs}
    ok = set(slices) == {"core_scales", "core_biases"} and all(isinstance(v, ast.Subscript) and isinstance(v.slice, ast.Slice) for v in slices.values())
    if ok:
        sa, sb = slices["core_scales"].slice, slices["core_biases"].slice
        same = norm(sa.lower) == norm(sb.lower) and norm(sa.upper) == norm(sb.upper) and norm(sa.step) == norm(sb.step)
        rep.check(same, "C08-c", site, "scales and biases are dealt to cores with the same slice", f"{norm(slices['core_scales'])} vs {norm(slices['core_biases'])}")
        # partition over the finite domain
        bad = None
        ncases = 0
        for ncores in (1, 2):
            for length in range(1, 9):
                for offset in (0, 16):
                    seen = []
                    for core in range(ncores):
                        m = {"depth_offset": offset, "core": core, "depth_length": length, "arch.ncores": ncores}
                        lo, hi, st = eval_with(sa.lower, m), eval_with(sa.upper, m), eval_with(sa.step, m)
                        if None in (lo, hi, st):
                            raise AnalysisError("core slice not foldable")
                        seen += list(range(lo, hi, st))
                    ncases += 1
                    if sorted(seen) != list(range(offset, offset + length)) and bad is None:
                        extra = sorted(set(seen) - set(range(offset, offset + length)))
                        bad = f"ncores={ncores}, slice [{offset}, {offset + length}): cores take channels {sorted(seen)}; channels {extra} belong to the next slice"
        rep.check(bad is None, "C08-c", site, f"per-core scale/bias index sets partition every depth slice ({ncases} cases)", bad or "")
    else:
        rep.bad("C08-c", site, "core_scales / core_biases slices", "not recognised")
    cd = wc.func("core_deinterleave")
    rep.check(norm(cd.body[-1]) == "return ohwi[core:ohwi.shape[0]:ncores]", "C08-c", f"{WC}:core_deinterleave", "weights of the brick are dealt with start = core, step = ncores", norm(cd.body[-1]))
    bw = [s for s in ast.walk(f) if isinstance(s, ast.Assign) and norm(s.targets[0]) == "brick_weights"]
    rep.check(len(bw) == 1 and norm(bw[0].value) == "weights[:, :, :, depth_offset:depth_offset + depth_length]", "C08-c", site, "the brick is exactly the slice's channels", norm(bw[0].value) if bw else "")
    cb = [s for s in ast.walk(f) if isinstance(s, ast.Assign) and norm(s.targets[0]) == "core_block_depth"]
    ok = len(cb) == 1
    if ok:
        tot_ok = True
        for ncores in (1, 2):
            for d in range(1, 40):
                tot = 0
                for core in range(ncores):
                    v = eval_with(cb[0].value.args[0] if call_name(cb[0].value) == "int" else cb[0].value, {"ofm_block_depth": d, "arch.ncores": ncores, "core": core})
                    if v is None:
                        raise AnalysisError("core_block_depth not foldable")
                    tot += v
                if tot != d:
                    tot_ok = False
        rep.check(tot_ok, "C08-c", site, "per-core block depths add up to the block depth (ncores 1..2, depth 1..39)", norm(cb[0].value))
    lp = [l for l in ast.walk(f) if isinstance(l, ast.For) and norm(l.target) == "core"]
    rep.check(len(lp) == 1 and norm(lp[0].iter) == "range(0, min(arch.ncores, full_ofm_depth))", "C08-c", site, "one range per core, cores beyond the OFM depth get none", norm(lp[0].iter) if lp else "")
    dl = [s for s in ast.walk(f) if isinstance(s, ast.Assign) and norm(s.targets[0]) == "depth_length"]
    rep.check(len(dl) == 1 and linear(dl[0].value) == {"depth_offsets[idx + 1]": 1, "depth_offset": -1}, "C08-c", site, "slice length = next offset - this offset", "")
    ol = [l for l in ast.walk(f) if isinstance(l, ast.For) and norm(l.iter) == "enumerate(depth_offsets[:-1])"]
    rep.check(len(ol) == 1 and norm(ol[0].target) == "(idx, depth_offset)", "C08-c", site, "slices are consecutive entries of depth_offsets", "")
    # inside the per-core loop the encoder is fed the per-core quantities: wherever the loop defines `core_<x>`, a call in the
    # loop that passes plain `<x>` for a parameter uses the whole-block value for one core
    if lp:
        core_vars = {norm(s_.targets[0])[5:] for s_ in ast.walk(lp[0]) if isinstance(s_, ast.Assign) and len(s_.targets) == 1 and isinstance(s_.targets[0], ast.Name) and s_.targets[0].id.startswith("core_")}
        for call in calls_in(lp[0], "encode_weights"):
            for k_ in call.keywords:
                used = {x.id for x in ast.walk(k_.value) if isinstance(x, ast.Name)}
                stale = sorted(v for v in used if v in core_vars)
                rep.check(not stale, "C08-c", site, f"encode_weights({k_.arg}=...) inside the per-core loop uses the per-core value",
                          f"{k_.arg}={norm(k_.value)} although the loop computes core_{stale[0] if stale else ''}: core {'{core}'} is encoded in the traversal order of the whole block, not of its own share")
        want_kw = {"weights_volume": "core_weights", "ofm_block_depth": "core_block_depth"}
        for call in calls_in(lp[0], "encode_weights"):
            kw = {k_.arg: norm(k_.value) for k_ in call.keywords}
            for a_, v_ in want_kw.items():
                rep.check(kw.get(a_) == v_, "C08-c", site, f"encode_weights gets {a_}={v_}", f"{a_}={kw.get(a_)}")
    rep.floor("C08-c", 9)

    # ---------------------------------------------------------------- d
    rec = [s for s in ast.walk(f) if isinstance(s, ast.Assign) and norm(s.targets[0]) == "npu_tensor.encoded_ranges[key]"]
    ok = len(rec) == 1 and norm(rec[0].value) == "weight_range"
    if ok:
        par = [n for n in ast.walk(f) if isinstance(n, ast.If) and rec[0] in n.body]
        ok = len(par) == 1 and norm(par[0].test) == "core_block_depth != 0"
        ew = calls_in(f, "encode_weights")
        ok = ok and c.reaches(c.node_of(ew[0]), c.node_of(rec[0]))
    rep.check(ok, "C08-d", site, "encoded_ranges[WeightKey(core, depth_offset)] is recorded after both sections, for every core that has channels", "")
    key = [s for s in ast.walk(f) if isinstance(s, ast.Assign) and norm(s.targets[0]) == "key"]
    rep.check(len(key) == 1 and norm(key[0].value) == "WeightKey(core, depth_offset)", "C08-d", site, "key = WeightKey(core, depth_offset)", "")
    d = {norm(s.targets[0]): norm(s.value) for s in ast.walk(f) if isinstance(s, ast.Assign) and norm(s.targets[0]).startswith("weight_range.")}
    rep.check(d.get("weight_range.scale_bytes") == "len(scale_stream)" and d.get("weight_range.weight_offset") == "len(encoded_stream) - weight_range.offset" and
              d.get("weight_range.weight_bytes") == "len(encoded_substream)", "C08-d", site, "scale_bytes, weight_offset (after the padded scale section) and weight_bytes describe the range", str(d))
    wo = [s for s in ast.walk(f) if isinstance(s, ast.Assign) and norm(s.targets[0]) == "weight_range.weight_offset"]
    app = [x for x in calls_in(f, "encoded_stream.extend") if norm(x.args[0]) == "encoded_substream"]
    rep.check(len(wo) == 1 and len(app) == 1 and c.dominates(c.node_of(wo[0]), c.node_of(app[0])), "C08-d", site, "weight_offset is taken before the weight section is appended", "")
    tb = wc.func("WeightRange.total_bytes")
    rep.check(norm(tb.body[-1]) == "return self.scale_bytes + self.weight_bytes", "C08-d", f"{WC}:WeightRange.total_bytes", "total_bytes = scale_bytes + weight_bytes", "")
    rep.floor("C08-d", 5)

    # ---------------------------------------------------------------- e
    db = [s for s in ast.walk(f) if isinstance(s, ast.Assign) and norm(s.targets[0]) == "double_buffer_sizes[idx % 2]"]
    bs = [s for s in ast.walk(f) if isinstance(s, ast.Assign) and norm(s.targets[0]) == "buffer_start_offset"]
    ok = len(db) == 1 and len(bs) == 1 and norm(bs[0].value) == "len(encoded_stream)"
    detail = "slice start marker or size update not found"
    if ok:
        v = db[0].value
        ok = call_name(v) == "max" and any(norm(a) == "double_buffer_sizes[idx % 2]" for a in v.args) and any(linear(a) == {"len(encoded_stream)": 1, "buffer_start_offset": -1} for a in v.args)
        detail = norm(v)
        core_loop = lp[0] if lp else None
        if ok and core_loop is not None:
            # the start marker is taken before the per-core loop, the size after it (covers all cores of the slice)
            ok = c.dominates(c.node_of(bs[0]), c.node_of(core_loop)) and c.node_of(bs[0]) not in c.loop_body_nodes(core_loop) and c.node_of(db[0]) not in c.loop_body_nodes(core_loop)
            detail = "start marker or size update is inside the per-core loop: only the last core's sub-stream is counted"
    rep.check(ok, "C08-e", site, "double_buffer_sizes[idx % 2] = max(old, stream length - length at the start of the slice), all cores included", detail)
    asg = [s for s in ast.walk(f) if isinstance(s, ast.Assign) and norm(s.targets[0]) == "npu_tensor.double_buffer_sizes"]
    rep.check(len(asg) == 1 and norm(asg[0].value) == "double_buffer_sizes", "C08-e", site, "the sizes are attached to the tensor", "")
    rep.floor("C08-e", 2)

    # ---------------------------------------------------------------- f
    hn = repo.mod("high_level_command_to_npu_op")
    cw = hn.func("create_weights")
    adv = [s for s in ast.walk(cw) if isinstance(s, ast.AugAssign) and norm(s.target) == "core_offset"]
    rep.check(len(adv) == 1 and norm(adv[0].value) == "round_up(weight_range.total_bytes, 16)", "C08-f", f"{HN}:create_weights", "per-core offset in the SRAM buffer advances by round_up(total_bytes, 16)", norm(adv[0].value) if adv else "")
    dm = hn.func("create_dma_op")
    sz = [s for s in ast.walk(dm) if isinstance(s, ast.AugAssign) and norm(s.target) == "sz"]
    rep.check(len(sz) == 1 and norm(sz[0].value) == "round_up(weight_range.total_bytes, 16)", "C08-f", f"{HN}:create_dma_op", "the DMA length sums round_up(total_bytes, 16) over the cores", norm(sz[0].value) if sz else "")
    for fn, keytxt in ((cw, "WeightKey(core, weight_box.start_coord[-1])"), (dm, "WeightKey(core, cmd.box.start_coord[-1])")):
        ks = [s for s in ast.walk(fn) if isinstance(s, ast.Assign) and norm(s.targets[0]) == "key"]
        lps = [l for l in ast.walk(fn) if isinstance(l, ast.For) and norm(l.iter) == "range(0, arch.ncores)"]
        rep.check(len(ks) == 1 and norm(ks[0].value) == keytxt and len(lps) == 1, "C08-f", f"{HN}:{fn.name}", f"ranges are looked up per core with {keytxt}", "")
    ar = [x for x in calls_in(cw, "NpuAddressRange")]
    rep.check(all("round_up(" in norm(x.args[2]) and ", 16)" in norm(x.args[2]) for x in ar) and len(ar) >= 3, "C08-f", f"{HN}:create_weights", "weight / scale address range lengths are rounded up to 16", "")
    rep.floor("C08-f", 5)

    # ---------------------------------------------------------------- g
    wcc = [s for s in ast.walk(f) if isinstance(s, ast.Assign) and norm(s.targets[0]) == "wcc"]
    if len(wcc) != 1 or call_name(wcc[0].value) != "create_weight_compression_config":
        raise AnalysisError("cache key construction not recognised")
    kargs = [norm(a) for a in wcc[0].value.args]
    cfn = wc.func("create_weight_compression_config")
    rep.check(norm(cfn.body[-1]) == "return WeightCompressionConfig(npu_block_type, block_depth, ofm_depth_step, dilation, weight_tens.value_id)", "C08-g", f"{WC}:create_weight_compression_config",
              "key = (block type, block depth, depth-slice identity, dilation, weight value id)", norm(cfn.body[-1]))
    dso = kargs[3] if len(kargs) > 3 else ""
    rep.check(dso in ("hash(str(depth_offsets))", "str(depth_offsets)", "tuple(depth_offsets)"), "C08-g", site, "the depth-slice component of the key is a function of the whole depth_offsets list",
              f"`{dso}` does not identify the slice list: two requests with different slices share a cache entry")
    # inputs read on the encoding path
    covered = {
        "weight_tens": "value_id identifies the tensor's values (and the quantisation stored with it)",
        "npu_block_type": "key field", "block_config": "key field (ofm block depth)", "depth_offsets": "key field", "kernel": "key field (dilation); height/width are the weights' own shape",
        "depth_offset": "derived from depth_offsets", "depth_length": "derived from depth_offsets", "idx": "loop index", "core": "loop index", "weights": "derived from weight_tens", "brick_weights": "derived",
        "quant_buf": "derived", "zero_point": "derived from weight_tens.quantization", "core_block_depth": "derived from block depth and ncores", "ofm_block_depth": "key field", "full_ofm_depth": "weights' own shape",
        "is_depthwise": "derived from npu_block_type", "ifm_depth": "weights' own shape", "kernel_size": "weights' own shape", "npu_tensor": "result", "encoded_stream": "result", "np": "module", "arch":
        "constant for the lifetime of a cache entry: value_id is a fresh uuid per read tensor, so entries cannot be hit across compilations / architectures",
        "weight_range": "result", "encoded_substream": "result", "_": "unused", "round_up": "function", "NpuBlockTraversal": "enum", "NpuBlockType": "enum", "Op": "enum", "int": "builtin", "float": "builtin",
        "isinstance": "builtin", "len": "builtin", "core_deinterleave": "function", "encode_weights": "function", "core_weights": "derived", "depth_utilization": "derived", "part_kernel_utilization": "derived",
    }
    reads = set()
    for n in ast.walk(f):
        if isinstance(n, ast.If) and norm(n.test) == "do_weights":
            for st in n.body:
                reads |= names_in(st)
    n = 0
    for nm in sorted(reads):
        n += 1
        if nm in covered:
            rep.ok("C08-g", site, f"encoding input `{nm}`", covered[nm])
        else:
            why = {
                "ifm_bitdepth": "the IFM bit depth selects the block traversal and the encoder's micro-block; it comes from op.inputs[0], not from the key: a weight tensor shared by an 8-bit and a 16-bit operator reuses the wrong stream",
                "op": "op.type == Conv2DBackpropInputSwitchedBias flips the weights; the operator is not part of the key: a weight tensor shared by a transpose convolution and a convolution reuses the wrong stream",
            }.get(nm, "read while encoding but not determined by the cache key")
            rep.bad("C08-g", site, f"encoding input `{nm}` is determined by the cache key", why)
    vid = []
    for m in repo.core_modules():
        for node in ast.walk(m.tree):
            if isinstance(node, ast.Assign):
                for t in node.targets:
                    if isinstance(t, ast.Attribute) and t.attr == "value_id":
                        vid.append((m.name, norm(node)))
    rep.check(bool(vid), "C08-g", "ethosu/vela/tensor.py", "value_id assignments found", str(len(vid)))
    # the right-hand side of every value_id assignment: a fresh uuid, another tensor's value_id, or a memoised id whose key determines
    # the values *and the shape* (the encoder's output depends on the kernel shape: sub-kernel padding, traversal)
    for m in repo.core_modules():
        if m.name.startswith("tosa"):
            continue
        for q_, f_ in m.functions.items():
            eq = {}
            for st_ in sorted((x for x in ast.walk(f_) if isinstance(x, ast.Assign) and len(x.targets) == 1), key=lambda x: x.lineno):
                tg = str(norm(st_.targets[0]))
                v_ = st_.value
                if tg.endswith(".equivalence_id") and isinstance(v_, ast.Call) and (call_name(v_) or "").endswith("create_equivalence_id") and v_.args:
                    eq[tg[: -len(".equivalence_id")]] = v_.args[0]
                if not tg.endswith(".value_id"):
                    continue
                rhs = str(norm(v_))
                site_ = f"ethosu/vela/{m.name}.py:{q_}"
                if "uuid" in rhs or rhs.endswith(".value_id"):
                    rep.ok("C08-g", site_, f"`{str(norm(st_))[:70]}`", "fresh uuid / copy of another tensor's value id")
                    continue
                base = rhs[: -len(".equivalence_id")] if rhs.endswith(".equivalence_id") else None
                key = eq.get(base) if base else None
                if key is None:
                    rep.bad("C08-g", site_, f"`{str(norm(st_))[:70]}` takes the id from a fresh uuid, another tensor or a memo keyed by values and shape", f"right-hand side `{rhs}` not recognised")
                    continue
                # rank of the tensor: the shape argument of the create_const_tensor call that made `base`
                mk = [s2 for s2 in ast.walk(f_) if isinstance(s2, ast.Assign) and str(norm(s2.targets[0])) == base and isinstance(s2.value, ast.Call) and (call_name(s2.value) or "").endswith("create_const_tensor")]
                shape_arg = mk[-1].value.args[1] if mk and len(mk[-1].value.args) > 1 else None
                rank1 = isinstance(shape_arg, ast.List) and len(shape_arg.elts) == 1
                key_has_shape = "shape" in str(norm(key))
                rep.check(rank1 or key_has_shape, "C08-g", site_, f"`{str(norm(st_))[:60]}`: the memo key `{str(norm(key))[:50]}` determines values and shape",
                          f"the key is the flattened value sequence of a rank-{len(shape_arg.elts) if isinstance(shape_arg, ast.List) else '?'} tensor: two kernels with equal element count but different shape "
                          "(3x3 and 1x9 all-ones MEAN kernels) share one id, hence one cache entry, and one of them runs with the stream encoded for the other's shape")
    # a rewrite that changes a weight tensor's values in place must give it a new value_id unconditionally (reader clones of one
    # constant share the id, and the id is the cache key): the refresh sits in the same block as the mutation
    # Generalised: every graph rewrite that replaces the values of an operator's *existing* weight tensor (not one it has just
    # created) in a way that depends on operator attributes (stride, dilation, padding ... - two operators sharing one constant may
    # differ in them) refreshes the id in the block that does the rewrite. Rewrites that are a function of the tensor and of shapes
    # it determines are listed with their reason.
    TENSOR_ONLY = {
        ("graph_optimiser_util", "convert_depthwise_to_conv"): "depth_multiplier = weight channels // IFM channels with IFM depth 1: determined by the tensor's own shape",
    }
    ATTR_READS = ("op.attrs", "op.get_kernel_dilation", "op.get_kernel_stride", "op.kernel.stride", "op.kernel.dilation")
    n_ref = 0
    for mname in ("tflite_graph_optimiser", "graph_optimiser_util"):
        gm = repo.mod(mname)
        for q, fn in gm.functions.items():
            fresh = set()
            alias = set()
            for st in ast.walk(fn):
                if isinstance(st, ast.Assign) and len(st.targets) == 1 and isinstance(st.targets[0], ast.Name):
                    v = st.value
                    if isinstance(v, ast.Call) and (call_name(v) or "").split(".")[-1] in ("create_const_tensor", "clone", "Tensor", "clone_into_shram", "create_reshape_tensor"):
                        fresh.add(st.targets[0].id)
                    elif str(norm(v)) in ("op.inputs[1]", "op.weights"):
                        alias.add(st.targets[0].id)
            reads_attr = sorted({a for a in ATTR_READS if any(str(norm(x)).startswith(a) for x in ast.walk(fn) if isinstance(x, (ast.Attribute, ast.Call, ast.Subscript)) and isinstance(getattr(x, "ctx", ast.Load()), ast.Load))})
            for blk_owner in ast.walk(fn):
                for fld in ("body", "orelse"):
                    blk = getattr(blk_owner, fld, None)
                    if not (isinstance(blk, list) and blk and isinstance(blk[0], ast.stmt)):
                        continue
                    muts = [s_ for s_ in blk if isinstance(s_, ast.Assign) and isinstance(s_.targets[0], ast.Attribute) and s_.targets[0].attr == "values"
                            and (str(norm(s_.targets[0].value)) in ("op.weights", "op.inputs[1]") or (isinstance(s_.targets[0].value, ast.Name) and s_.targets[0].value.id in alias and s_.targets[0].value.id not in fresh))]
                    if not muts:
                        continue
                    # a tensor created by this function and then attached as op.weights is not an existing tensor
                    if any(isinstance(c_, ast.Call) and (call_name(c_) or "").endswith("create_const_tensor") for c_ in ast.walk(fn)) and str(norm(muts[0].targets[0].value)) in ("op.weights", "op.inputs[1]") \
                            and any(isinstance(c_, ast.Call) and (call_name(c_) or "").endswith("add_input_tensor") for c_ in ast.walk(fn)):
                        continue
                    base = str(norm(muts[0].targets[0].value))
                    refresh = [s_ for s_ in blk if isinstance(s_, ast.Assign) and str(norm(s_.targets[0])) == f"{base}.value_id" and "uuid" in str(norm(s_.value))]
                    n_ref += 1
                    site = f"ethosu/vela/{mname}.py:{q}"
                    if (mname, q) in TENSOR_ONLY:
                        rep.ok("C08-g", site, f"in-place rewrite of {base}.values", "function of the tensor alone: " + TENSOR_ONLY[(mname, q)])
                    elif not reads_attr:
                        rep.ok("C08-g", site, f"in-place rewrite of {base}.values does not depend on operator attributes", "")
                    else:
                        rep.check(bool(refresh), "C08-g", site, f"the attribute-dependent in-place rewrite of {base}.values is followed, in the same block, by a fresh value_id",
                                  f"the rewrite depends on {reads_attr} and the refresh is missing or conditional: the rewritten filter keeps the id of the untouched clones of the same "
                                  "constant, so another operator sharing the constant (same cache key after the rewrite) gets this operator's stream or vice versa")
    if n_ref < 5:
        raise AnalysisError(f"in-place weight rewrites: only {n_ref} found")
    rep.floor("C08-g", 14)

    rep.clause("C08-k", "the weight stream is produced in hardware order and the scale records with the reference's casting rule: sub-kernel decomposition uses the dilation of its own axis [rule shared with C07-f]; the float32 / double product rule is selected on the operator's original type [rule shared with C09-b]")
    from . import c07, c09

    rep.run_borrowed(c07, {"C07-f": "C08-k"}, repo)
    rep.run_borrowed(c09, {"C09-b": "C08-k", "C09-a": "C08-k", "C09-d": "C08-k"}, repo)
    rep.run_borrowed(c07, {"C07-i": "C08-k"}, repo, only_sites=("npu_encode_weights", "encode_weights"))
    rep.clause("C08-q", "the scale registers of every core carry that core's own range (base and length) [rule shared with C06-d]; the public accelerator enum maps to the internal member of the same name, so that API callers get their accelerator's micro-block depths [rule shared with C15-c]")
    from . import c06 as _c06
    from . import c15 as _c15

    rep.run_borrowed(_c06, {"C06-d": "C08-q"}, repo, only_sites=("generate_biases", "generate_weights"))
    rep.run_borrowed(_c15, {"C15-c": "C08-q"}, repo, only_sites=("architecture_features.py",))
    rep.clause("C08-r", "the single weight buffer is as large as the largest depth slice over all cores: max_range_bytes is the maximum of the per-parity slice sizes (double_buffer_sizes), not of single (core, slice) ranges")
    rep.clause("C08-s", "an encoded stream / record set is shared only under exact equality of the whole compression configuration: the cache hit in the compressor and the flash de-duplication in the linear allocator compare the configuration objects with ==, no component, no tolerance")
    rep.clause("C08-t", "the kernel axes reversed for a transpose convolution are the axes the same function multiplies as the kernel size (H and W of the HWIO volume)")
    rep.clause("C08-u", "per-group slices of per-channel quantisation vectors are taken under the dimensionality test of the member they slice (grouped convolutions pack their own channels' scales)")
    rep.clause("C08-v", "a weight buffer is sized from the encoded tensor it receives (size argument of Scheduler.buffer_tensor derives from its source tensor): the recorded double-buffer sizes bound every slice that occupies the buffer")
    rule_round10(repo, rep)
    rep.clause("C08-x", "taps inserted into a weight tensor by a rewrite are the tensor's zero point (weight 0 after the zero-point correction): a rebuilt `weights.values` array is created by np.full(.., zero point), not np.zeros")
    rule_inserted_weight_taps(repo, rep)
    rep.clause("C08-w", "the weight section decodes to the weights that went in: create_palette executed on five histograms - direct offset within its 5-bit field, PALBITS covers every code [rule shared with C07-s]")
    from . import c07 as _c07

    rep.run_borrowed(_c07, {"C07-s": "C08-w"}, repo)
    rule_round9(repo, rep)
    rule_max_range_bytes(repo, rep)
    rule_round5(repo, rep)
    rule_forced_output_quantisation(repo, rep)
    rep.clause("C08-o", "a synthesised zero bias has one element per output channel: fixup_bias_tensors runs after the rewrites that bring the weight tensor into its final axis order")
    rule_bias_after_reorder(repo, rep)
    rep.clause("C08-p", "Operation.clone copies every member that decides the encoding (rounding mode, explicit scaling ...): slots vs copied members, reviewed exemptions")
    from .shared import clone_completeness

    if clone_completeness(repo, rep, "C08-p") < 20:
        raise AnalysisError("Operation.clone: fewer than 20 members checked")

    # ---------------------------------------------------------------- h: key components are computed from the quantities they name
    rep.clause("C08-h", "the block-depth component of the cache key is min(requested OFM block depth, OFM depth of the weights), with the OFM depth read from the same axis as the encoder's full_ofm_depth")
    fod = [s_ for s_ in ast.walk(f) if isinstance(s_, ast.Assign) and norm(s_.targets[0]) == "full_ofm_depth"]
    bd = [s_ for s_ in ast.walk(cfn) if isinstance(s_, ast.Assign) and norm(s_.targets[0]) == "block_depth"]
    if len(fod) != 1 or len(bd) != 1:
        raise AnalysisError("full_ofm_depth / block_depth definitions not found")
    v = bd[0].value
    ok = isinstance(v, ast.Call) and call_name(v) == "min" and len(v.args) == 2 and {norm(a) for a in v.args} == {"ofm_block_depth", norm(fod[0].value)}
    rep.check(ok, "C08-h", f"{WC}:create_weight_compression_config", f"block_depth = min(ofm_block_depth, {norm(fod[0].value)})",
              f"block_depth = {norm(v)}: the key component no longer follows the requested block depth (the encoder reads the OFM depth as {norm(fod[0].value)}), so streams reordered for one block depth are returned for another")
    pos = [norm(a) for a in wcc[0].value.args]
    params = [a.arg for a in cfn.args.args]
    want = {"weight_tens": "weight_tens", "npu_block_type": "npu_block_type", "ofm_block_depth": "block_config.ofm_block.depth", "dilation": "kernel.dilation"}
    for prm, arg in zip(params, pos):
        if prm in want:
            rep.check(arg == want[prm], "C08-h", site, f"key parameter {prm} <- {want[prm]}", f"receives {arg}")
    rep.floor("C08-h", 5)

    # ---------------------------------------------------------------- i: slices in the cost == slices the stored tensor was encoded with
    rep.clause("C08-i", "the depth-slice list kept in the schedule cost is the list the weight / scale tensors stored next to it were encoded with (each (re)definition of the chosen tensor is paired with the matching slice list in the same block)")
    sch = repo.mod("scheduler")
    pw = sch.func("Scheduler.propose_weight_buffering")
    SITE_I = "ethosu/vela/scheduler.py:Scheduler.propose_weight_buffering"
    enc_of = {}
    for st in ast.walk(pw):
        if isinstance(st, ast.Assign) and isinstance(st.value, ast.Call) and (call_name(st.value) or "").endswith("encode_weight_and_scale_tensor") and isinstance(st.targets[0], ast.Tuple):
            enc_of[norm(st.targets[0].elts[0])] = norm(st.value.args[-1])
    if "full_weights" not in enc_of or "encoded_weights" not in enc_of:
        raise AnalysisError("propose_weight_buffering: encode calls for full_weights / encoded_weights not found")

    def blocks(node):
        for fld in ("body", "orelse", "finalbody"):
            b = getattr(node, fld, None)
            if isinstance(b, list) and b and isinstance(b[0], ast.stmt):
                yield b
                for st in b:
                    yield from blocks(st)

    n_i = 0
    for blk in blocks(pw):
        for i, st in enumerate(blk):
            tgt = None
            if isinstance(st, (ast.Assign, ast.AnnAssign)):
                t0 = st.targets[0] if isinstance(st, ast.Assign) else st.target
                if norm(t0) == "encoded_weights" and st.value is not None:
                    tgt = norm(st.value)
                elif isinstance(t0, ast.Tuple) and t0.elts and norm(t0.elts[0]) == "encoded_weights":
                    tgt = "<encode>"
            if tgt is None:
                continue
            want = enc_of.get(tgt) if tgt != "<encode>" else enc_of["encoded_weights"]
            if want is None:
                raise AnalysisError(f"encoded_weights defined from `{tgt}`, whose slice list is unknown")
            prev = None
            for back in reversed(blk[:i]):
                if isinstance(back, ast.Assign) and norm(back.targets[0]) == "cost.ofm_depth_slices":
                    prev = back
                    break
                if any(isinstance(x, ast.Assign) and norm(x.targets[0]) == "cost.ofm_depth_slices" for x in ast.walk(back)):
                    break
            n_i += 1
            ok = prev is not None and (norm(prev.value) == want or want == "cost.ofm_depth_slices")
            rep.check(ok, "C08-i", SITE_I, f"`{norm(st)[:60]}` follows `cost.ofm_depth_slices = {want if want != 'cost.ofm_depth_slices' else '<the list passed to the encoder>'}` in its block",
                      ("no assignment of cost.ofm_depth_slices precedes it in the block" if prev is None else f"preceded by `{norm(prev)}`") +
                      ": the cost keeps the slice list of another encoding, and stripes are generated for slices the stored tensor has no ranges for")
    rep.floor("C08-i", 3)

    # ---------------------------------------------------------------- j: a present core without a range gets an empty stream
    rep.clause("C08-j", "on a multi-core target a core that received no range is programmed with length 0 (WEIGHT and SCALE registers)")
    from .shared import idle_core_windows

    idle_core_windows(repo, rep, "C08-j")

    # ---------------------------------------------------------------- l: staging DMA source, flash copies
    rep.clause("C08-l", "the weight DMA of a depth slice starts at core 0's range (its length spans all cores); both the weight stream and a stand-alone scale stream of an operator are copied into the flash tensor")
    hn_ = repo.mod("high_level_command_to_npu_op")
    cd = hn_.func("create_dma_op")
    from ..cfg import cfg_of as _cfg8

    c8 = _cfg8(cd)
    srcs = c8.nodes_where(lambda n_: n_.stmt is not None and n_.kind != "test" and isinstance(n_.stmt, ast.Assign) and str(norm(n_.stmt.targets[0])) == "src_addr" and "weight_range" in str(norm(n_.stmt.value)))
    g0 = c8.nodes_where(lambda n_: n_.kind == "test" and str(norm(n_.expr)) in ("core == 0", "0 == core"))
    if len(srcs) != 1:
        raise AnalysisError("create_dma_op: source address of the weight DMA not found")
    on_true = len(g0) == 1 and c8.dominates(g0[0], srcs[0]) and not any(b == srcs[0] or c8.path_avoiding(b, srcs[0], [g0[0]]) for b in c8.branch_succ(g0[0], False))
    rep.check(on_true, "C08-l", "ethosu/vela/high_level_command_to_npu_op.py:create_dma_op", "src_addr of the weight DMA is taken from the range of core 0 (under `core == 0`)",
              "taken outside the core-0 branch: after the per-core loop `weight_range` is the last core's range, so the buffer starts with core 1's stream")
    ns_ = repo.mod("npu_serialisation")
    sf = ns_.func("serialise_npu_subgraph_into_tensors")
    copies = []
    for node in ast.walk(sf):
        if isinstance(node, ast.If) and any(isinstance(x, ast.Call) and call_name(x) == "copy_compressed_values_to_memory_tensor" for b in node.body for x in ast.walk(b)):
            copies.append(node)
    tests = {str(norm(n_.test)): n_ for n_ in copies}
    ok = set(tests) == {"op_info.npu_weights_tensor", "op_info.npu_scales_tensor"} and not any(any(o is other for o in ast.walk(ast.Module(body=n_.orelse, type_ignores=[]))) for n_ in copies for other in copies if other is not n_)
    rep.check(ok, "C08-l", "ethosu/vela/npu_serialisation.py:serialise_npu_subgraph_into_tensors", "weights and stand-alone scales are copied to flash under two independent tests",
              f"tests {sorted(tests)}; one copy sits in the else-branch of the other: an operator that reuses cached weights with its own scales has its scale range left as zeros")
    rep.floor("C08-l", 2)


def rule_round5(repo, rep):
    """(m) the encoder receives the micro-block depths of their own kind (rows of the accelerator table are read by field name, or
    positionally in the field order of the named tuple); the reduced 16-bit scale form is selected exactly for int16 with an int64
    bias (the reference's 64-bit accumulator case); regions of the scale stream [shared with C02-k]."""
    from ..exprnorm import conjuncts
    from ..tables import namedtuple_fields
    from . import c02

    rep.clause("C08-m", "micro-block depths handed to the encoder are the accelerator row's ifm_ublock / ofm_ublock by name (positional unpacking follows the named tuple's field order); "
               "reduced_quantise_scale is selected iff the IFM is int16 and the bias int64; the stand-alone scale stream is addressed in its own region [rule shared with C02-k]")
    rep.run_borrowed(c02, {"C02-k": "C08-m"}, repo, only_sites=("create_weights",))
    af = repo.mod("architecture_features")
    fields = namedtuple_fields(af.class_assigns("ArchitectureFeatures").get("ArchitectureConfig"))
    if not fields:
        raise AnalysisError("ArchitectureConfig fields not recognised")
    n = 0
    for m in repo.core_modules():
        if m.name.startswith("tosa"):
            continue
        for q, fn in m.functions.items():
            for st in ast.walk(fn):
                if not (isinstance(st, ast.Assign) and len(st.targets) == 1):
                    continue
                v = st.value
                txt = str(norm(v))
                if "accelerator_configs[" not in txt and not txt.endswith(".config") and ".config[" not in txt:
                    continue
                t = st.targets[0]
                if isinstance(t, ast.Tuple):
                    # positional unpacking (possibly of a slice starting at 0)
                    start = 0
                    if isinstance(v, ast.Subscript) and isinstance(v.slice, ast.Slice):
                        lo = v.slice.lower
                        start = lo.value if isinstance(lo, ast.Constant) and isinstance(lo.value, int) else (0 if lo is None else None)
                    if start is None:
                        continue
                    for i, e in enumerate(t.elts):
                        if isinstance(e, ast.Name) and e.id in fields and start + i < len(fields):
                            n += 1
                            rep.check(fields[start + i] == e.id, "C08-m", f"ethosu/vela/{m.name}.py:{q}", f"`{e.id}` is unpacked from field `{e.id}` of the accelerator row",
                                      f"position {start + i} of ArchitectureConfig is `{fields[start + i]}`: `{e.id}` receives the other micro-block (they differ on ethos-u55-32: depth 4 vs 8), "
                                      "so the weight stream is reordered for the wrong micro-block depths")
                elif isinstance(t, ast.Name) and isinstance(v, ast.Attribute) and v.attr in fields and t.id in fields:
                    n += 1
                    rep.check(v.attr == t.id, "C08-m", f"ethosu/vela/{m.name}.py:{q}", f"`{t.id}` is read from field `{t.id}` of the accelerator row", f"read from field `{v.attr}`")
    if n < 2:
        raise AnalysisError(f"accelerator row reads by field: only {n} found")
    wc = repo.mod("weight_compressor")
    ps = wc.func("_prepare_scale_and_bias")
    sel = [i_ for i_ in ast.walk(ps) if isinstance(i_, ast.If) and any(isinstance(c_, ast.Call) and call_name(c_) == "reduced_quantise_scale" for b in i_.body for c_ in ast.walk(b))]
    if len(sel) != 1:
        raise AnalysisError("_prepare_scale_and_bias: selection of reduced_quantise_scale not found")
    cj = sorted(str(norm(x)) for x in conjuncts(sel[0].test))
    rep.check(cj == sorted(["ifm_dtype == DataType.int16", "bias_tens.dtype == DataType.int64"]), "C08-m", "ethosu/vela/weight_compressor.py:_prepare_scale_and_bias",
              "the reduced (16-bit multiplier) form is used iff the IFM is int16 and the bias is int64", f"selected under {cj}: int16 feature maps with an int32 bias (full 32-bit multiplier in the reference) get "
              "(multiplier >> 16, shift - 16) records, or int64-bias operators keep the full form")
    rep.floor("C08-m", 4)


def rule_forced_output_quantisation(repo, rep):
    """(n) when an activation is fused into the preceding operator, that operator's OFM tensor becomes the post-activation tensor and its
    own output scale lives in `forced_output_quantization` only. The OFM scale registers honour it (get_ofm_quantization); the packed
    scale records must be derived from the same quantisation: every function of the weight compressor that reads an operator's output
    quantisation goes through Operation.get_output_quantization() (or reads forced_output_quantization itself)."""
    rep.clause("C08-n", "the output quantisation behind the packed scale records is the forced-aware one (Operation.get_output_quantization), as for the OFM scale registers")
    opm = repo.mod("operation")
    acc = opm.func("Operation.get_output_quantization")
    ok_acc = any(isinstance(i, ast.If) and "self.forced_output_quantization is not None" in str(norm(i.test)) and any(isinstance(r, ast.Return) and str(norm(r.value)) == "self.forced_output_quantization" for r in i.body) for i in ast.walk(acc))
    rep.check(ok_acc, "C08-n", "ethosu/vela/operation.py:Operation.get_output_quantization", "returns forced_output_quantization when it is set", "the accessor no longer prefers the forced quantisation")
    wc = repo.mod("weight_compressor")
    n = 0
    for q, fn in wc.functions.items():
        for x in ast.walk(fn):
            # direct reads of <op>.ofm.quantization / <op>.outputs[0].quantization
            if isinstance(x, ast.Attribute) and x.attr == "quantization" and isinstance(x.ctx, ast.Load) and str(norm(x.value)).split(".")[-1] in ("ofm", "outputs[0]") and str(norm(x.value)).count(".") >= 1:
                n += 1
                rep.bad("C08-n", f"ethosu/vela/weight_compressor.py:{q}", f"`{str(norm(x))}` read directly",
                        "bypasses forced_output_quantization: a convolution with a fused LUT activation (CONV_2D + TANH with different scales) gets its scale records computed against the post-activation scale "
                        "while the OFM registers use the forced one")
            if isinstance(x, ast.Call) and isinstance(x.func, ast.Attribute) and x.func.attr == "get_output_quantization":
                n += 1
                rep.ok("C08-n", f"ethosu/vela/weight_compressor.py:{q}", f"`{str(norm(x))}`")
    if n < 1:
        raise AnalysisError("weight_compressor: no read of an operator's output quantisation found")
    rep.floor("C08-n", 2)


def rule_bias_after_reorder(repo, rep):
    """(o) fixup_bias_tensors gives a bias-less operator a zero bias with one element per output channel, read off the weight tensor as
    `shape[-1]`. The output-channel axis of depthwise weights is last only after reorder_depthwise_weights has transposed them from the
    reader's (H, W, C, 1): in the rewrite list the reorder (and the transpose-convolution fix-up, which swaps the weight axes) must
    come before fixup_bias_tensors, otherwise a depthwise convolution gets a one-element bias and every scale range but the first is
    empty."""
    from .c02 import _pipeline

    go = repo.mod("tflite_graph_optimiser")
    site = "ethosu/vela/tflite_graph_optimiser.py:tflite_optimise_graph"
    fb = go.func("fixup_bias_tensors")
    reads_last = any("shape[-1]" in str(norm(x)) for x in ast.walk(fb) if isinstance(x, ast.Subscript))
    tf, passes = _pipeline(go)
    found = False
    for ln, names in passes:
        if "fixup_bias_tensors" in names:
            found = True
            if not reads_last:
                rep.ok("C08-o", site, "fixup_bias_tensors does not size the bias from the last weight axis", "order not constrained")
                continue
            for pre in ("reorder_depthwise_weights", "fixup_conv2d_backprop"):
                if pre in names:
                    rep.check(names.index(pre) < names.index("fixup_bias_tensors"), "C08-o", site, f"{pre} runs before fixup_bias_tensors (which reads the output channels as weights.shape[-1])",
                              f"fixup_bias_tensors is at position {names.index('fixup_bias_tensors')}, {pre} at {names.index(pre)}: a bias-less DEPTHWISE_CONV_2D gets a 1-element zero bias (weights still (H,W,C,1)): scale ranges of 16 and 0 bytes for 16 and 8 channels")
                else:
                    earlier = any(pre in nm for l2, nm in passes if l2 < ln)
                    rep.check(earlier, "C08-o", site, f"{pre} runs in an earlier pass than fixup_bias_tensors", f"{pre} not found before the pass at line {ln}")
    if not found:
        raise AnalysisError("tflite_optimise_graph: fixup_bias_tensors is in no rewrite list")


def rule_max_range_bytes(repo, rep):
    wc = repo.mod("weight_compressor")
    f = wc.func("NpuWeightTensor.max_range_bytes")
    rets = [r for r in ast.walk(f) if isinstance(r, ast.Return) and r.value is not None]
    t = str(norm(rets[0].value)) if len(rets) == 1 else ""
    ok = len(rets) == 1 and "double_buffer_sizes" in t and "encoded_ranges" not in t and call_name(rets[0].value) == "max"
    rep.check(ok, "C08-r", "ethosu/vela/weight_compressor.py:NpuWeightTensor.max_range_bytes", "max_range_bytes = max(double_buffer_sizes): the largest slice, all cores together",
              f"`{t[:90]}`: encoded_ranges has one entry per (core, slice); on Ethos-U65-512 the buffer the scheduler sizes with it is half a slice: the weight DMA of 9408 bytes overruns a 4704-byte buffer and core 1's addresses lie outside it")


def rule_round9(repo, rep):
    """(s) Two places let an operator use bytes that were encoded for another: CompressedWeightCache hits in
    encode_weight_and_scale_tensor and the de-duplication of flash addresses in linear_allocate_live_ranges. In both the guard is an
    equality of whole configuration tuples (`<a>.weight_compression_config == <b>...`, `<cached>.scale_compression_config == scc`);
    a comparison of one component (value id) or a tolerance (`allclose`) shares streams between different encodings. (t) the flip."""
    wc = repo.mod("weight_compressor")
    f = wc.func("encode_weight_and_scale_tensor")
    site = f"{WC}:encode_weight_and_scale_tensor"

    def whole_eq(test, attr):
        for c in ast.walk(test):
            if isinstance(c, ast.Compare) and len(c.ops) == 1 and isinstance(c.ops[0], ast.Eq):
                l, r = str(norm(c.left)), str(norm(c.comparators[0]))
                if (l.endswith("." + attr) or r.endswith("." + attr)) and not isinstance(test, ast.BoolOp):
                    return True
                if (l.endswith("." + attr) or r.endswith("." + attr)) and isinstance(test, ast.BoolOp) and isinstance(test.op, ast.And):
                    return True
        return False

    hits = [i for i in ast.walk(f) if isinstance(i, ast.If) and any(isinstance(r, ast.Return) and r.value is not None and "tens_cached" in str(norm(r.value)) for r in i.body)]
    if len(hits) != 1:
        raise AnalysisError(f"encode_weight_and_scale_tensor: the cache-hit return was not found ({len(hits)})")
    t = hits[0].test
    tol = [c for c in ast.walk(t) if isinstance(c, ast.Call) and (call_name(c) or "").split(".")[-1] in ("allclose", "isclose", "array_equal", "approx")]
    rep.check(whole_eq(t, "scale_compression_config") and not tol and not isinstance(t, ast.BoolOp), "C08-s", site, f"`{norm(t)[:100]}`: the cached records are reused only for an equal scale configuration",
              f"`{norm(t)[:140]}`: scales that differ by a few float32 ulps count as equal: the second operator reuses records whose 31-bit multipliers came from the first operator's scales")
    ta = repo.mod("tensor_allocation")
    g = ta.func("linear_allocate_live_ranges")
    gsite = "ethosu/vela/tensor_allocation.py:linear_allocate_live_ranges"
    dd = [i for i in ast.walk(g) if isinstance(i, ast.If) and any(isinstance(a, ast.Assign) and str(norm(a.targets[0])) == "address" and str(norm(a.value)).endswith(".address") for a in i.body)
          and "compression_config" in str(norm(i.test)) + " ".join(str(norm(x)) for x in ast.walk(g) if isinstance(x, ast.Assign) and any(isinstance(n_, ast.Name) and n_.id in [y.id for y in ast.walk(i.test) if isinstance(y, ast.Name)] for n_ in x.targets))]
    if len(dd) != 1:
        raise AnalysisError(f"linear_allocate_live_ranges: the weight de-duplication test was not found ({len(dd)})")
    rep.check(whole_eq(dd[0].test, "weight_compression_config") and not isinstance(dd[0].test, ast.BoolOp), "C08-s", gsite, f"`{norm(dd[0].test)[:100]}`: two encoded tensors share a flash address only for equal compression configurations",
              f"`{norm(dd[0].test)[:140]}`: encodings of one weight constant with different block depth or depth slices get the same flash address and overwrite each other")
    ks = [a for a in ast.walk(f) if isinstance(a, ast.Assign) and str(norm(a.targets[0])) == "kernel_size" and isinstance(a.value, ast.BinOp) and isinstance(a.value.op, ast.Mult)]
    axes = set()
    for a in ks:
        for sd in (a.value.left, a.value.right):
            if isinstance(sd, ast.Subscript) and str(norm(sd.value)) == "weights.shape" and isinstance(sd.slice, ast.Constant):
                axes.add(sd.slice.value)
    flips = [c for c in ast.walk(f) if isinstance(c, ast.Call) and (call_name(c) or "").split(".")[-1] == "flip"]
    if len(axes) != 2 or len(flips) != 1:
        raise AnalysisError(f"encode_weight_and_scale_tensor: kernel-size axes {sorted(axes)} / {len(flips)} flip calls")
    ax = [k.value for k in flips[0].keywords if k.arg == "axis"] + flips[0].args[1:2]
    got = try_fold(ax[0], default=None) if ax else None
    got = set(got) if isinstance(got, (tuple, list)) else ({got} if isinstance(got, int) else None)
    rep.check(got == axes, "C08-t", site, f"`{norm(flips[0])}` reverses the axes {sorted(axes)} that `kernel_size = {norm(ks[0].value)}` treats as kernel height and width",
              f"`{norm(flips[0])}` reverses axes {sorted(got) if got else '?'}; the volume is HWIO here (kernel size = shape[{sorted(axes)[0]}] * shape[{sorted(axes)[1]}]): the IFM channel axis is reversed instead of a kernel axis")


def rule_round10(repo, rep):
    """(u) convert_conv_groups splits per-channel quantisation vectors per group: every slice `<q>.<m>[..., a:b]` is taken under the
    dimensionality test of the *same* member (`np.ndim(<q>.<m>) > 0`): a vector member guarded by another member's test stays whole when that
    other member is a scalar, and every group then packs group 0's multipliers.
    (v) a weight buffer is sized from the encoded tensor it will receive: the size argument of Scheduler.buffer_tensor derives from its first
    argument (locals inlined), never from another tensor's storage."""
    go = repo.mod("tflite_graph_optimiser")
    fn = go.func("convert_conv_groups")
    site = "ethosu/vela/tflite_graph_optimiser.py:convert_conv_groups"
    n = 0
    for st in ast.walk(fn):
        if not (isinstance(st, ast.Assign) and isinstance(st.value, ast.Subscript) and isinstance(st.value.value, ast.Attribute) and st.value.value.attr in ("scale_f32", "zero_point")):
            continue
        src = str(norm(st.value.value))
        n += 1
        tests = []
        cur = st
        while cur is not fn and cur is not None:
            pp = go.parents.get(cur)
            if isinstance(pp, ast.If) and cur in pp.body:
                tests.append(str(norm(pp.test)))
            cur = pp
        ok = any(t in (f"np.ndim({src}) > 0", f"numpy.ndim({src}) > 0", f"np.ndim({src}) >= 1") for t in tests)
        rep.check(ok, "C08-u", site, f"`{str(norm(st))[:90]}` is taken under the dimensionality test of `{src}`",
                  f"guards are {tests}: with per-channel `{src.rsplit('.', 1)[1]}` and a scalar for the tested member the vector is not split - every group convolution keeps the whole vector and packs group 0's (multiplier, shift) records")
    if n < 4:
        raise AnalysisError(f"convert_conv_groups: {n} per-group slices of quantisation members found")
    sm = repo.mod("scheduler")
    n = 0
    for q, f in sm.functions.items():
        defs_ = {}
        for a in ast.walk(f):
            if isinstance(a, ast.Assign) and len(a.targets) == 1 and isinstance(a.targets[0], ast.Name):
                defs_.setdefault(a.targets[0].id, []).append(a)
        for c in ast.walk(f):
            if not (isinstance(c, ast.Call) and isinstance(c.func, ast.Attribute) and c.func.attr == "buffer_tensor" and str(norm(c.func.value)) == "self" and len(c.args) >= 3):
                continue
            n += 1
            src = str(norm(c.args[0]))
            seen, roots = set(), set()
            anc = set()
            cur_ = c
            while cur_ is not None:
                anc.add(id(cur_))
                cur_ = sm.parents.get(cur_)
            # definitions that lexically dominate the call: earlier statements of a block that encloses it
            single = {k_: [a_.value for a_ in v_ if a_.lineno < c.lineno and id(sm.parents.get(a_)) in anc] for k_, v_ in defs_.items()}
            single = {k_: v_ for k_, v_ in single.items() if v_}

            def collect(e, depth=0):
                for x in ast.walk(e):
                    if isinstance(x, ast.Name) and isinstance(x.ctx, ast.Load):
                        if x.id in single and depth < 4 and x.id != src:
                            if x.id not in seen:
                                seen.add(x.id)
                                for d_ in single[x.id]:
                                    collect(d_, depth + 1)
                        else:
                            roots.add(x.id)

            collect(c.args[2])
            purpose_names = {c.args[1].id} if isinstance(c.args[1], ast.Name) else set()
            extra = sorted(r for r in roots if r not in ({src, "len", "min", "max", "idx", "TensorSubPurpose", "round_up", "int"} | purpose_names))
            rep.check(not extra, "C08-v", f"ethosu/vela/scheduler.py:{q}", f"buffer size `{str(norm(c.args[2]))[:60]}` derives from the buffered tensor `{src}`",
                      f"also derives from {extra}: the buffer is sized from another tensor - a depth slice of `{src}` larger than that does not fit the buffer the DMA fills (double_buffer_sizes no longer bound the slice)")
    if n < 3:
        raise AnalysisError(f"Scheduler.buffer_tensor: {n} calls found")


def rule_inserted_weight_taps(repo, rep):
    """(x) a weight enters the stream as (code - zero point): taps that a rewrite *inserts* into a weight tensor (a kernel made sparse for a
    dilation above 2, a filter padded for a folded stride) must be the tensor's zero point, i.e. weight 0. An array created by np.zeros that
    becomes `<op>.weights.values` is therefore reported unless it was created by np.full with the zero point; paddings of weight tensors
    (np.pad) take the zero point as constant."""
    go = repo.mod("tflite_graph_optimiser")
    n = 0
    for q, fn in go.functions.items():
        zs = {}
        for st in ast.walk(fn):
            if isinstance(st, ast.Assign) and isinstance(st.targets[0], ast.Name) and isinstance(st.value, ast.Call) and (call_name(st.value) or "") in ("np.zeros", "numpy.zeros", "np.full", "numpy.full", "np.zeros_like", "np.full_like"):
                zs[st.targets[0].id] = st.value
        for st in ast.walk(fn):
            if not (isinstance(st, ast.Assign) and str(norm(st.targets[0])).endswith("weights.values") and isinstance(st.value, ast.Name) and st.value.id in zs):
                continue
            n += 1
            c = zs[st.value.id]
            cn = call_name(c) or ""
            ok = cn.endswith(("full", "full_like")) and any("zero_point" in str(norm(a)) for a in list(c.args) + [k.value for k in c.keywords]) or (
                cn.endswith(("full", "full_like")) and any(isinstance(a, ast.Name) and any(isinstance(s2, ast.Assign) and str(norm(s2.targets[0])) == a.id and "zero_point" in str(norm(s2.value)) for s2 in ast.walk(fn)) for a in c.args))
            rep.check(ok, "C08-x", f"ethosu/vela/tflite_graph_optimiser.py:{q}", f"`{st.value.id} = {str(norm(c))[:60]}` fills the inserted taps with the weight zero point",
                      "the new kernel is created with zeros: with uint8 weights (zero point 128) every inserted tap is encoded as weight -128 instead of 0 (2048 of 3584 encoded weights differ from the equivalent dilated kernel)")
    if n < 1:
        raise AnalysisError("weight arrays rebuilt by the graph optimiser: none found")

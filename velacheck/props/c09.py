"""C09 Quantised multipliers reproduce the real scale to reference precision (structural / abstract clauses)."""
import ast
import math

from ..absint import AObj, Interp, Unknown
from ..astutil import calls_in, call_name, dotted, norm, try_fold, walk_no_nested
from ..cfg import cfg_of
from ..core import AnalysisError
from .c03 import eval_with
from .c15 import linform

SC = "ethosu/vela/scaling.py"
GEN = "ethosu/vela/register_command_stream_generator.py"


def pow2_exp(v):
    """If v denotes m * 2^a (m the frexp significand), through int()/rounding wrappers, return a; else None."""
    if isinstance(v, Unknown) and v.text == "m":
        return 0
    p = getattr(v, "parts", None)
    if not p:
        return None
    if p[0] == "*" and len(p) == 3:
        for x, c in ((p[1], p[2]), (p[2], p[1])):
            if isinstance(c, int) and c > 0 and c & (c - 1) == 0:
                a = pow2_exp(x)
                return None if a is None else a + c.bit_length() - 1
    if p[0] in ("//", ">>", "/") and len(p) == 3 and isinstance(p[2], int):
        a = pow2_exp(p[1])
        if a is None:
            return None
        if p[0] == ">>":
            return a - p[2]
        c = p[2]
        if c > 0 and c & (c - 1) == 0:
            return a - (c.bit_length() - 1)
    if p[0] == "+" and len(p) == 3 and isinstance(p[2], int):
        return pow2_exp(p[1])  # rounding offset
    if p[0] in ("int", "round") and len(p) >= 2:
        return pow2_exp(p[1])
    if p[0] == "call" and p[1] in ("round_away_zero",):
        return pow2_exp(p[2][0])
    return None


def run(repo, rep):
    rep.clause("C09-a", "quantise_scale: on every path the (multiplier, shift) pair denotes significand * 2^exponent (power-of-two bookkeeping agrees), the shift is range-guarded and out-of-range scales give (0, 16); reduced form keeps the pair consistent and saturates at 32767; the pooling divisor is rounded up (scale * n >= 2^shift) for every window size")
    rep.clause("C09-b", "where Vela widens float32 scales to double, the widening is applied to each scale before the arithmetic (never to a float32 result)")
    rep.clause("C09-c", "add/sub derivations agree: advanced calls simplified with (min, max, output, input_shift), input_shift = 20 for 8 bit else 15, OPa iff input1 < input2, and the generator swaps the operand exactly under reversed_operands")
    rep.clause("C09-d", "rounding mode: round_away_zero (significand rounding of quantise_scale) rounds half away from zero like the reference's std::round; the 8-bit equal-scale add/sub "
               "leaves the reference (advanced, left shift 20) derivation only when the low 12 bits of the OFM multiplier are zero")
    rep.clause("C09-e", "packed scale records are cached under a key whose ifm/ofm scale components are read by the same accessors as the scales the records are derived from")
    rep.clause("C09-q", "every packed record pairs channel c's bias with channel c's (multiplier, shift): the index of the bias and the index of the scale pair agree for every core, depth slice and position (index expressions folded over 1 and 2 cores)")
    rule_record_pairing(repo, rep)
    rep.clause("C09-r", "int16 SOFTMAX: the input is rescaled to the reference kernel's exp-LUT range, input_scale * beta / (10 / 65535) (the constant is folded from the source)")
    rule_softmax_int16_range(repo, rep)
    rep.clause("C09-s", "the ADD that a 1x1 resize is lowered to takes its forced output scale from the operand slot where the lowering left the real input (producer and consumer agree on the slot)")
    rule_resize_add_slot(repo, rep)
    rep.clause("C09-t", "an average pool emulated by a (depthwise) convolution gets an int32 bias from its own lowering on every path (full-precision window divisor; the later generic fixup would pick int64 / reduced scaling for int16)")
    rule_avgpool_emulation_bias(repo, rep)
    rep.clause("C09-u", "per-tensor scales reach the derivations as numpy float32 scalars: the reader's len1_array_to_scalar returns an element of the file's array, never a converted (double) value")
    rule_reader_scalar_type(repo, rep)
    rep.clause("C09-v", "fixup_bias_tensors only supplies a default bias type: an explicit request (int32 for emulated pooling) is never overwritten")
    rep.clause("C09-w", "scale comparisons compare two different operands (no comparison helper or ==/!= with identical sides; expected count 0, matcher exercised)")
    rep.clause("C09-x", "TOSA AVG_POOL2D reciprocal multiplier: numerator ((1 << 30) + 1) << k, shift 30 + k (folded for k = 0..6)")
    rule_round11(repo, rep)
    rep.clause("C09-y", "the reduced int16 scaling is selected by the declared tensor types (conjunct set of the selecting test)")
    rep.clause("C09-z", "constant folding of a float QUANTIZE rounds value / scale (no reciprocal) [also reported under C19]")
    rule_round12(repo, rep)
    rep.undecided("relative error bounds, equality with the TFLite derivation for all real scales")
    sc = repo.mod("scaling")

    def frexp(interp, args, kwargs, node):
        return (Unknown("m"), Unknown("e"))

    it = Interp(repo, sc, externs={"math.frexp": frexp}, stubs={"round_away_zero"})
    # ---------------------------------------------------------------- a: quantise_scale
    site = f"{SC}:quantise_scale"
    n_ok = n_zero = 0
    for p in it.run("quantise_scale", lambda: ([Unknown("scale")], {})):
        if p.kind != "return" or not isinstance(p.value, tuple) or len(p.value) != 2:
            rep.bad("C09-a", site, "return value", f"{p.kind} {p.value!r}")
            continue
        mult, shift = p.value
        if mult == 0:
            n_zero += 1
            rep.check(shift == 16 and any(("shift" in t or "e" in t) and (("<" in t) or ("not" in t)) for t, d in p.decisions), "C09-a", site, "out-of-range scales degrade to (0, 16)", f"{p.value!r} on {p.decisions}")
            continue
        n_ok += 1
        a = pow2_exp(mult)
        lf = linform(shift)
        rep.check(a is not None and lf.get("e") == -1 and set(lf) <= {"e", ""}, "C09-a", site, "multiplier = significand * 2^a, shift = b - exponent", f"multiplier {getattr(mult, 'text', mult)}, shift {getattr(shift, 'text', shift)}")
        if a is not None and lf.get("e") == -1:
            b = lf.get("", 0)
            rep.check(a == b, "C09-a", site, f"pair denotes the input scale: 2^{a} in the multiplier matches shift = {b} - exponent",
                      f"multiplier carries 2^{a} but shift is {b} - exponent on the path {p.decisions}: the pair denotes scale * 2^{a - b}")
            rep.check(a == 31 or (a == 30 and any(("==" in t or ">=" in t) and ("31" in t or "2147483648" in t) for t, d in p.decisions if d)), "C09-a", site, "the full multiplier is a Q31 significand (in [2^30, 2^31])", f"2^{a} on {p.decisions}")
        # range guard learnt on this path: 0 <= shift < 64
        guard = [(t, d) for t, d in p.decisions if "<" in t]
        rep.check(bool(guard), "C09-a", site, "the shift range test is on the path of every non-zero result", f"decisions {p.decisions}")
    rep.check(n_ok >= 1 and n_zero >= 1, "C09-a", site, "both the normal and the degraded result exist", f"{n_ok}/{n_zero}")
    f = sc.func("quantise_scale")
    g = [n for n in ast.walk(f) if isinstance(n, ast.If) and any(isinstance(s, ast.Return) and norm(s.value) == "(0, 16)" for s in n.body)]
    rep.check(len(g) == 1 and norm(g[0].test) in ("not 0 <= shift < 1 << 6", "not (0 <= shift < 1 << 6)", "not 0 <= shift < 64", "shift < 0 or shift >= 1 << 6", "shift < 0 or shift >= 64"), "C09-a", site,
              "guard accepts exactly 0 <= shift < 64", norm(g[0].test) if g else "")
    # reduced form: interpreted with quantise_scale replaced by chosen (multiplier, shift) pairs, against its definition:
    # (min(32767, round(multiplier / 2^16)), shift - 16) when that shift is a legal 6-bit shift, else the degraded (0, 16)
    site = f"{SC}:reduced_quantise_scale"
    cur = {}

    def qs_ext(interp, args, kwargs, node):
        return cur["pair"]

    it_r = Interp(repo, sc, externs={"quantise_scale": qs_ext})
    wrong = []
    npr = 0
    for mult in (1 << 30, (1 << 30) + 1, (1 << 30) + (1 << 15) - 1, (1 << 30) + (1 << 15), (32767 << 16) - (1 << 15) - 1, (32767 << 16) - (1 << 15), (32767 << 16) - 1, 32767 << 16, (1 << 31) - 1, 1 << 31):
        for shift in (0, 1, 15, 16, 17, 31, 62, 63):
            cur["pair"] = (mult, shift)
            ps_ = list(it_r.run("reduced_quantise_scale", lambda: ([Unknown("scale")], {})))
            if len(ps_) != 1 or ps_[0].kind != "return" or not isinstance(ps_[0].value, tuple) or not all(isinstance(x, int) for x in ps_[0].value):
                raise AnalysisError(f"reduced_quantise_scale not evaluable for quantise_scale -> {(mult, shift)}: {[(p_.kind, p_.value) for p_ in ps_][:2]}")
            want = (min(32767, (mult + (1 << 15)) >> 16), shift - 16) if 0 <= shift - 16 < 64 else (0, 16)
            npr += 1
            if tuple(ps_[0].value) != want:
                wrong.append(((mult, shift), tuple(ps_[0].value), want))
    cur["pair"] = (0, 16)
    ps_ = list(it_r.run("reduced_quantise_scale", lambda: ([Unknown("scale")], {})))
    if not (len(ps_) == 1 and ps_[0].kind == "return" and tuple(ps_[0].value)[0] == 0):
        wrong.append(((0, 16), ps_[0].value if ps_ else None, (0, 16)))
    rep.check(not wrong, "C09-a", site, f"reduced form = (min(32767, round(multiplier / 2^16)), shift - 16) with a legal 6-bit shift, else (0, 16), on {npr + 1} (multiplier, shift) probes",
              "; ".join(f"quantise_scale -> {a_}: returns {g_}, expected {w_}" for a_, g_, w_ in wrong[:3]) + (f" (+{len(wrong) - 3} more)" if len(wrong) > 3 else ""))
    cs_ = [c_ for c_ in calls_in(sc.func("reduced_quantise_scale")) if call_name(c_) == "quantise_scale"]
    rep.check(len(cs_) == 1 and norm(cs_[0].args[0]) == "scale", "C09-a", site, "the reduced form is derived from quantise_scale(scale)", "")
    # pooling divisor: scale * n >= 2^shift for every window size (finite domain; own evaluator on the extracted expressions)
    site = f"{SC}:quantise_pooling_scale"
    qp = sc.func("quantise_pooling_scale")
    d = {norm(s.targets[0]): s.value for s in qp.body if isinstance(s, ast.Assign)}
    fx = [s for s in qp.body if isinstance(s, ast.Assign) and call_name(s.value) == "math.frexp"]
    ok = len(fx) == 1 and norm(fx[0].value.args[0]) == "nr_kernel_elements - 1" and norm(fx[0].targets[0]) == "(_, k)"
    rep.check(ok and "scale" in d and "shift" in d and "N" in d, "C09-a", site, "k = exponent of (n - 1); N, scale, shift defined", "")
    if ok and "scale" in d and "shift" in d and "N" in d:
        limit = 65536 if rep.tier == "thorough" else 2048
        sizes = list(range(1, limit + 1)) + [4095, 4096, 4097, 16384, 32767, 32768, 65535, 65536]
        bad = None
        cnt = 0
        for rb in (0, 3, -2):
            for nwin in sizes:
                k = math.frexp(nwin - 1)[1]
                N = eval_with(d["N"], {"rescale_bits": rb})
                env = {"nr_kernel_elements": nwin, "k": k, "N": N, "rescale_bits": rb}
                scale = eval_with(d["scale"], env)
                shift = eval_with(d["shift"], env)
                if scale is None or shift is None:
                    raise AnalysisError("pooling scale expressions not foldable")
                cnt += 1
                if (scale * nwin < (1 << shift) or (scale - 1) * nwin >= (1 << shift) + (1 << k)) and bad is None:
                    bad = f"window of {nwin} elements (rescale_bits {rb}): scale {scale}, shift {shift}: scale * n = {scale * nwin} < 2^shift = {1 << shift}: exact-half accumulators round down"
        rep.check(bad is None, "C09-a", site, f"scale * n >= 2^shift (reciprocal rounded up) for {cnt} (window size, rescale) pairs", bad or "")
    rep.check(any(isinstance(s, ast.Assert) and norm(s.test) in ("shift < 1 << 6", "shift < 64") for s in qp.body), "C09-a", site, "shift < 64 asserted", "")
    rep.floor("C09-a", 10)

    # ---------------------------------------------------------------- b: widen-before-arithmetic
    wide = ("np.double", "np.float64", "numpy.double", "numpy.float64", "float")
    # sites where the float32 arithmetic inside the widening is deliberate (mirrors the reference kernel), one reason each
    deliberate = {
        ("weight_compressor", "_prepare_scale_and_bias", "np.double(ifm_scale * weight_scale)"):
            "TFLite's uint8 / FullyConnected path multiplies the input and filter scales as float before converting to double "
            "(GetQuantizedConvolutionMultipler: `const double input_product_scale = static_cast<double>(input->params.scale * filter->params.scale)`)",
    }

    def exact_pow2_product(e):
        """x * 2^k is exact in binary floating point: not a precision hazard"""
        if not (isinstance(e, ast.BinOp) and isinstance(e.op, ast.Mult)):
            return False
        for c_ in (e.left, e.right):
            v = try_fold(c_)
            if isinstance(v, (int, float)) and v > 0 and math.log2(v) == int(math.log2(v)):
                return True
            if isinstance(c_, ast.BinOp) and isinstance(c_.op, ast.LShift) and try_fold(c_.left) == 1:
                return True
        return False

    n = 0
    for mname in ("register_command_stream_generator", "tflite_graph_optimiser", "weight_compressor", "scaling", "softmax", "lstm", "graph_optimiser_util", "operation_util"):
        m = repo.mod(mname)
        for q, fn in m.functions.items():
            if "." in q and q.split(".")[0] in m.functions:
                continue
            scale_names = set()
            for s in walk_no_nested(fn):
                if isinstance(s, ast.Assign) and len(s.targets) == 1 and isinstance(s.targets[0], ast.Name) and isinstance(s.value, ast.Attribute) and s.value.attr == "scale_f32":
                    scale_names.add(s.targets[0].id)

            def is_scale(e):
                return (isinstance(e, ast.Attribute) and e.attr == "scale_f32") or (isinstance(e, ast.Name) and e.id in scale_names)

            for c in calls_in(fn, nested=False):
                if call_name(c) in wide and len(c.args) == 1:
                    a = c.args[0]
                    if is_scale(a):
                        n += 1
                        rep.ok("C09-b", f"ethosu/vela/{mname}.py:{q}", f"{norm(c)[:70]}", "scale widened before use")
                    elif isinstance(a, ast.BinOp) and isinstance(a.op, (ast.Div, ast.Mult)) and any(is_scale(x) for x in ast.walk(a)) and not any(
                            isinstance(x, ast.Call) and call_name(x) in wide for x in ast.walk(a)):
                        n += 1
                        if exact_pow2_product(a):
                            rep.ok("C09-b", f"ethosu/vela/{mname}.py:{q}", f"{norm(c)[:80]}", "multiplication by a power of two is exact")
                            continue
                        if (mname, q, norm(c)) in deliberate:
                            rep.ok("C09-b", f"ethosu/vela/{mname}.py:{q}", f"{norm(c)[:80]}", "deliberate: " + deliberate[(mname, q, norm(c))])
                            continue
                        rep.bad("C09-b", f"ethosu/vela/{mname}.py:{q}", f"{norm(c)[:80]}", "the arithmetic on float32 scales happens inside the widening call: the quotient is rounded to float32 first (relative error 2^-24 instead of 2^-31 against the reference, which divides in double)")
    # which rule applies is decided on the operator's TFLite kind (original_type): a 1x1 convolution rewritten to FullyConnected keeps CONV_2D's double product
    ps_ = repo.mod("weight_compressor").func("_prepare_scale_and_bias")
    sel = [n_ for n_ in ast.walk(ps_) if isinstance(n_, ast.If) and "Op.FullyConnected" in str(norm(n_.test))]
    if len(sel) != 1:
        raise AnalysisError("_prepare_scale_and_bias: selection of the float32-product rule not found")
    from ..exprnorm import conjuncts as _cj

    dis = [norm(v_) for v_ in (sel[0].test.values if isinstance(sel[0].test, ast.BoolOp) and isinstance(sel[0].test.op, ast.Or) else [sel[0].test])]
    rep.check("first_consumer_op.original_type == Op.FullyConnected" in dis and "ifm_dtype == DataType.uint8" in dis and len(dis) == 2, "C09-b", "ethosu/vela/weight_compressor.py:_prepare_scale_and_bias",
              "the float32 product (TFLite's uint8 / FULLY_CONNECTED rule) is selected by ifm dtype uint8 or original_type FullyConnected", f"selected by {dis}")
    # the add / sub derivation is carried out in double (TFLite add.cc / sub.cc: `const double twice_max_input_scale = 2 * std::max(...)`):
    # the scales reach the helper as the reader's np.float32, and np.float32 (op) Python int / float stays float32 under NumPy >= 2
    # (NEP 50), so every scale parameter must be widened before it enters arithmetic
    # elementwise_mul_scale is deliberately not in this list: TFLite's mul.cc evaluates `input1 scale * input2 scale / output scale` on float
    # operands (float arithmetic, then converted to double), TFLite Micro casts each to double first; Vela computes what its callers pass
    # (np.float32 from the command stream generator, np.double from lstm / leaky-relu conversions). A rule demanding double was a false alarm.
    for fname, demo in (("simplified_elementwise_add_sub_scale", "demonstrated end to end: ADD with scales 0.0123, 0.0456 -> 0.0789: OPA_SCALE (1158510848, 13), reference (1158510858, 13); OFM_SCALE off by 2^-24.9"),):
        fn = sc.func(fname)
        params = [a.arg for a in fn.args.args if a.arg.endswith("_scale")]
        if len(params) != 3:
            raise AnalysisError(f"{fname}: scale parameters {params}")
        widened_at = {}
        for st in fn.body:
            if isinstance(st, ast.Assign) and len(st.targets) == 1 and isinstance(st.targets[0], ast.Name) and isinstance(st.value, ast.Call) and call_name(st.value) in wide \
                    and len(st.value.args) == 1 and isinstance(st.value.args[0], ast.Name) and st.value.args[0].id == st.targets[0].id:
                widened_at.setdefault(st.targets[0].id, st.lineno)
        raw_use = []
        n_arith = 0
        for x in ast.walk(fn):
            if isinstance(x, (ast.BinOp, ast.Compare)) or (isinstance(x, ast.Call) and call_name(x) in ("max", "min")):
                ops = ([x.left, x.right] if isinstance(x, ast.BinOp) else [x.left] + list(x.comparators) if isinstance(x, ast.Compare) else list(x.args))
                n_arith += 1
                for o in ops:
                    # a parameter wrapped in a widening call at the use (`float(input_scale) * ..`) is a Call operand, not a Name
                    if isinstance(o, ast.Name) and o.id in params and not (o.id in widened_at and widened_at[o.id] < x.lineno):
                        raw_use.append((o.id, x.lineno))
        if not n_arith:
            raise AnalysisError(f"{fname}: no arithmetic on the scales found")
        rep.check(not raw_use, "C09-b", f"ethosu/vela/scaling.py:{fname}", "every scale parameter is widened to double before it enters the derivation (the reference kernels derive these values in double)",
                  f"parameters used as they arrive: {sorted(set(n_ for n_, _ in raw_use))}: with the reader's np.float32 scales the whole derivation runs in float32 under NumPy >= 2 ({demo})")
    adv = sc.func("advanced_elementwise_add_sub_scale")
    cs_ = [c_ for c_ in ast.walk(adv) if isinstance(c_, ast.Call) and call_name(c_) == "simplified_elementwise_add_sub_scale"]
    arith = [x for x in ast.walk(adv) if isinstance(x, ast.BinOp)]
    rep.check(len(cs_) == 1 and not arith, "C09-b", "ethosu/vela/scaling.py:advanced_elementwise_add_sub_scale", "the advanced derivation does no arithmetic of its own on the scales (it selects min / max and delegates)",
              f"{len(arith)} arithmetic expressions on possibly float32 scales")
    # the 31-bit pooling divisor is never multiplied by a float32 value: the product would keep 24 bits (NumPy >= 2) and the +1 that makes
    # the divisor round exact halves up is lost
    gp_ = repo.mod("register_command_stream_generator").func("generate_ofm_scaling_for_pooling")

    def reads_raw_scale(e):
        """True if `e` reads a `.scale_f32` that is not the sole argument of a widening call."""
        par = {}
        for x in ast.walk(e):
            for ch in ast.iter_child_nodes(x):
                par[ch] = x
        for x in ast.walk(e):
            if isinstance(x, ast.Attribute) and x.attr == "scale_f32":
                p_ = par.get(x)
                if not (isinstance(p_, ast.Call) and call_name(p_) in wide and len(p_.args) == 1 and p_.args[0] is x):
                    return True
        return False

    gmod = repo.mod("register_command_stream_generator")

    def reaching_assign(name, at):
        """The textually last assignment to `name` before `at` among the statements of the blocks that enclose `at`."""
        anc = set()
        cur = at
        while cur is not None and cur is not gp_:
            cur = gmod.parents.get(cur)
            anc.add(cur)
        best = None
        for st in ast.walk(gp_):
            if isinstance(st, ast.Assign) and len(st.targets) == 1 and isinstance(st.targets[0], ast.Name) and st.targets[0].id == name and st.lineno < at.lineno and gmod.parents.get(st) in anc:
                if best is None or st.lineno > best.lineno:
                    best = st
        return best

    def is_float32(name, at, depth=0):
        st = reaching_assign(name, at)
        if st is None or depth > 4:
            return None
        v = st.value
        if isinstance(v, ast.Call) and call_name(v) in wide + ("int",):
            return None
        if reads_raw_scale(v):
            return st
        for x in ast.walk(v):
            if isinstance(x, ast.Name) and x.id != name:
                r_ = is_float32(x.id, st, depth + 1)
                if r_ is not None:
                    return r_
        return None
    divisors = {t.elts[0].id for st in ast.walk(gp_) if isinstance(st, ast.Assign) and isinstance(st.value, ast.Call) and (call_name(st.value) or "").endswith("quantise_pooling_scale")
                for t in st.targets if isinstance(t, ast.Tuple) and isinstance(t.elts[0], ast.Name)}
    if not divisors:
        raise AnalysisError("generate_ofm_scaling_for_pooling: no (scale, shift) = quantise_pooling_scale(...) unpacking found")
    nprod = 0
    for x in ast.walk(gp_):
        if isinstance(x, ast.BinOp) and isinstance(x.op, ast.Mult):
            names = [o.id for o in (x.left, x.right) if isinstance(o, ast.Name)]
            if any(n_ in divisors for n_ in names):
                nprod += 1
                other = [n_ for n_ in names if n_ not in divisors]
                src_ = {n_: is_float32(n_, x) for n_ in other}
                bad_ = [n_ for n_ in other if src_[n_] is not None]
                rep.check(not bad_, "C09-b", "ethosu/vela/register_command_stream_generator.py:generate_ofm_scaling_for_pooling",
                          f"`{str(norm(x))}` (product {nprod}): the 31-bit pooling divisor is multiplied by a double",
                          f"`{bad_[0] if bad_ else ''}` comes from `{str(norm(src_[bad_[0]].value)) if bad_ else ''}`, which is float32 for the reader's float32 scales: the product keeps 24 bits under NumPy >= 2 "
                          "(demonstrated: AVERAGE_POOL_2D 2x2: OFM_SCALE (2147483648, 33) instead of (2147483649, 33), 255 accumulators of an 8-bit window round differently from the reference; "
                          "3x3: 3817748736 instead of 3817748709)")
    if nprod < 3:
        raise AnalysisError(f"generate_ofm_scaling_for_pooling: {nprod} products of the pooling divisor found (expected 3)")
    rep.floor("C09-b", 10)

    # ---------------------------------------------------------------- c: add/sub siblings
    adv = sc.func("advanced_elementwise_add_sub_scale")
    site = f"{SC}:advanced_elementwise_add_sub_scale"
    d = {norm(s.targets[0]): norm(s.value) for s in adv.body if isinstance(s, ast.Assign)}
    rep.check(d.get("input_shift") == "20 if bitdepth == 8 else 15", "C09-c", site, "input_shift = 20 for 8 bit, 15 otherwise", d.get("input_shift", ""))
    rep.check(d.get("op_to_scale") == "OperandToScale.OPa if input1_scale < input2_scale else OperandToScale.OPb", "C09-c", site, "the smaller input scale is the one rescaled (OPa iff input1 < input2)", d.get("op_to_scale", ""))
    cs = calls_in(adv, "simplified_elementwise_add_sub_scale")
    rep.check(len(cs) == 1 and [norm(a) for a in cs[0].args] == ["min_input_scale", "max_input_scale", "output_scale", "input_shift"], "C09-c", site,
              "simplified(min, max, output, input_shift)", norm(cs[0]) if cs else "")
    rep.check(d.get("max_input_scale") == "max(input1_scale, input2_scale)" and d.get("min_input_scale") == "min(input1_scale, input2_scale)", "C09-c", site, "min / max of the two input scales", "")
    rep.check(norm(adv.body[-1]) == "return (in_scale, in_shift, out_scale, out_shift, op_to_scale)", "C09-c", site, "returns (in_scale, in_shift, out_scale, out_shift, op_to_scale)", norm(adv.body[-1]))
    qs = [c for c in calls_in(adv, "quantise_scale")]
    rep.check(len(qs) == 1 and norm(qs[0].args[0]) == "input1_rescale", "C09-c", site, "the operand rescale is quantised with quantise_scale", "")
    simp = sc.func("simplified_elementwise_add_sub_scale")
    d = {norm(s.targets[0]): norm(s.value) for s in simp.body if isinstance(s, ast.Assign)}
    want = {
        "input1_rescale": "input1_scale * (1 << input_shift) / (2 * max_input_scale)",
        "input2_rescale": "input2_scale * (1 << input_shift) / (2 * max_input_scale)",
        "output_rescale": "2 * max_input_scale / (output_scale * (1 << input_shift))",
    }
    for k, v in want.items():
        rep.check(d.get(k) == v, "C09-c", f"{SC}:simplified_elementwise_add_sub_scale", f"{k} = {v}", d.get(k, ""))
    enum = {st.targets[0].id: st.value.value for st in sc.cls("OperandToScale").body if isinstance(st, ast.Assign)}
    rep.check(enum == {"OPa": 1, "OPb": 2}, "C09-c", f"{SC}:OperandToScale", "OPa = 1, OPb = 2 (IFM_PRECISION scale_mode encoding)", str(enum))
    gen = repo.mod("register_command_stream_generator")
    ge = gen.func("generate_scaling_for_elementwise")
    sw = [n_ for n_ in ast.walk(ge) if isinstance(n_, ast.If) and norm(n_.test) == "npu_op.reversed_operands"]
    ok = len(sw) == 1
    if ok:
        inner = [n_ for n_ in sw[0].body if isinstance(n_, ast.If)]
        ok = len(inner) == 1 and norm(inner[0].test) == "op_to_scale == scaling.OperandToScale.OPa" and norm(inner[0].body[0]) == "op_to_scale = scaling.OperandToScale.OPb" and \
            norm(inner[0].orelse[0]) == "op_to_scale = scaling.OperandToScale.OPa"
    rep.check(ok, "C09-c", f"{GEN}:generate_scaling_for_elementwise", "OPa and OPb are exchanged exactly when the operands are reversed", "")
    ca = calls_in(ge, "scaling.advanced_elementwise_add_sub_scale")
    rep.check(len(ca) == 1 and [norm(a) for a in ca[0].args] == ["input_scale", "input2_scale", "output_scale", "bitdepth"], "C09-c", f"{GEN}:generate_scaling_for_elementwise",
              "advanced(input_scale, input2_scale, output_scale, bitdepth)", "")
    # the derived values reach the registers / variables of the same role
    role = {"in_scale": "opa_scale", "in_shift": "opa_shift", "out_scale": "ofm_scale", "out_shift": "shift", "op_to_scale": "op_to_scale",
            "input1_rescale": "opa_scale", "input2_rescale": "opb_scale"}
    for callee, fdef in (("advanced_elementwise_add_sub_scale", adv), ("simplified_elementwise_add_sub_scale", simp)):
        ret = fdef.body[-1].value
        names = [norm(e) for e in ret.elts] if isinstance(ret, ast.Tuple) else []
        for s_ in ast.walk(ge):
            if isinstance(s_, ast.Assign) and isinstance(s_.value, ast.Call) and (call_name(s_.value) or "").endswith(callee) and isinstance(s_.targets[0], ast.Tuple):
                tg = [norm(e) for e in s_.targets[0].elts]
                want = [role.get(n_, n_) for n_ in names]
                rep.check(tg == want, "C09-c", f"{GEN}:generate_scaling_for_elementwise", f"result of {callee} is unpacked as {want}", f"unpacked as {tg} from a callee returning {names}")
    want_emit = {"NPU_SET_OPA_SCALE": ["opa_scale", "opa_shift"], "NPU_SET_OPB_SCALE": ["opb_scale"], "NPU_SET_OFM_SCALE": ["ofm_scale", "shift"]}
    for c_ in ast.walk(ge):
        if isinstance(c_, ast.Call) and norm(c_.func) == "emit.cmd1_with_offset":
            reg = norm(c_.args[0]).split(".")[-1]
            got = [norm(a) for a in c_.args[1:]]
            rep.check(got == want_emit.get(reg), "C09-c", f"{GEN}:generate_scaling_for_elementwise", f"{reg} <- {want_emit.get(reg)}", f"emitted with {got}")
    gp = gen.func("generate_ofm_scaling_for_pooling")
    em = [c_ for c_ in ast.walk(gp) if isinstance(c_, ast.Call) and norm(c_.func) == "emit.cmd1_with_offset"]
    rep.check(len(em) == 1 and [norm(a) for a in em[0].args] == ["cmd1.NPU_SET_OFM_SCALE", "scale", "shift"], "C09-c", f"{GEN}:generate_ofm_scaling_for_pooling", "NPU_SET_OFM_SCALE <- (scale, shift)", "")
    for s_ in ast.walk(gp):
        if isinstance(s_, ast.Assign) and isinstance(s_.value, ast.Call) and (call_name(s_.value) or "").startswith("scaling.quantise"):
            rep.check(norm(s_.targets[0]) == "(scale, shift)", "C09-c", f"{GEN}:generate_ofm_scaling_for_pooling", f"{call_name(s_.value)} unpacked as (scale, shift)", norm(s_.targets[0]))
    rep.floor("C09-c", 18)

    # ---------------------------------------------------------------- d: rounding mode, bypass of the reference derivation
    from .shared import round_half_away

    round_half_away(repo, rep, "C09-d")
    qs_ = sc.func("quantise_scale")
    rz = [c_ for c_ in calls_in(qs_) if call_name(c_) == "round_away_zero"]
    rep.check(len(rz) == 1 and "significand" in norm(rz[0]), "C09-d", f"{SC}:quantise_scale", "the Q31 significand is rounded with round_away_zero", "; ".join(norm(c_) for c_ in rz))
    site = f"{GEN}:generate_scaling_for_elementwise"
    same = [n_ for n_ in ast.walk(ge) if isinstance(n_, ast.If) and norm(n_.test) in ("input_scale == input2_scale", "input2_scale == input_scale")]
    if len(same) != 1:
        raise AnalysisError("8-bit equal-input-scale branch of generate_scaling_for_elementwise not found")
    asg = [s_ for s_ in same[0].body if isinstance(s_, ast.Assign) and norm(s_.targets[0]) == "use_advanced_scaling"]
    ok = len(asg) == 1
    detail = "the branch does not decide use_advanced_scaling (default False: the simplified derivation is always used)"
    if ok:
        v = asg[0].value
        detail = norm(v)
        if isinstance(v, ast.Constant):
            ok = v.value is True
        else:
            ok = False
            if isinstance(v, ast.Compare) and len(v.ops) == 1 and isinstance(v.ops[0], ast.NotEq) and try_fold(v.comparators[0]) == 0 and isinstance(v.left, ast.BinOp) and isinstance(v.left.op, ast.BitAnd):
                for x_, m_ in ((v.left.left, v.left.right), (v.left.right, v.left.left)):
                    mask = try_fold(m_)
                    if isinstance(mask, int) and "ofm_scale" in norm(x_):
                        ok = mask & 0xFFF == 0xFFF
                        detail = f"{norm(v)}: mask {mask:#x} leaves multiplier bits {0xFFF & ~mask:#x} unchecked; with any of them set the simplified triple (shift 16) differs from the reference derivation"
    rep.check(ok, "C09-d", site, "8-bit add/sub with equal input scales uses the simplified triple only if (OFM multiplier & 0xFFF) == 0", detail)
    from .shared import scale_direction_lint

    if scale_direction_lint(repo, rep, "C09-d") < 12:
        raise AnalysisError("scale quotients not found (naming changed?)")
    rep.floor("C09-d", 15)

    # ---------------------------------------------------------------- e: key of cached scale records
    wc = repo.mod("weight_compressor")
    WCF = "ethosu/vela/weight_compressor.py"
    enc = wc.func("encode_weight_and_scale_tensor")
    prep = [f_ for f_ in wc.functions.values() if f_.name != "encode_weight_and_scale_tensor" and any(isinstance(s_, ast.Assign) and norm(s_.targets[0]) == "quantised_scales" for s_ in ast.walk(f_))]
    if len(prep) != 1:
        raise AnalysisError("scale derivation function (assigning quantised_scales) not found in weight_compressor")
    prep = prep[0]

    def accessor(fn, name):
        out = []
        for s_ in ast.walk(fn):
            if isinstance(s_, ast.Assign) and norm(s_.targets[0]) == name:
                cs_ = [call_name(c_) for c_ in calls_in(s_.value) if (call_name(c_) or "").startswith("_get_")]
                at = [a_.attr for a_ in ast.walk(s_.value) if isinstance(a_, ast.Attribute) and a_.attr.startswith("scale")]
                out.append((tuple(cs_), tuple(at)))
        return out

    for nm in ("ifm_scale", "ofm_scale"):
        a, b = accessor(prep, nm), accessor(enc, nm)
        rep.check(len(a) == 1 and a == b and a[0][0], "C09-e", f"{WCF}:encode_weight_and_scale_tensor", f"key component `{nm}` is read like `{nm}` in {prep.name} ({a[0][0][0] if a and a[0][0] else '?'}(...).scale_f32)",
                  f"derivation reads {a}, key reads {b}: records derived from one scale are cached under another")
    scc = [s_ for s_ in ast.walk(enc) if isinstance(s_, ast.Assign) and norm(s_.targets[0]) == "scc"]
    fields = None
    for s_ in wc.tree.body:
        if isinstance(s_, ast.Assign) and norm(s_.targets[0]) == "ScaleCompressionConfig" and call_name(s_.value) == "namedtuple":
            fields = try_fold(s_.value.args[1])
    ok = len(scc) == 1 and fields is not None and call_name(scc[0].value) == "ScaleCompressionConfig" and len(scc[0].value.args) == len(fields)
    if ok:
        for fld, a_ in zip(fields, scc[0].value.args):
            t = norm(a_)
            rep.check(t == fld or (fld == "scale_value_id" and t.endswith("scale_tens.value_id")), "C09-e", f"{WCF}:encode_weight_and_scale_tensor", f"key field {fld} <- {t}", "field receives another quantity")
    else:
        raise AnalysisError("ScaleCompressionConfig construction not recognised")
    hit = [n_ for n_ in ast.walk(enc) if isinstance(n_, ast.If) and "scale_compression_config" in norm(n_.test)]
    rep.check(len(hit) == 1 and norm(hit[0].test) in ("tens_cached.scale_compression_config == scc", "scc == tens_cached.scale_compression_config"), "C09-e", f"{WCF}:encode_weight_and_scale_tensor",
              "cached scale records are reused only when the whole scale key is equal", norm(hit[0].test) if hit else "")
    rep.floor("C09-e", 6)
    rule_round5(repo, rep)
    rule_pool_scale_fits(repo, rep)
    rule_multiplier_fits_int32(repo, rep)
    rep.clause("C09-l", "ExplicitScaling is constructed as (per_channel, shift, multiplier): shift-named values second, scale / multiplier-named values third")
    rep.clause("C09-m", "the softmax input multiplier is clamped to 2^31 - 1 (the largest Q31 value), not 2^31")
    rep.clause("C09-n", "the global average-pool divisor (OFM_SCALE) is used only when no side of the pool is padded")
    rule_round7(repo, rep)
    rep.clause("C09-o", "an AVERAGE_POOL_2D lowered to a convolution rounds away from zero (the switch that adds 1 to the reciprocal multiplier and forces zero points to 0: exact halves then round like the reference)")
    go_ = repo.mod("tflite_graph_optimiser")
    f_ = go_.func("convert_avg_pool_to_conv2d")
    rm_ = [a for a in ast.walk(f_) if isinstance(a, ast.Assign) and str(norm(a.targets[0])).endswith(".rounding_mode")]
    rep.check(len(rm_) >= 1 and all(str(norm(a.value)) == "RoundingMode.AwayZero" for a in rm_), "C09-o", "ethosu/vela/tflite_graph_optimiser.py:convert_avg_pool_to_conv2d", "the lowered convolution gets RoundingMode.AwayZero",
              f"{[str(norm(a)) for a in rm_]}: HalfUp maps to the same hardware rounding but drops the +1 of the divisor multiplier and the zero-point forcing: a 2x5 window gets (1717986918, 34) for (1717986919, 34); 252 of 2551 window sums average differently from the reference")
    rep.clause("C09-p", "the packed scale records use the operator's own (forced) output quantisation [rule shared with C08-n]")
    from . import c08 as _c08p

    rep.run_borrowed(_c08p, {"C08-n": "C09-p"}, repo)
    from .shared import loop_shared_clone_lint

    rep.clause("C09-i", "quantisation records that get per-iteration values (the per-group slices of per-channel weight scales) are cloned per iteration: a record cloned before the loop is shared by every tensor it was given to")
    loop_shared_clone_lint(repo, rep, "C09-i", ["tflite_graph_optimiser", "graph_optimiser_util", "lstm", "softmax", "weight_compressor", "scheduler"],
                           "grouped CONV_2D with per-channel scales: every group's weight tensor gets the last group's scales and the packed multipliers of the other groups are those of other channels")
    rep.floor("C09-i", 1)
    rep.clause("C09-k", "the quantisation attached to an NPU feature map is read from the tensor the feature map was created from (reversed operands swap IFM and IFM2 of the command, not of the pass)")
    hn_ = repo.mod("high_level_command_to_npu_op")
    npair = 0
    for q_, fn_ in hn_.functions.items():
        made = {}
        for st in ast.walk(fn_):
            if isinstance(st, ast.Assign) and isinstance(st.value, ast.Call) and call_name(st.value) == "create_feature_map" and st.value.args:
                made[str(norm(st.targets[0]))] = str(norm(st.value.args[0]))
        for st in ast.walk(fn_):
            if isinstance(st, ast.Assign) and isinstance(st.targets[0], ast.Attribute) and st.targets[0].attr == "quantization" and isinstance(st.value, ast.Call) and (call_name(st.value) or "").startswith("get_") and len(st.value.args) >= 2:
                fm = str(norm(st.targets[0].value))
                if fm in made:
                    npair += 1
                    got = str(norm(st.value.args[1]))
                    rep.check(got == made[fm], "C09-k", f"ethosu/vela/high_level_command_to_npu_op.py:{q_}", f"`{fm}` is created from `{made[fm]}` and takes its quantisation from the same tensor",
                              f"quantisation is read from `{got}`: for a binary elementwise operator with reversed operands both NPU operands then carry one scale and OPA / OPB / OFM_SCALE are derived from (s1, s1, so)")
    if npair < 3:
        raise AnalysisError(f"feature map / quantisation pairs in high_level_command_to_npu_op: {npair}")
    rep.floor("C09-k", 3)
    rep.clause("C09-j", "whether a rescale is emitted at all is decided on exact equality of the scales (a tolerance drops the rescale of nearly equal scales) [rule shared with C16-e]")
    from . import c16 as _c16

    rep.run_borrowed(_c16, {"C16-e": "C09-j"}, repo, only_sites=("is_scaling_equal",))
    rep.clause("C09-f", "a scale register write is elided only when both emitted words (multiplier payload and shift parameter) equal the last write [rule shared with C06-e]")
    from . import c06

    rep.run_borrowed(c06, {'C06-e': 'C09-f'}, repo)

    # squared difference: each input's explicit scaling pairs that input's own shift with its own multiplier
    sqd = repo.mod("tflite_graph_optimiser").func("convert_squared_difference")
    import re as _re9

    n_es = 0
    for c_ in calls_in(sqd):
        if call_name(c_) == "ExplicitScaling" and len(c_.args) >= 3:
            idxs = set(_re9.findall(r"input(\d)_(?:shift|multiplier)", str(norm(c_))))
            if idxs:
                n_es += 1
                rep.check(len(idxs) == 1, "C09-c", "ethosu/vela/tflite_graph_optimiser.py:convert_squared_difference", f"`{str(norm(c_))[:70]}` pairs the shift and multiplier of one input",
                          f"mixes inputs {sorted(idxs)}: the pair is off by a power of two whenever the two input scales differ")
    rep.check(n_es >= 2, "C09-c", "ethosu/vela/tflite_graph_optimiser.py:convert_squared_difference", "per-input explicit scalings found", str(n_es))


def rule_round5(repo, rep):
    """(g) three places where a derivation silently changes its value: a scale helper memoised by value although its precision follows
    the argument type; the LSTM hidden-state multiplier taken from another quantisation record; the MEAN divisor's pre-shift."""
    import math

    rep.clause("C09-g", "scale derivation helpers are not memoised (np.float32(x), np.float64(x) and float(x) hash equal but are derived in different precision); the LSTM output-state "
               "multiplier is 2^-30 / hidden scale; the MEAN divisor is pre-shifted by floor(log2(window)) as in the reference")
    n = 0
    for mname in ("scaling", "fp_math", "numeric_util"):
        m = repo.mod(mname)
        for q, fn in m.functions.items():
            n += 1
            deco = [str(norm(d)) for d in fn.decorator_list]
            rep.check(not any("cache" in d for d in deco), "C09-g", f"ethosu/vela/{mname}.py:{q}", f"{q} is evaluated on every call (no memo decorator)",
                      f"decorated with {deco}: equal-valued arguments of different floating-point type share one cached result, so the pair derived in float32 for a register is handed to a caller "
                      "that needs the double-precision derivation (or the other way round), depending on call order; the cache also outlives the compilation")
    ls = repo.mod("lstm").func("Lstm.calculate_output_state")
    calls = [c for c in ast.walk(ls) if isinstance(c, ast.Call) and call_name(c) == "elementwise_mul_scale" and len(c.args) == 3]
    if len(calls) != 1:
        raise AnalysisError("Lstm.calculate_output_state: elementwise_mul_scale call not found")
    sa = {str(norm(s_.targets[0])): s_.value for s_ in ast.walk(ls) if isinstance(s_, ast.Assign) and len(s_.targets) == 1 and isinstance(s_.targets[0], ast.Name)}
    arg = calls[0].args[2]
    while isinstance(arg, ast.Call) and call_name(arg) in ("np.double", "float", "np.float64") and arg.args:
        arg = arg.args[0]
    if isinstance(arg, ast.Name) and arg.id in sa:
        arg = sa[arg.id]
    rep.check(str(norm(arg)) == "self.hidden_quantization.scale_f32", "C09-g", "ethosu/vela/lstm.py:Lstm.calculate_output_state",
              "the hidden-state multiplier divides by the hidden scale (intermediate #4), as the reference's effective_hidden_scale does",
              f"divides by `{str(norm(arg))}`: for an LSTM whose hidden scale differs from the output-state scale (projection) the explicit pair denotes another value")
    go = repo.mod("tflite_graph_optimiser")
    cm = go.func("convert_mean_to_depthwise_conv")
    sh = sorted((s_ for s_ in ast.walk(cm) if isinstance(s_, ast.Assign) and str(norm(s_.targets[0])) == "shift"), key=lambda s_: s_.lineno)
    if not sh:
        raise AnalysisError("convert_mean_to_depthwise_conv: divisor pre-shift not found")
    v = sh[0].value
    form = None
    if isinstance(v, ast.Call) and call_name(v) == "round_down_log2" and len(v.args) == 1:
        form = ("helper", str(norm(v.args[0])))
    elif isinstance(v, ast.BinOp) and isinstance(v.op, ast.Sub) and str(norm(v.right)) == "1" and isinstance(v.left, ast.Call) and isinstance(v.left.func, ast.Attribute) and v.left.func.attr == "bit_length":
        form = ("bit_length", str(norm(v.left.func.value)))
    rep.check(form is not None and form[1] == "num_elements_in_axis", "C09-g", "ethosu/vela/tflite_graph_optimiser.py:convert_mean_to_depthwise_conv",
              "the pre-shift of the MEAN divisor is floor(log2(number of reduced elements)) (63 - CountLeadingZeros in the reference)",
              f"shift = `{str(norm(v))}`: for windows that are no power of two the shifted multiplier exceeds int32 (wraps negative) or is one bit off the reference derivation")
    # the helper itself: floor(log2 v) on probes
    from ..absint import Interp, Unknown

    def lift(fn_):
        def ext(interp, args, kwargs, node):
            if len(args) == 1 and isinstance(args[0], (int, float)) and not kwargs:
                return float(fn_(args[0]))
            return Unknown("math(?)")
        return ext

    ex = {"np.log2": lift(math.log2), "numpy.log2": lift(math.log2), "math.log2": lift(math.log2), "math.floor": lift(math.floor), "math.ceil": lift(math.ceil)}
    from .shared import numeric_externs
    it = Interp(repo, repo.mod("numeric_util"), externs={**numeric_externs(), **ex})
    wrong = []
    for v_ in (1, 2, 3, 4, 5, 7, 8, 9, 30, 49, 64, 65, 1023, 1024, 65535):
        ps = list(it.run("round_down_log2", lambda v_=v_: ([v_], {})))
        if len(ps) != 1 or ps[0].kind != "return" or not isinstance(ps[0].value, (int, float)):
            raise AnalysisError(f"round_down_log2({v_}) not evaluable")
        if int(ps[0].value) != v_.bit_length() - 1:
            wrong.append((v_, ps[0].value))
    rep.check(not wrong, "C09-g", "ethosu/vela/numeric_util.py:round_down_log2", "round_down_log2(v) = floor(log2 v) on 15 probes", str(wrong[:3]))
    rep.floor("C09-g", 20)


def rule_pool_scale_fits(repo, rep, rule="C09-h"):
    """(h) the pooling OFM scale is a 32-bit multiplier and a 6-bit shift that denote rescale / window: generate_ofm_scaling_for_pooling is
    interpreted on a grid of windows and scale ratios in the branches that multiply the maximised divisor by a rescale factor; the pair
    handed to NPU_SET_OFM_SCALE must fit the register (the emitter masks silently) and denote the intended quotient."""
    import math as _m

    from ..absint import AObj, Interp, Unknown

    rep.clause(rule, "pooling: the (scale, shift) pair written to OFM_SCALE fits its 32 + 6 bits and denotes (IFM scale / OFM scale) / window for every window size and scale ratio "
               "(interpretation of generate_ofm_scaling_for_pooling; the emitter masks a wider value silently)")
    gen = repo.mod("register_command_stream_generator")
    site = "ethosu/vela/register_command_stream_generator.py:generate_ofm_scaling_for_pooling"

    def num(f):
        def g(i, a, k, n):
            if not a or not isinstance(a[0], (int, float)):
                return Unknown("math(?)")
            return f(a[0])
        return g

    tr = num(lambda v: float(_m.trunc(v)))
    ce = num(lambda v: float(_m.ceil(v)))
    wd = num(float)
    rnd = num(lambda v: float(round(v)))  # numpy.round: half to even, as Python's round
    ext = {"math.frexp": num(_m.frexp), "numpy.trunc": tr, "np.trunc": tr, "math.ceil": num(_m.ceil), "numpy.ceil": ce, "np.ceil": ce,
           "np.round": rnd, "numpy.round": rnd, "np.rint": rnd, "numpy.rint": rnd, "np.double": wd, "numpy.double": wd, "np.float64": wd, "numpy.float64": wd, "np.float32": wd, "numpy.float32": wd}
    from .shared import numeric_externs
    ext = {**numeric_externs(), **ext}
    it = Interp(repo, gen, externs=ext)
    wrong = None
    pts = 0
    for mode in ("quantisation", "rescale"):
        for (kh, kw), ratio in ((k, r) for k in ((1, 1), (2, 2), (3, 3), (1, 4), (5, 5), (8, 8)) for r in (0.3, 1.0, 1.25, 2.0, 3.7, 4.0)):
            def mk(kh=kh, kw=kw, ratio=ratio, mode=mode):
                q1 = AObj("q", {"scale_f32": ratio if mode == "quantisation" else 1.0, "zero_point": 0})
                q2 = AObj("q", {"scale_f32": 1.0, "zero_point": 0})
                op = AObj("pool_op", {"kernel": AObj("k", {"height": kh, "width": kw}), "ifm": AObj("ifm", {"quantization": q1, "data_type": Unknown("dt")}), "ofm": AObj("ofm", {"quantization": q2}),
                                      "activation": None, "fused_quantize": False, "rescale": None if mode == "quantisation" else ratio})
                return [AObj("emit"), op], {}

            ps = [p for p in it.run("generate_ofm_scaling_for_pooling", mk) if p.kind == "return"]
            if not ps:
                raise AnalysisError(f"generate_ofm_scaling_for_pooling: no returning path for window {kh}x{kw}, ratio {ratio} ({mode})")
            for p in ps:
                em = [c for c in p.args[0][0].calls if c[0] == "cmd1_with_offset"]
                if len(em) != 1 or len(em[0][1]) != 3:
                    raise AnalysisError(f"generate_ofm_scaling_for_pooling: OFM_SCALE emission not found on a path ({kh}x{kw}, {ratio}, {mode})")
                sc_, sh_ = em[0][1][1], em[0][1][2]
                if not isinstance(sc_, (int, float)) or not isinstance(sh_, int):
                    raise AnalysisError(f"generate_ofm_scaling_for_pooling: symbolic OFM_SCALE ({sc_!r}, {sh_!r}) for window {kh}x{kw}, ratio {ratio} ({mode})")
                pts += 1
                want = ratio / (kh * kw)
                fits = 0 <= sc_ < (1 << 32) and 0 <= sh_ < 64
                close = fits and abs(sc_ / (1 << sh_) - want) <= want * 2.0 ** -20
                if not (fits and close) and wrong is None:
                    wrong = (kh, kw, ratio, mode, sc_, sh_, want)
    rep.check(wrong is None, rule, site, f"OFM_SCALE = (scale, shift) with scale < 2^32, shift < 64 and scale / 2^shift = ratio / window ({pts} points: 6 windows x 6 ratios x 2 branches)",
              (f"window {wrong[0]}x{wrong[1]}, ratio {wrong[2]} ({wrong[3]} branch): ({wrong[4]}, {wrong[5]})" + (" does not fit 32 bits and is masked by the emitter" if not wrong[4] < (1 << 32) else "")
               + f"; intended value {wrong[6]:.6f}, register denotes {((int(wrong[4]) & 0xFFFFFFFF) / (1 << wrong[5])):.6f} "
               "(demonstrated end to end: AVERAGE_POOL_2D 2x2 VALID, scales 0.0456 -> 0.0123: OFM_SCALE (3666436096, 33) = 0.4268 instead of 0.9268)") if wrong else "")
    rep.floor(rule, 1)


def rule_multiplier_fits_int32(repo, rep):
    """(a') the multiplier quantise_scale returns is below 2^31: the reference renormalises a significand that rounds up to 2^31 (q_fixed /= 2,
    ++shift), and the compile-time helpers that apply the pair (fp_math) work on int32. quantise_scale is interpreted on significands that
    round up (1 - 2^-33) and on ordinary ones, for several exponents."""
    import math as _m

    from ..absint import Interp, Unknown

    sc = repo.mod("scaling")

    def num(f):
        def g(i, a, k, n):
            return f(a[0]) if a and isinstance(a[0], (int, float)) else Unknown("math(?)")
        return g

    tr = num(lambda v: float(_m.trunc(v)))
    from .shared import numeric_externs
    it = Interp(repo, sc, externs=numeric_externs())
    wrong = []
    pts = 0
    for e in (-20, -7, 0, 3):
        for sig in (1 - 2.0 ** -33, 1 - 2.0 ** -40, 0.75, 0.5, 1 - 2.0 ** -31):
            s_ = _m.ldexp(sig, e)
            ps = [p for p in it.run("quantise_scale", lambda s_=s_: ([s_], {})) if p.kind == "return"]
            if len(ps) != 1 or not (isinstance(ps[0].value, tuple) and all(isinstance(x, int) for x in ps[0].value)):
                raise AnalysisError(f"quantise_scale({s_!r}) not evaluable: {[(p.kind, p.value) for p in ps]}")
            mult, shift = ps[0].value
            pts += 1
            exact = abs(mult * 2.0 ** -shift - s_) <= s_ * 2.0 ** -30
            if not (mult == 0 or ((1 << 30) <= mult < (1 << 31) and exact)):
                wrong.append((s_, mult, shift))
    rep.check(not wrong, "C09-a", "ethosu/vela/scaling.py:quantise_scale", f"the multiplier is in [2^30, 2^31) and denotes the scale, also for significands that round up to 1 ({pts} probes)",
              f"quantise_scale({wrong[0][0]!r}) = ({wrong[0][1]}, {wrong[0][2]}): 2^31 is no int32; the reference halves it and adjusts the shift. fp_math.multiply_by_quantized_multiplier overflows "
              "(demonstrated: LEAKY_RELU int8 with ifm scale (1 + 2^-23) 2^-7, alpha 1 - 2^-23, ofm scale 2^-7 aborts with OverflowError)" if wrong else "")


def rule_round7(repo, rep):
    """(l) ExplicitScaling(per_channel, shift, multiplier): positional constructions put a shift-named value second and a scale / multiplier
    named value third (the scaling helpers return (multiplier, shift), the opposite order). (m) the softmax input multiplier saturates at
    2^31 - 1 (a value of 2^31 is no Q31 number: quantise_scale degrades it to the zero multiplier). (n) the average-pool divisor may be
    applied globally (OFM_SCALE) only if no side is padded: border windows of a padded pool have fewer elements."""
    import re as _re

    n = 0
    for mname in ("tflite_graph_optimiser", "lstm", "softmax", "graph_optimiser_util", "tosa_graph_optimiser"):
        try:
            m = repo.mod(mname)
        except Exception:
            continue
        for q, fn in m.functions.items():
            for c in ast.walk(fn):
                if isinstance(c, ast.Call) and call_name(c) == "ExplicitScaling" and len(c.args) == 3:
                    def leaf(e):
                        if isinstance(e, ast.List) and len(e.elts) == 1:
                            e = e.elts[0]
                        return set(_re.split(r"[^a-z0-9]+", e.id.lower())) if isinstance(e, ast.Name) else set()

                    t2, t3 = leaf(c.args[1]), leaf(c.args[2])
                    is_m = lambda t: bool(t & {"scale", "multiplier", "mult", "multipliers", "scales"})  # noqa: E731
                    is_s = lambda t: bool(t & {"shift", "shifts"})  # noqa: E731
                    if is_m(t2) or is_s(t2) or is_m(t3) or is_s(t3):
                        n += 1
                        rep.check(not is_m(t2) and not is_s(t3), "C09-l", f"ethosu/vela/{mname}.py:{q}", f"`{str(norm(c))[:70]}`: (per_channel, shift, multiplier) order",
                                  f"`{str(norm(c.args[1]))}` is passed as the shift and `{str(norm(c.args[2]))}` as the multiplier: OFM_SCALE gets the shift value as its multiplier (e.g. 40) and the low 6 bits of the multiplier as its shift")
    if n < 6:
        raise AnalysisError(f"ExplicitScaling: {n} positional constructions with named operands")
    sm = repo.mod("softmax")
    f = sm.func("SoftMax.generate_exp_table")
    mins = [c for c in ast.walk(f) if isinstance(c, ast.Call) and call_name(c) == "min" and len(c.args) == 2 and "beta" in str(norm(c))]
    if len(mins) != 1:
        raise AnalysisError("generate_exp_table: the clamp of the input multiplier was not found")
    env = {}
    for a in f.body:
        if isinstance(a, ast.Assign) and len(a.targets) == 1 and isinstance(a.targets[0], ast.Name) and isinstance(a.value, ast.Constant) and isinstance(a.value.value, int):
            env[a.targets[0].id] = a.value.value
    vals = []
    for arg in mins[0].args:
        if "beta" in str(norm(arg)):
            continue
        e = arg
        while isinstance(e, ast.Call) and call_name(e) in ("np.double", "numpy.double", "float", "np.float64") and len(e.args) == 1:
            e = e.args[0]
        try:
            vals.append(eval(compile(ast.Expression(e), "<clamp>", "eval"), {"__builtins__": {}}, dict(env)))
        except Exception:
            vals.append(None)
    rep.check(vals == [float((1 << 31) - 1)] or vals == [(1 << 31) - 1], "C09-m", "ethosu/vela/softmax.py:SoftMax.generate_exp_table", "the input multiplier saturates at 2^31 - 1",
              f"clamp value {vals}: at 2^31 quantise_scale sees shift -1 and returns the zero multiplier (0, 16): for beta * input_scale >= 32 every exp table entry becomes 0x7fffffff")
    g = repo.mod("register_command_stream_generator").func("generate_pooling_op")
    asg = [a for a in ast.walk(g) if isinstance(a, ast.Assign) and len(a.targets) == 1 and str(norm(a.targets[0])) == "use_global_scale"]
    asg = [a for a in asg if "sub_op_type" in str(norm(a.value))]
    if len(asg) != 1:
        raise AnalysisError("generate_pooling_op: use_global_scale not found")
    t = str(norm(asg[0].value))
    all_sides = "sum(npu_op.padding) == 0" in t or all(f"padding.{sd}" in t for sd in ("top", "left", "bottom", "right")) or "all(" in t and "npu_op.padding" in t
    rep.check(all_sides, "C09-n", "ethosu/vela/register_command_stream_generator.py:generate_pooling_op", "the global average-pool divisor is used only for pools without padding on any side",
              f"`{t[:120]}`: a pool padded at the bottom / right only (SAME padding of an even kernel) divides its border windows by the full window size (2x2, acc 200: 50 instead of 100)")


def rule_record_pairing(repo, rep):
    """(q) weight_compressor.encode_weight_and_scale_tensor deals the channels of a depth slice to the cores with stride `ncores` and packs
    one record per channel with `encode_bias(bias, *scale_pair)`. The loop is resolved symbolically: the bias argument is element t of an
    iterable that is a slice of `biases`; the scale pair is `<S>[<index>]` with S a slice of `quantised_scales` or the list itself and the
    index an expression in the enumerate counter. Both resolve to an absolute channel index; they must agree for 1 and 2 cores, two slice
    offsets, lengths 1..8 and every position."""
    wc = repo.mod("weight_compressor")
    f = wc.func("encode_weight_and_scale_tensor")
    site = "ethosu/vela/weight_compressor.py:encode_weight_and_scale_tensor"
    if f is None:
        raise AnalysisError("weight_compressor.encode_weight_and_scale_tensor not found")
    assigns = {}
    for st in ast.walk(f):
        if isinstance(st, ast.Assign) and len(st.targets) == 1 and isinstance(st.targets[0], ast.Name):
            assigns.setdefault(st.targets[0].id, []).append(st.value)

    def slice_of(e, base):
        """(lower, upper, step) if e is `<base>[lo:hi:st]`, reached through at most one local name; ("all",) if e is the base itself"""
        if isinstance(e, ast.Name) and e.id == base:
            return ("all",)
        if isinstance(e, ast.Name) and len(assigns.get(e.id, [])) == 1:
            e = assigns[e.id][0]
        if isinstance(e, ast.Subscript) and isinstance(e.slice, ast.Slice) and str(norm(e.value)) == base:
            return (e.slice.lower, e.slice.upper, e.slice.step)
        return None

    loops = [l for l in ast.walk(f) if isinstance(l, ast.For) and any((call_name(c) or "").split(".")[-1] == "encode_bias" for c in ast.walk(l) if isinstance(c, ast.Call))]
    inner = [l for l in loops if not any(o is not l and any(x is o for x in ast.walk(l)) for o in loops)]
    if len(inner) != 1:
        raise AnalysisError(f"encode_weight_and_scale_tensor: the loop that packs the records was not found ({len(inner)} candidates)")
    loop = inner[0]
    call = [c for c in ast.walk(loop) if isinstance(c, ast.Call) and (call_name(c) or "").split(".")[-1] == "encode_bias"][0]
    it_ = loop.iter
    counter = None
    start = ast.Constant(0)
    elem = None
    scale_iter = None
    if isinstance(it_, ast.Call) and call_name(it_) == "enumerate" and isinstance(loop.target, ast.Tuple) and len(loop.target.elts) == 2:
        counter, elem = loop.target.elts[0].id, loop.target.elts[1]
        if len(it_.args) > 1:
            start = it_.args[1]
        for kw in it_.keywords:
            if kw.arg == "start":
                start = kw.value
        bias_iter = it_.args[0]
    elif isinstance(it_, ast.Call) and call_name(it_) == "zip" and isinstance(loop.target, ast.Tuple) and len(it_.args) == 2:
        bias_iter, scale_iter = it_.args
        elem = loop.target.elts[0]
    else:
        bias_iter, elem = it_, loop.target
    if not isinstance(elem, ast.Name):
        raise AnalysisError("record loop: element variable not a plain name")
    b = call.args[0]
    while isinstance(b, ast.Call) and len(b.args) == 1 and (call_name(b) or "").split(".")[-1] in ("int64", "int", "int32"):
        b = b.args[0]
    bias_sl = slice_of(bias_iter, "biases") if isinstance(b, ast.Name) and b.id == elem.id else None
    if bias_sl is None:
        raise AnalysisError(f"record loop: bias argument `{norm(call.args[0])}` over `{norm(bias_iter)}` not resolved to a slice of `biases`")
    sc = [a for a in call.args[1:] if isinstance(a, ast.Starred)]
    if len(sc) != 1:
        raise AnalysisError("record loop: no `*<scale pair>` argument")
    sv = sc[0].value
    if scale_iter is not None and isinstance(sv, ast.Name) and sv.id == loop.target.elts[1].id:
        scale_sl, idx_expr = slice_of(scale_iter, "quantised_scales"), None
    elif isinstance(sv, ast.Subscript) and not isinstance(sv.slice, ast.Slice):
        scale_sl, idx_expr = slice_of(sv.value, "quantised_scales"), sv.slice
    else:
        scale_sl = None
    if scale_sl is None:
        raise AnalysisError(f"record loop: scale argument `{norm(sv)}` not resolved to an element of `quantised_scales`")

    def absolute(sl, pos, env):
        if sl == ("all",):
            return pos
        lo = eval_with(sl[0], env) if sl[0] is not None else 0
        stp = eval_with(sl[2], env) if sl[2] is not None else 1
        if lo is None or stp is None:
            raise AnalysisError("record loop: slice bounds not foldable")
        return lo + pos * stp

    def count(sl, env, total):
        if sl == ("all",):
            return total
        lo = eval_with(sl[0], env) if sl[0] is not None else 0
        hi = eval_with(sl[1], env) if sl[1] is not None else total
        stp = eval_with(sl[2], env) if sl[2] is not None else 1
        return len(range(lo, min(hi, total), stp))

    wrong = None
    pts = 0
    for ncores in (1, 2):
        for offset in (0, 16):
            for length in range(1, 9):
                for core in range(ncores):
                    env = {"depth_offset": offset, "core": core, "depth_length": length, "arch.ncores": ncores}
                    for t in range(count(bias_sl, env, offset + length)):
                        bi = absolute(bias_sl, t, env)
                        if idx_expr is None:
                            si = absolute(scale_sl, t, env)
                        else:
                            st_ = eval_with(start, env)
                            iv = eval_with(idx_expr, {**env, **({counter: t + st_} if counter else {})})
                            if st_ is None or iv is None:
                                raise AnalysisError(f"record loop: scale index `{norm(idx_expr)}` not foldable")
                            si = absolute(scale_sl, iv, env)
                        pts += 1
                        if bi != si and wrong is None:
                            wrong = (ncores, core, offset, length, t, bi, si)
    rep.check(wrong is None, "C09-q", site, f"record t of a core packs bias[c] with quantised_scales[c] for the same channel c ({pts} positions)",
              (f"{wrong[0]} cores, core {wrong[1]}, slice [{wrong[2]}, {wrong[2] + wrong[3]}), record {wrong[4]}: the bias of channel {wrong[5]} is packed with the (multiplier, shift) of channel {wrong[6]}: "
               "per-channel scales reach the wrong output channels on a multi-core part") if wrong else "")


def rule_softmax_int16_range(repo, rep):
    """(r) The reference int16 softmax derives its input multiplier from `input_scale * beta / (10.0 / 65535.0)` (the exp LUT spans
    [-10, 0] over 16 bits). In SoftMax.get_graph_int16 the divisor is the third argument of the `elementwise_mul_scale` call whose
    second argument is beta; it is resolved through local names and folded. The same value must be the scale of that MUL's output
    quantisation (the register pair is derived from both)."""
    sm = repo.mod("softmax")
    f = sm.func("SoftMax.get_graph_int16")
    site = "ethosu/vela/softmax.py:SoftMax.get_graph_int16"
    if f is None:
        raise AnalysisError("softmax.SoftMax.get_graph_int16 not found")
    loc = {}
    for st in ast.walk(f):
        if isinstance(st, ast.Assign) and len(st.targets) == 1 and isinstance(st.targets[0], ast.Name):
            loc.setdefault(st.targets[0].id, []).append(st.value)

    def fold(e):
        if isinstance(e, ast.Name) and len(loc.get(e.id, [])) == 1:
            e = loc[e.id][0]
        return try_fold(e, default=None)

    calls = [c for c in ast.walk(f) if isinstance(c, ast.Call) and (call_name(c) or "").split(".")[-1] == "elementwise_mul_scale" and len(c.args) == 3 and str(norm(c.args[1])) == "beta"]
    if len(calls) != 1:
        raise AnalysisError(f"get_graph_int16: the beta rescale call was not found ({len(calls)} candidates)")
    v = fold(calls[0].args[2])
    if v is None:
        raise AnalysisError(f"get_graph_int16: output range `{norm(calls[0].args[2])}` not foldable")
    want = 10.0 / 65535.0
    rep.check(abs(v - want) <= 1e-15, "C09-r", site, f"`{norm(calls[0])}`: output range = 10 / 65535",
              f"output range {v!r}: the reference divides by 10 / 65535 = {want!r}; multiplier and OFM scale of the beta MUL are off by {abs(v / want - 1):.1e} relative (2^-31 allowed)")
    # the quantisation of that MUL's output carries the same value
    tgt = [st for st in ast.walk(f) if isinstance(st, ast.Assign) and isinstance(st.targets[0], ast.Attribute) and st.targets[0].attr == "scale_f32" and isinstance(calls[0].args[2], ast.Name)
           and isinstance(st.value, ast.Name) and st.value.id == calls[0].args[2].id]
    rep.check(bool(tgt) or not isinstance(calls[0].args[2], ast.Name), "C09-r", site, "the MUL's output quantisation takes the same range variable", "no `<quant>.scale_f32 = <range variable>` in the function")


def rule_resize_add_slot(repo, rep):
    """(s) tflite_graph_optimiser.convert_resize_1x1_to_add stores an all-zero constant of scale 1.0 in one operand slot and the real input in
    the other; high_level_command_to_npu_op.create_npu_elementwise_op forces the output scale of that ADD to 'the input scale' by reading
    one operand's quantisation. The slot the consumer reads must be the slot the producer did not fill with the constant."""
    go = repo.mod("tflite_graph_optimiser")
    f = go.func("convert_resize_1x1_to_add")
    if f is None:
        raise AnalysisError("tflite_graph_optimiser.convert_resize_1x1_to_add not found")
    const_slot = None
    for c in ast.walk(f):
        if isinstance(c, ast.Call) and (call_name(c) or "").endswith("set_input_tensor") and len(c.args) == 2 and any((call_name(x) or "").endswith("create_const_tensor") for x in ast.walk(c.args[0]) if isinstance(x, ast.Call)):
            const_slot = try_fold(c.args[1], default=None)
        if isinstance(c, ast.Assign) and isinstance(c.targets[0], ast.Subscript) and str(norm(c.targets[0].value)) == "op.inputs" and any((call_name(x) or "").endswith("create_const_tensor") for x in ast.walk(c.value) if isinstance(x, ast.Call)):
            const_slot = try_fold(c.targets[0].slice, default=None)
    if const_slot not in (0, 1):
        raise AnalysisError("convert_resize_1x1_to_add: the slot of the zero constant was not found")
    hl = repo.mod("high_level_command_to_npu_op")
    g = hl.func("create_npu_elementwise_op")
    site = "ethosu/vela/high_level_command_to_npu_op.py:create_npu_elementwise_op"
    branches = [i for i in ast.walk(g) if isinstance(i, ast.If) and "is_resize_op" in str(norm(i.test))]
    if len(branches) != 1:
        raise AnalysisError(f"create_npu_elementwise_op: the resize-ADD branch was not found ({len(branches)})")
    reads = [x for st in branches[0].body for x in ast.walk(st) if isinstance(x, ast.Attribute) and x.attr in ("ifm", "ifm2") and str(norm(x.value)) in ("npu_op", "op", "cmd.ps.primary_op")]
    if not reads:
        raise AnalysisError("create_npu_elementwise_op: the resize-ADD branch reads no operand")
    want = "ifm2" if const_slot == 0 else "ifm"
    rep.check(all(r.attr == want for r in reads), "C09-s", site, f"the forced output scale of the resize ADD is read from `{want}` (the zero constant sits in slot {const_slot})",
              f"`{norm(branches[0].body[0])}`: slot {const_slot} holds the all-zero constant of scale 1.0: OFM_SCALE becomes the pair for scale 1.0 and the copied input is multiplied by its own scale")


def rule_avgpool_emulation_bias(repo, rep):
    """(t) an average pool that is emulated by a (depthwise) convolution divides by the window size through the packed scale record. The
    record is derived with full precision only if the bias is int32: for an int16 IFM an int64 bias makes _prepare_scale_and_bias take the
    reduced (15 bit) multiplier, which the reference uses for real int16 convolutions but not for pooling. Every lowering of an average pool
    (a function of the graph optimiser that tests for Op.AvgPool / is_avgpool_op and re-types the operator to Conv2DBias /
    DepthwiseConv2DBias) therefore creates the bias itself, with the literal DataType.int32, on every path from the re-typing to its exit
    (the generic fixup that runs later picks int64 for int16)."""
    go = repo.mod("tflite_graph_optimiser")
    n = 0
    for q, fn in go.functions.items():
        if "." in q:
            continue
        src = " ".join(str(norm(s)) for s in fn.body)
        if "Op.AvgPool" not in src and "is_avgpool_op" not in src:
            continue
        retypes = [st for st in ast.walk(fn) if isinstance(st, ast.Assign) and len(st.targets) == 1 and isinstance(st.targets[0], ast.Attribute) and st.targets[0].attr == "type"
                   and str(norm(st.value)) in ("Op.Conv2DBias", "Op.DepthwiseConv2DBias")]
        if not retypes:
            continue
        c = cfg_of(fn)
        site = f"ethosu/vela/tflite_graph_optimiser.py:{q}"

        def is_int32_bias(call):
            nm = (call_name(call) or "").split(".")[-1]
            if nm == "fixup_bias_tensors":
                args = [str(norm(a)) for a in call.args[3:4]] + [str(norm(k.value)) for k in call.keywords if k.arg == "dtype"]
                return args == ["DataType.int32"]
            if nm == "create_const_tensor" and call.args and "_bias" in str(norm(call.args[0])):
                return len(call.args) > 2 and str(norm(call.args[2])) == "DataType.int32"
            return False

        good = set()
        for st in ast.walk(fn):
            if isinstance(st, ast.stmt) and not isinstance(st, (ast.If, ast.For, ast.While, ast.FunctionDef, ast.With, ast.Try)):
                if any(isinstance(x, ast.Call) and is_int32_bias(x) for x in ast.walk(st)):
                    try:
                        good.add(c.node_of(st))
                    except Exception:
                        pass
        for rt in retypes:
            n += 1
            leak = c.path_avoiding(c.node_of(rt), 1, good)
            rep.check(not leak, "C09-t", site, f"after `{str(norm(rt))}` every path creates the bias with DataType.int32",
                      "a path reaches the end of the lowering without an int32 bias: the generic fixup adds an int64 bias for an int16 IFM and the window divisor is packed with the reduced 15-bit "
                      "multiplier (demonstrated: int16 AVERAGE_POOL_2D 2x4 stride_w 4 -> record (16385, 17) for 1/8, 49152 of 65536 inputs off by one)")
    if n < 2:
        raise AnalysisError(f"average pool lowerings: {n} found")


def rule_reader_scalar_type(repo, rep):
    """(u) the reference multiplies per-tensor scales in float32 before widening (`np.double(ifm_scale * weight_scale)`); Vela reproduces
    that only because the reader hands the scales on as numpy float32 scalars. len1_array_to_scalar therefore returns None, the array, or an
    *element* of the array - never a converted value (`.item()`, `float(..)`, `.tolist()`), which would be a Python double and make the
    product exact where the reference rounds it."""
    fn = repo.mod("tflite_reader").func("TFLiteSubgraph.len1_array_to_scalar")
    site = "ethosu/vela/tflite_reader.py:TFLiteSubgraph.len1_array_to_scalar"
    prm = fn.args.args[-1].arg
    rets = [s for s in ast.walk(fn) if isinstance(s, ast.Return)]
    if len(rets) < 2:
        raise AnalysisError("len1_array_to_scalar: returns not found")
    for r in rets:
        v = r.value
        ok = v is None or str(norm(v)) in ("None", prm) or (isinstance(v, ast.Subscript) and str(norm(v.value)) == prm and isinstance(try_fold(v.slice, default=None), int))
        rep.check(ok, "C09-u", site, f"`{str(norm(r))}` hands on the file's own element type",
                  f"`{str(norm(v))}` converts the element: a Python float is a double, `np.double(ifm_scale * weight_scale)` then loses the float32 rounding of the product that the reference "
                  "performs (Q31 multiplier off in its low bits for FULLY_CONNECTED / uint8 convolutions read from a file)")


def rule_round11(repo, rep):
    """(v) fixup_bias_tensors honours an explicitly requested bias type: `dtype` is assigned only under `dtype is None` (the lowerings that
    emulate pooling pass DataType.int32 to get full-precision scaling for int16).
    (w) a scale comparison compares two different tensors: no call of a comparison helper (check_quantized_tens_scaling_equal,
    is_scaling_equal, equivalent ..) and no ==/!= has the same expression on both sides (expected count 0; the matcher is exercised on a
    synthetic positive example on every run).
    (x) TOSA AVG_POOL2D reciprocal: numerator ((1 << 30) + 1) << k, shift 30 + k (folded for k = 0..6): the + 1 is scaled with the power of
    two, which makes the quotient round half up for every window size."""
    go = repo.mod("tflite_graph_optimiser")
    fn = go.func("fixup_bias_tensors")
    site = "ethosu/vela/tflite_graph_optimiser.py:fixup_bias_tensors"
    asg = [st for st in ast.walk(fn) if isinstance(st, ast.Assign) and str(norm(st.targets[0])) == "dtype"]
    if not asg:
        raise AnalysisError("fixup_bias_tensors: no default for dtype")
    for st in asg:
        cur, ok = st, False
        while cur is not fn and cur is not None:
            pp = go.parents.get(cur)
            if isinstance(pp, ast.If) and cur in pp.body and str(norm(pp.test)) == "dtype is None":
                ok = True
            cur = pp
        rep.check(ok, "C09-v", site, f"`{str(norm(st))[:70]}` only supplies a default (under `dtype is None`)",
                  "an explicitly requested bias type is overwritten: the int32 bias that the pooling / resize lowerings ask for becomes int64 for an int16 IFM and the divisor is packed with the reduced 15-bit multiplier")
    # (w) vacuous comparisons
    HELPERS = ("check_quantized_tens_scaling_equal", "is_scaling_equal", "equivalent", "is_quantization_equal", "equal_scales")

    def vacuous(tree):
        out = []
        for c in ast.walk(tree):
            if isinstance(c, ast.Call) and (call_name(c) or "").split(".")[-1] in HELPERS:
                args = [str(norm(a)) for a in c.args]
                if isinstance(c.func, ast.Attribute) and len(args) == 1:
                    args = [str(norm(c.func.value))] + args
                if len(args) == 2 and args[0] == args[1]:
                    out.append(c)
            if isinstance(c, ast.Compare) and len(c.ops) == 1 and isinstance(c.ops[0], (ast.Eq, ast.NotEq)) and str(norm(c.left)) == str(norm(c.comparators[0])) and not isinstance(c.left, ast.Constant):
                out.append(c)
        return out

    if len(vacuous(ast.parse("if check_quantized_tens_scaling_equal(ifm, ifm) and a.b == a.b:\n    pass\n"))) != 2:
        raise AnalysisError("vacuous comparison matcher does not match its positive example")
    n_calls = 0
    for m in repo.core_modules():
        for q, f in m.functions.items():
            n_calls += sum(1 for c in ast.walk(f) if isinstance(c, ast.Call) and (call_name(c) or "").split(".")[-1] in HELPERS)
            for c in vacuous(f):
                rep.bad("C09-w", f"{m.rel}:{q}", "a comparison compares two different operands", f"`{str(norm(c))[:80]}` has the same expression on both sides (always true / false): the scales it was to compare are never compared "
                        "(int16 LEAKY_RELU with different input and output scales kept native: OFM_SCALE denotes alpha instead of alpha * ifm / ofm)")
    rep.check(n_calls >= 10, "C09-w", "ethosu/vela", f"{n_calls} calls of scale / equivalence comparison helpers examined", "fewer than 10 calls found")
    # (x)
    tm = repo.mod("tosa_graph_optimiser")
    tf = tm.func("calc_scaling_avgpool")
    tsite = "ethosu/vela/tosa_graph_optimiser.py:calc_scaling_avgpool"
    num = [st for st in ast.walk(tf) if isinstance(st, ast.Assign) and str(norm(st.targets[0])) == "numerator"]
    shf = [c for c in ast.walk(tf) if isinstance(c, ast.Call) and str(norm(c.func)) == "shift.append"]
    if len(num) != 1 or len(shf) != 1:
        raise AnalysisError("calc_scaling_avgpool: numerator / shift not found")
    e = num[0].value
    if isinstance(e, ast.Call) and len(e.args) == 1:
        e = e.args[0]
    wrong = None
    for k in range(0, 7):
        got, gs = eval_with(e, {"k": k}), eval_with(shf[0].args[0], {"k": k})
        if got is None or gs is None:
            raise AnalysisError("calc_scaling_avgpool: numerator / shift not foldable")
        if (got != ((1 << 30) + 1) << k or gs != 30 + k) and wrong is None:
            wrong = (k, got, gs)
    rep.check(wrong is None, "C09-x", tsite, "numerator = ((1 << 30) + 1) << k with shift 30 + k for k = 0..6",
              f"k = {wrong[0]}: numerator {wrong[1]}, shift {wrong[2]}: the rounding term is not scaled with 2^k - a window sum exactly half-way (3 over a 2x3 window) is rounded down" if wrong else "")


def rule_round12(repo, rep):
    """(y) the reduced (15 bit) scaling of the int16 reference is selected by the *declared* types: `ifm_dtype == DataType.int16 and
    bias_tens.dtype == DataType.int64` - the element type of the values array (what numpy happened to pick) says nothing about the
    operator (conjunct set of the selecting test in _prepare_scale_and_bias)."""
    from ..exprnorm import conjuncts as _cj

    wc = repo.mod("weight_compressor")
    fn = wc.func("_prepare_scale_and_bias")
    site = "ethosu/vela/weight_compressor.py:_prepare_scale_and_bias"
    sel = [i for i in ast.walk(fn) if isinstance(i, ast.If) and any(isinstance(c, ast.Call) and (call_name(c) or "").endswith("reduced_quantise_scale") for st in i.body for c in ast.walk(st))]
    if len(sel) != 1:
        raise AnalysisError(f"_prepare_scale_and_bias: {len(sel)} tests select the reduced scaling")
    cj = sorted(str(norm(c)) for c in _cj(sel[0].test))
    want = sorted(["ifm_dtype == DataType.int16", "bias_tens.dtype == DataType.int64"])
    alt = sorted(["DataType.int16 == ifm_dtype", "DataType.int64 == bias_tens.dtype"])
    rep.check(cj in (want, alt), "C09-y", site, "reduced scaling is selected by the declared IFM and bias types", f"selected by {cj}: an int16 operator whose int32 bias sits in an int64 array gets the 15-bit multiplier (and the converse the full one)")
    # (z) the constant folding of a float QUANTIZE divides by the scale as the reference kernel does (a reciprocal multiplied in rounds ties differently)
    go = repo.mod("tflite_graph_optimiser")
    oq = go.func("optimise_quantize")
    osite = "ethosu/vela/tflite_graph_optimiser.py:optimise_quantize"
    calls = [c for c in ast.walk(oq) if isinstance(c, ast.Call) and (call_name(c) or "") == "round_away_zero" and c.args]
    if not calls:
        raise AnalysisError("optimise_quantize: rounding of the folded value not found")
    for c in calls:
        a = c.args[0]
        if isinstance(a, ast.Name):
            # a local that holds the quotient counts as the quotient
            ds = [st.value for st in ast.walk(oq) if isinstance(st, ast.Assign) and len(st.targets) == 1 and str(norm(st.targets[0])) == a.id]
            a = ds[-1] if len(ds) == 1 else a
        ok = isinstance(a, ast.BinOp) and isinstance(a.op, ast.Div) and str(norm(a.right)).endswith(".scale_f32")
        rep.check(ok, "C09-z", osite, f"`{str(norm(c))[:70]}` divides the value by the output scale", "the value is not divided by the scale itself (a precomputed reciprocal lands on the other side of .5 for constants on a rounding boundary: the folded constant is off by one code)")
